"""C06 — following an import gives the same answer as defining the callee locally.

Generated PAIRS (single-file program, split project): a clean `ProgGen` program plus classes with
`__init__` and classes with a static method; a downward-closed random subset of the callees is moved
into modules / packages (depth <= 3) of a temporary project and each moved callee is reached from its
(unique) caller by an import form drawn from FORMS; the caller's source is unchanged except for the callee
spelling the form requires.  Both versions run through the real CLI (`-o results`); the property oracle is
equality of each remaining function's results entry (single-file = reference), after mapping the spelled
callee back and dropping the module-path gets the dotted spelling itself introduces.

Module naming and exclusion patterns (props/c06_names.py): the split projects are generated with neutral unique module
tokens and then renamed so that exclusion patterns — the perennial ones (`rattr`, `rattr\\..*`, `packages?\\.rattr…`) and
user patterns delivered with `-F` or through pyproject.toml — stand in NEAR-MISS relations to the module names (proper
prefix / suffix / infix, case, one dotted component, sibling `pkg\\.x` vs `pkg.xy`, …) and never match one in full.  A
module that is not matched in full is configured to be followed, so (a) the pair oracle applies unchanged and (b) the
same project under the neutral names and without user patterns must give the same results document name for name
(signature `not-excluded-module-treated-differently:<relation>`; the relation is computed from the input with
CPython's `re`).  Same-named definitions: the target may additionally define an uncalled function / class with the name
and signature of a callee of a followed module; dedicated rows (`same_name_rows`) compare both directions exactly.

File layouts, star chains across package levels, the target's path, cycles through the target (round 3):
  * two files competing for one module name: a package `M/__init__.py` next to a STALE module `M.py` (same names, same
    signatures, other bodies; `add_stale_twins`, 30 % of the projects), and — dedicated projects — a module `M.py` next to a
    plain directory `M/` without `__init__.py`, at top level and inside packages, the target itself included.  Expected =
    what Python imports: CPython's `importlib.util.find_spec` (checked for every module name of every project) and the
    file of the object each spelled callee is bound to; the single-file reference holds the definitions of THAT file.
    Stage `locator`: the real `find_module_name_and_spec` vs the Lean model `Locator.findModuleNameAndSpec` (op `locator`)
    vs the Lean spec `Spec.firstMatch` vs CPython, per module name;
  * star re-export chains that cross package levels with a same-named DECOY module at the level a relative import would
    reach if it were resolved against the wrong file (forms reexport-star-pkg2 / -pkg3 / -pkg2-named / -pkg2-up /
    star-of-init-star: the chain may start in the target, in a followed module, in an `__init__`).  Stage `star_expand`:
    the symbols the real `expand_starred_imports` appends for every file holding a star import vs `StarChain.expandFile`,
    which derives the nested qualified names itself;
  * the target named by relative path, `./`, absolute path, through `dir/../`, and from another working directory with
    the project on PYTHONPATH (absolute and relative): every project gets a spelling; a project that fails under a
    spelling is re-run under the plain relative one (signature `target-path-spelling-changes-outcome:*` iff that works);
  * import cycles THROUGH THE TARGET: a callee of a moved function stays in the target and the followed module imports
    the target back (`back-import` / `back-from` / `back-relative-*`; the target's own imports then follow its
    definitions so that the cycle is valid Python, CPython imports the target first); half of these projects run under
    an absolute target path.  Dedicated rows (`cycle_rows`) compare call-backs into target functions / static methods
    exactly, under four spellings.

One definition per file, symbolic links (round 4):
  * the defining module of a moved callee is NAMED AFTER the callee with probability 1/4, under every import form
    (`pkg/f3.py: def f3`, `zp1/K0.py: class K0`): `from pkg import f3`, `pkg.f3()`, `alias.f3()` through an `__init__` that
    re-exports it (explicitly, by star, by an absolute import of its own submodule: forms `reexport-init-abs`,
    `import-pkg-attr-as` are new), through chains and star chains — the dotted name the CALL denotes is then also a
    module name (`called_name_is_also_a_module`, computed from the module table; signature suffix
    `:called-name-is-also-a-submodule`).  In the star-chain layouts the same-named decoy one package level up then IS a
    submodule carrying the called name while the package attribute comes from elsewhere (`called_name_is_also_another_
    module_file`): Python binds the package attribute.  Dedicated rows `member_rows` compare the three spellings x
    function / class / static method x re-export style exactly with the single-file program;
  * 35 % of the projects reach one or two package DIRECTORIES / module FILES of the followed part through SYMBOLIC LINKS
    (`Split.add_links`: the import statements name the link, the files lie elsewhere below the project; links inside
    links; preferred above a module that holds a local call, i.e. caller and callee moved together).  CPython is the
    oracle as before (`__file__` through the link); the locator stage gets the logical view (links followed).  Dedicated
    rows `link_rows` (linked package directory, linked module file, linked directory inside a real package; helpers of
    the linked module itself — function, class, static method — and of sibling modules by relative, relative-level-2 and
    absolute import) are compared exactly.  Lean: `RattrModel/LinkedLocal.lean`, Props/C06 "Round 4".

Self-checks (internal errors, never violations): CPython itself imports every split project and must bind
each spelled callee to the moved definition; the Lean spec `Spec.ImportEquiv.expected` must agree with
CPython.  Correspondence (Tie B): for each cross-module call, the Lean model (`callTargetFor` +
`resolveImport`, fed with the REAL root-context symbols of every module) vs the real `Context.
get_call_target` answer recorded in the caller's IR and the real `find_call_target_and_ir`.
The model computes the ignored-module set itself (`Blacklist.ignoredOf`) from the pattern SOURCES in force; its
`is_in_import_blacklist` verdict is compared with the real one for every existing module name and for probe names around
every pattern; the Lean regex fragment is validated against CPython's `re` (internal error on a mismatch).
"""
from __future__ import annotations

import ast
import json
import os
import random
import re
import shutil
import subprocess
import sys
import tempfile
from concurrent.futures import ThreadPoolExecutor
from pathlib import Path

import common
import impl
from props import c06_names as nm
from props import resultslib as rl
from props import visitlib as vl

PID = "C06"
TABLES = ["C06"]
CLI_TIMEOUT = 180   # generous: wall-clock under load must not become a verdict

# form -> (needs importer in a package, min depth of the callee module, style)
#   style "prefix": the callee is spelled <prefix>.<local spelling>;  "name": the bare (possibly aliased) name
FORMS = {
    "import":                 dict(pkg=False, style="prefix"),
    "import-dotted":          dict(pkg=False, style="prefix"),
    "import-dotted+parent":   dict(pkg=False, style="prefix"),
    "import-as":              dict(pkg=False, style="prefix"),
    "from":                   dict(pkg=False, style="name"),
    "from-as":                dict(pkg=False, style="name"),
    "from-parent":            dict(pkg=False, style="prefix"),
    "from-parent-as":         dict(pkg=False, style="prefix"),
    "relative-from-1":        dict(pkg=True, style="name"),
    "relative-from-2":        dict(pkg=True, style="name"),
    "relative-module":        dict(pkg=True, style="prefix"),
    "reexport-init":          dict(pkg=False, style="name"),
    "reexport-chain2":        dict(pkg=False, style="name"),
    "reexport-chain3":        dict(pkg=False, style="name"),
    "reexport-star":          dict(pkg=False, style="name"),
    # pkg/__init__: from .y import *  /  pkg/y.py: from .x import k   (star of a name the starred module itself imports)
    "reexport-star-chain2":   dict(pkg=False, style="name"),
    # pkg/sub/__init__: from ..x import k   (relative level 2 written inside a package __init__)
    "reexport-init-level2":   dict(pkg=False, style="name"),
    "import-pkg-attr":        dict(pkg=False, style="prefix"),
    "pkg-submodule-imported": dict(pkg=False, style="prefix"),
    # ---- star re-export chains that CROSS package levels, with a same-named decoy module at the level a relative
    #      import would reach if it were resolved against the wrong file (round 3)
    # pkg/__init__: from .sub import *  /  pkg/sub/__init__: from .x import *  /  pkg/sub/x.py: def k  [decoy pkg/x.py]
    "reexport-star-pkg2":       dict(pkg=False, style="name"),
    # three levels: pkg/__init__ -> pkg/s1/__init__ -> pkg/s1/s2/__init__ -> pkg/s1/s2/x.py  [decoys pkg/x.py, pkg/s1/x.py]
    "reexport-star-pkg3":       dict(pkg=False, style="name"),
    # the inner hop imports the NAME: pkg/sub/__init__: from .x import k  [decoy pkg/x.py]
    "reexport-star-pkg2-named": dict(pkg=False, style="name"),
    # the inner hop goes UP: pkg/sub/__init__: from ..x import *  /  pkg/x.py: def k  [decoys x.py, pkg/sub/x.py]
    "reexport-star-pkg2-up":    dict(pkg=False, style="name"),
    # the star chain starts in the importing module itself (target or followed module):
    # importer: from pkg import *  /  pkg/__init__: from .x import *  /  pkg/x.py: def k  [decoy x.py next to the importer]
    "star-of-init-star":        dict(pkg=False, style="name"),
    # ---- round 4: the package is bound to an ALIAS (`import pkg as p; p.k()`, k re-exported by pkg/__init__), and the
    #      re-export in the __init__ is written as an ABSOLUTE import of the package's own submodule
    "import-pkg-attr-as":       dict(pkg=False, style="prefix"),
    "reexport-init-abs":        dict(pkg=False, style="name"),
}
# forms added in round 3: fewer repetitions per (form, kind) cell — they share every mechanism but the file layout
LAYOUT_FORMS = ("reexport-star-pkg2", "reexport-star-pkg3", "reexport-star-pkg2-named", "reexport-star-pkg2-up",
                "star-of-init-star", "import-pkg-attr-as", "reexport-init-abs")
ROUND4_FORMS = ("import-pkg-attr-as", "reexport-init-abs")
# how a module of a followed module reaches a function that STAYS in the target (import cycle through the target)
BACK_FORMS = ("back-import", "back-from", "back-relative-from", "back-relative-module")
KINDS = ("func", "class", "static")


# ------------------------------------------------------------------ base programs

class Entity:
    def __init__(self, name, kind, src, spelled, import_name, marks):
        self.name, self.kind, self.src = name, kind, src
        self.spelled = spelled            # how a local call spells the callee
        self.import_name = import_name    # the name an import statement must bind
        self.marks = marks                # distinctive attribute names the definition contributes
        self.calls = []                   # callee entity names
        self.caller = None
        self.assigned = None              # class callers: the variable the instance is assigned to
        self.arg = None


def base_program(rng):
    n = rng.randint(3, 6)
    src, _sigs = rl.ProgGen(rng, n_funcs=n, clean=True).build()
    ents, order = {}, []
    tree = ast.parse(src)
    lines = src.splitlines()
    for node in tree.body:
        i = node.name[1:]
        first = (node.args.posonlyargs + node.args.args + node.args.kwonlyargs)[0].arg
        # every definition contributes one access that is certainly its own (used to tell which edge was followed)
        chunk = "\n".join(lines[node.lineno - 1: node.end_lineno]) + f"\n    {first}.own{i}\n"
        marks = {f"own{i}"}
        e = Entity(node.name, "func", chunk, node.name, node.name, marks)
        for c in ast.walk(node):
            if isinstance(c, ast.Call) and isinstance(c.func, ast.Name) and re.fullmatch(r"f\d+", c.func.id):
                e.calls.append(c.func.id)
        ents[node.name] = e
        order.append(node.name)
    classes, tail, wrappers = [], [], []
    for i in range(rng.randint(1, 2)):
        k = f"K{i}"
        ents[k] = Entity(k, "class", f"class {k}:\n    def __init__(self, ka{i}):\n        self.kf{i} = ka{i}.kw{i}\n",
                         k, k, {f"kf{i}", f"kw{i}"})
        c = Entity(f"ck{i}", "func", f"def ck{i}(pk{i}):\n    pk{i}.ownck{i}\n    xk{i} = {k}(pk{i})\n    return xk{i}\n",
                   f"ck{i}", f"ck{i}", {f"ownck{i}"})
        c.calls.append(k)
        ents[c.name] = c
        if rng.random() < 0.6:      # a caller of the caller: ck{i} can be moved, with K{i} in its own module or elsewhere
            w = Entity(f"cwk{i}", "func", f"def cwk{i}(pwk{i}):\n    ck{i}(pwk{i})\n", f"cwk{i}", f"cwk{i}", set())
            w.calls.append(c.name)
            ents[w.name] = w
            wrappers.append(w.name)
        ents[k].assigned, ents[k].arg = f"xk{i}", f"pk{i}"
        classes.append(k)
        tail.append(c.name)
    for i in range(rng.randint(1, 2)):
        h = f"H{i}"
        ents[h] = Entity(h, "static", f"class {h}:\n    @staticmethod\n    def sm{i}(hz{i}):\n        return hz{i}.hs{i}\n",
                         f"{h}.sm{i}", h, {f"hs{i}"})
        c = Entity(f"ch{i}", "func", f"def ch{i}(ph{i}):\n    ph{i}.ownch{i}\n    {h}.sm{i}(ph{i})\n", f"ch{i}", f"ch{i}",
                   {f"ownch{i}"})
        c.calls.append(h)
        ents[c.name] = c
        if rng.random() < 0.6:
            w = Entity(f"cwh{i}", "func", f"def cwh{i}(pwh{i}):\n    ch{i}(pwh{i})\n", f"cwh{i}", f"cwh{i}", set())
            w.calls.append(c.name)
            ents[w.name] = w
            wrappers.append(w.name)
        ents[h].arg = f"ph{i}"
        classes.append(h)
        tail.append(c.name)
    for e in ents.values():
        for c in e.calls:
            ents[c].caller = e.name
    return ents, classes + order + tail + wrappers


def respell(src, ent, spelled):
    """Rewrite calls to `ent` in the body of a def chunk (never the header)."""
    head, _, body = src.partition("\n")
    return head + "\n" + re.sub(rf"(?<![\w.]){re.escape(ent.spelled)}\(", spelled + "(", body)


def twin_source(e, v, tag):
    """A definition with the NAME and SIGNATURE of entity `e` whose body contributes the distinctive attribute
    `<tag>_<v>` instead of the entity's own marks (a decoy: Python never binds a generated call to it)."""
    node = ast.parse(e.src).body[0]
    if e.kind == "func":
        first = (node.args.posonlyargs + node.args.args + node.args.kwonlyargs)[0].arg
        head = e.src.split("\n", 1)[0]
        return f"{head}\n    return {first}.{tag}_{v}\n"
    if e.kind == "class":
        a = node.body[0].args.args[1].arg
        return f"class {v}:\n    def __init__(self, {a}):\n        self.made_{tag}_{v} = {a}.{tag}_{v}\n"
    sm = node.body[0]
    a = sm.args.args[0].arg
    return f"class {v}:\n    @staticmethod\n    def {sm.name}({a}):\n        return {a}.{tag}_{v}\n"


# ------------------------------------------------------------------ splitting

class Edge:
    def __init__(self, u, v, importer, module, form, kind, spelled, depth, chain, qualname, hops=()):
        self.u, self.v, self.importer, self.module = u, v, importer, module
        self.form, self.kind, self.spelled = form, kind, spelled
        self.depth, self.chain, self.qualname = depth, chain, qualname
        self.hops = list(hops)            # the re-exporting modules between importer and module
        self.member = False               # the defining module's last component is the callee's own name (pkg/f.py: def f)
        self.amb = False                  # the dotted name the CALL denotes (binding module + callee) is ALSO a module name
        self.amb_other = False            # … the name of a module file that is NOT the defining module (Python never imports it)

    def meta(self):
        return {"caller": self.u, "callee": self.v, "importer": self.importer, "module": self.module, "form": self.form,
                "kind": self.kind, "spelled": self.spelled, "depth": self.depth, "chain": self.chain, "hops": self.hops,
                "submodule_named_after_member": self.member, "called_name_is_also_a_module": self.amb,
                "called_name_is_also_another_module_file": self.amb_other}


class Split:
    def __init__(self, rng, ents, order, layout, want, back_p=0.0, member_p=0.0):
        self.rng, self.ents, self.order = rng, ents, order
        self.back_p = back_p              # probability that the project has an import cycle through the target
        self.member_p = member_p          # probability that a moved callee's module is NAMED AFTER the callee (pkg/f.py: def f)
        self.links = {}                   # logical path of a symbolic link (relative to the project) -> relative path it denotes
        self.target_mod = {"root": "target", "pkg": "tp.target", "pkg2": "tp.tq.target"}[layout]
        self.want = want                  # list of (form, kind) still to be covered (mutated)
        self.n = 0
        self.modules = {}                 # dotted name -> {"pkg": bool, "imports": [(line, json)], "defs": [src]}
        self.loc = {}                     # entity -> module
        self.edges = []
        self.shadows = {}                 # entity name -> source of a same-named definition placed in the target
        self.decoys = {}                  # module name (never imported by Python) -> entities it defines a decoy of
        self.layout_tags = []             # what the file layout of this project contains beyond modules and packages
        self.stale = {}                   # module -> "package-next-to-stale-module"
        self.hidden = {}                  # module -> how a plain directory of its name sits next to it
        self.back = []                    # back edges (followed module -> target), subset of self.edges
        self.ensure(self.target_mod, False)
        # ensure() creates the parent packages (tp, tp.tq) with empty __init__ files

    def fresh(self, p):
        self.n += 1
        return f"{p}{self.n}"

    def ensure(self, mod, pkg):
        parts = mod.split(".")
        for i in range(1, len(parts)):
            self.modules.setdefault(".".join(parts[:i]), {"pkg": True, "imports": [], "defs": []})
        return self.modules.setdefault(mod, {"pkg": pkg, "imports": [], "defs": []})

    def new_mod(self, depth, leaf=None):
        parts = [self.fresh("zp") for _ in range(depth - 1)] + [leaf or self.fresh("zm")]
        mod = ".".join(parts)
        self.ensure(mod, False)
        return mod

    def imp(self, mod, line, js):
        self.modules[mod]["imports"].append((line, js))

    def applicable(self, form, importer):
        in_pkg = "." in importer
        if FORMS[form]["pkg"] and not in_pkg:
            return False
        if form == "relative-from-2" and importer.count(".") < 2:
            return False
        return True

    def choose_form(self, importer, kind):
        for i, (f, k) in enumerate(self.want):
            if k == kind and self.applicable(f, importer):
                del self.want[i]
                return f
        forms = [f for f in FORMS if self.applicable(f, importer)]
        return self.rng.choice(forms)

    def place(self, v):
        """Decide module + import form for moved callee v (its caller is already placed)."""
        e = self.ents[v]
        importer = self.loc[e.caller]
        # a class / static-method holder called from a followed module often lives in that same module
        if importer != self.target_mod and self.rng.random() < (0.5 if e.kind != "func" else 0.2):
            self.loc[v] = importer
            self.modules[importer]["defs"].append(v)
            return
        form = self.choose_form(importer, e.kind)
        k = e.import_name
        r = self.rng
        chain = 0
        via = []
        # the defining module is NAMED AFTER the callee (one definition per file: pkg/slugify.py defines slugify)
        leaf = k if (self.member_p and r.random() < self.member_p) else None
        if leaf and e.kind == "static" and FORMS[form]["style"] == "prefix" and not form.startswith("import-pkg-attr"):
            # `import H; H.H.sm()`: the module's name occurs inside the callee's dotted name — the class of the dedicated
            # row `module-name-inside-callee-name` (known finding), kept out of the random projects
            leaf = None
        bound = None        # the module the importer's statement names as the holder of k (default: the defining module)
        if form == "import":
            mod = self.new_mod(1, leaf)
            self.imp(importer, f"import {mod}", {"k": "plain", "module": mod})
            prefix = mod
        elif form == "import-dotted":
            mod = self.new_mod(r.choice([2, 3]), leaf)
            self.imp(importer, f"import {mod}", {"k": "plain", "module": mod})
            prefix = mod
        elif form == "import-dotted+parent":
            mod = self.new_mod(r.choice([2, 3]), leaf)
            top = mod.split(".")[0]
            self.imp(importer, f"import {top}", {"k": "plain", "module": top})
            self.imp(importer, f"import {mod}", {"k": "plain", "module": mod})
            prefix = mod
        elif form == "import-as":
            mod = self.new_mod(r.choice([1, 2, 3]), leaf)
            a = self.fresh("za")
            self.imp(importer, f"import {mod} as {a}", {"k": "plain", "module": mod, "asname": a})
            prefix = a
        elif form == "from":
            mod = self.new_mod(r.choice([1, 2, 3]), leaf)
            self.imp(importer, f"from {mod} import {k}", {"k": "from", "module": mod, "name": k})
            prefix = None
        elif form == "from-as":
            mod = self.new_mod(r.choice([1, 2, 3]), leaf)
            a = self.fresh("zg")
            self.imp(importer, f"from {mod} import {k} as {a}", {"k": "from", "module": mod, "name": k, "asname": a})
            prefix = ("alias", a)
        elif form in ("from-parent", "from-parent-as"):
            mod = self.new_mod(r.choice([2, 3]), leaf)
            parent, last = mod.rsplit(".", 1)
            if form == "from-parent":
                self.imp(importer, f"from {parent} import {last}", {"k": "from", "module": parent, "name": last})
                prefix = last
            else:
                a = self.fresh("za")
                self.imp(importer, f"from {parent} import {last} as {a}",
                         {"k": "from", "module": parent, "name": last, "asname": a})
                prefix = a
        elif form in ("relative-from-1", "relative-from-2", "relative-module"):
            level = 2 if form == "relative-from-2" else 1
            pkg_parts = importer.split(".")[:-1]
            base = pkg_parts[:len(pkg_parts) - (level - 1)]
            last = leaf or self.fresh("zm")
            mod = ".".join(base + [last])
            self.ensure(mod, False)
            dots = "." * level
            if form == "relative-module":
                self.imp(importer, f"from {dots} import {last}", {"k": "rel", "level": level, "module": None, "name": last})
                prefix = last
            else:
                self.imp(importer, f"from {dots}{last} import {k}", {"k": "rel", "level": level, "module": last, "name": k})
                prefix = None
        elif form == "reexport-init-level2":
            chain = 1
            pkg = self.fresh("zr")
            self.ensure(pkg, True)
            sub = f"{pkg}.{self.fresh('zq')}"
            self.ensure(sub, True)
            last = leaf or self.fresh("zx")
            mod = f"{pkg}.{last}"
            self.ensure(mod, False)
            via = [sub]
            bound = sub
            self.imp(sub, f"from ..{last} import {k}", {"k": "rel", "level": 2, "module": last, "name": k})
            self.imp(importer, f"from {sub} import {k}", {"k": "from", "module": sub, "name": k})
            prefix = None
        elif form in ("reexport-init", "reexport-chain2", "reexport-chain3", "reexport-star", "reexport-star-chain2",
                      "import-pkg-attr", "import-pkg-attr-as", "reexport-init-abs"):
            chain = {"reexport-chain2": 2, "reexport-chain3": 3, "reexport-star-chain2": 2}.get(form, 1)
            pkg = self.fresh("zr")
            self.ensure(pkg, True)
            hops = [pkg] + [f"{pkg}.{self.fresh('zy')}" for _ in range(chain - 1)]
            mod = f"{pkg}.{leaf or self.fresh('zx')}"
            self.ensure(mod, False)
            via = list(hops)
            bound = pkg
            for i, h in enumerate(hops):
                self.ensure(h, i == 0)
                nxt = (hops[i + 1] if i + 1 < len(hops) else mod).rsplit(".", 1)[1]
                if form in ("reexport-star", "reexport-star-chain2") and i == 0:
                    self.imp(h, f"from .{nxt} import *", {"k": "relstar", "level": 1, "module": nxt})
                elif form == "reexport-init-abs":
                    # the package's __init__ names its own submodule absolutely
                    self.imp(h, f"from {pkg}.{nxt} import {k}", {"k": "from", "module": f"{pkg}.{nxt}", "name": k})
                else:
                    self.imp(h, f"from .{nxt} import {k}", {"k": "rel", "level": 1, "module": nxt, "name": k})
            if form == "import-pkg-attr":
                self.imp(importer, f"import {pkg}", {"k": "plain", "module": pkg})
                prefix = pkg
            elif form == "import-pkg-attr-as":
                a = self.fresh("za")
                self.imp(importer, f"import {pkg} as {a}", {"k": "plain", "module": pkg, "asname": a})
                prefix = a
            else:
                self.imp(importer, f"from {pkg} import {k}", {"k": "from", "module": pkg, "name": k})
                prefix = None
        elif form in ("reexport-star-pkg2", "reexport-star-pkg2-named", "reexport-star-pkg3", "reexport-star-pkg2-up"):
            pkg = self.fresh("zr")
            x = leaf or self.fresh("zx")
            bound = pkg
            if form == "reexport-star-pkg3":
                s1 = f"{pkg}.{self.fresh('zq')}"
                s2 = f"{s1}.{self.fresh('zq')}"
                hops, mod, decoys = [pkg, s1, s2], f"{s2}.{x}", [f"{pkg}.{x}", f"{s1}.{x}"]
            elif form == "reexport-star-pkg2-up":
                sub = f"{pkg}.{self.fresh('zq')}"
                hops, mod, decoys = [pkg, sub], f"{pkg}.{x}", [x, f"{sub}.{x}"]
            else:
                sub = f"{pkg}.{self.fresh('zq')}"
                hops, mod, decoys = [pkg, sub], f"{sub}.{x}", [f"{pkg}.{x}"]
            for h in hops:
                self.ensure(h, True)
            self.ensure(mod, False)
            chain = len(hops)
            via = list(hops)
            for i, h in enumerate(hops[:-1]):
                nxt = hops[i + 1].rsplit(".", 1)[1]
                self.imp(h, f"from .{nxt} import *", {"k": "relstar", "level": 1, "module": nxt})
            if form == "reexport-star-pkg2-named":
                self.imp(hops[-1], f"from .{x} import {k}", {"k": "rel", "level": 1, "module": x, "name": k})
            elif form == "reexport-star-pkg2-up":
                self.imp(hops[-1], f"from ..{x} import *", {"k": "relstar", "level": 2, "module": x})
            else:
                self.imp(hops[-1], f"from .{x} import *", {"k": "relstar", "level": 1, "module": x})
            for d in decoys:
                self.decoys.setdefault(d, []).append(v)
            self.imp(importer, f"from {pkg} import {k}", {"k": "from", "module": pkg, "name": k})
            prefix = None
        elif form == "star-of-init-star":
            chain = 1
            pkg = self.fresh("zr")
            self.ensure(pkg, True)
            x = leaf or self.fresh("zx")
            bound = pkg
            mod = f"{pkg}.{x}"
            self.ensure(mod, False)
            via = [pkg]
            self.imp(pkg, f"from .{x} import *", {"k": "relstar", "level": 1, "module": x})
            self.imp(importer, f"from {pkg} import *", {"k": "star", "module": pkg})
            # the decoy sits where `.x` would lead if it were resolved against the IMPORTER's file
            base = importer.rsplit(".", 1)[0] + "." if "." in importer else ""
            self.decoys.setdefault(base + x, []).append(v)
            prefix = None
        elif form == "pkg-submodule-imported":
            pkg = self.fresh("zr")
            self.ensure(pkg, True)
            last = leaf or self.fresh("zs")
            mod = f"{pkg}.{last}"
            self.ensure(mod, False)
            via = [pkg]
            self.imp(pkg, f"from . import {last}", {"k": "rel", "level": 1, "module": None, "name": last})
            self.imp(importer, f"import {pkg}", {"k": "plain", "module": pkg})
            prefix = mod
        else:
            raise AssertionError(form)
        if isinstance(prefix, tuple):
            spelled = prefix[1] + e.spelled[len(e.import_name):]
        elif prefix is None:
            spelled = e.spelled
        else:
            spelled = f"{prefix}.{e.spelled}"
        self.loc[v] = mod
        self.modules[mod]["defs"].append(v)
        ed = Edge(e.caller, v, importer, mod, form, e.kind, spelled, mod.count(".") + 1, chain, e.spelled, via)
        ed.member = mod.rsplit(".", 1)[-1] == k
        ed.bound = bound or mod
        self.edges.append(ed)

    def build(self):
        ents, r = self.ents, self.rng
        callees = [n for n in self.order if ents[n].caller is not None]
        moved = set()
        roots = [n for n in callees if ents[ents[n].caller].caller is None]
        # the kinds the coverage list still needs come first
        for n in callees:
            if ents[n].caller in moved or r.random() < 0.6:
                moved.add(n)
        if not moved:
            moved.add(r.choice(roots or callees))
        # import cycle THROUGH THE TARGET: some callee of a moved function stays in the target file and the followed
        # module imports the target back to call it (the moved set is otherwise closed downwards)
        stay = set()
        if self.back_p and r.random() < self.back_p:
            cands = [c for n in self.order if n in moved for c in ents[n].calls if ents[c].kind in ("func", "static")]
            for c in r.sample(cands, min(len(cands), r.choice([1, 1, 2]))):
                if ents[c].caller in moved and ents[c].caller not in stay and not any(ents[x].caller == c for x in stay):
                    stay.add(c)
                    moved.discard(c)
        changed = True
        while changed:
            changed = False
            for n in list(moved):
                for c in ents[n].calls:
                    if c not in moved and c not in stay:
                        moved.add(c)
                        changed = True
        for n in self.order:
            if n not in moved:
                self.loc[n] = self.target_mod
                self.modules[self.target_mod]["defs"].append(n)
        # parents before children
        todo = [n for n in self.order if n in moved]
        while todo:
            for n in list(todo):
                if ents[n].caller in self.loc:
                    self.place(n)
                    todo.remove(n)
        for n in self.order:
            if n in stay:
                self.place_back(n)
        # the dotted name a call denotes — the module the importer's statement names + the callee as spelled locally — is ALSO
        # the name of a module of the project (`from pkg import f` / `pkg.f()` next to pkg/f.py)
        for ed in self.edges:
            called = f"{getattr(ed, 'bound', ed.module)}.{ed.qualname}"
            ed.amb = called in self.modules
            # … or of a same-named module FILE that is not the defining module: `from pkg import f`, pkg/__init__ takes f
            # from elsewhere (`from .sub import *`), and a file pkg/f.py exists too (Python: the package attribute wins)
            ed.amb_other = called != ed.module and (called in self.decoys or called in self.modules)
        return self

    def place_back(self, w):
        """`w` stays in the target; its caller lives in a followed module, which imports the target back."""
        e = self.ents[w]
        importer = self.loc[e.caller]
        assert importer != self.target_mod
        r, t = self.rng, self.target_mod
        tpkg = t.rsplit(".", 1)[0] if "." in t else None
        tleaf = t.rsplit(".", 1)[-1]
        forms = ["back-import", "back-import"]
        if e.kind == "func":
            forms += ["back-from", "back-from"]
        if tpkg is not None and "." in importer and importer.rsplit(".", 1)[0] == tpkg:
            forms += ["back-relative-module"] * 2 + (["back-relative-from"] * 2 if e.kind == "func" else [])
        form = r.choice(forms)
        k = e.import_name
        if form == "back-import":
            if "." in t:        # `import p.m` alone is not followed (known finding): bind the dotted module to an alias
                a = self.fresh("za")
                self.imp(importer, f"import {t} as {a}", {"k": "plain", "module": t, "asname": a})
                prefix = a
            else:
                self.imp(importer, f"import {t}", {"k": "plain", "module": t})
                prefix = t
        elif form == "back-from":
            self.imp(importer, f"from {t} import {k}", {"k": "from", "module": t, "name": k})
            prefix = None
        elif form == "back-relative-from":
            self.imp(importer, f"from .{tleaf} import {k}", {"k": "rel", "level": 1, "module": tleaf, "name": k})
            prefix = None
        else:
            self.imp(importer, f"from . import {tleaf}", {"k": "rel", "level": 1, "module": None, "name": tleaf})
            prefix = tleaf
        spelled = e.spelled if prefix is None else f"{prefix}.{e.spelled}"
        ed = Edge(e.caller, w, importer, t, form, e.kind, spelled, t.count(".") + 1, 0, e.spelled, [])
        self.edges.append(ed)
        self.back.append(ed)

    def source_of(self, mod):
        m = self.modules[mod]
        by_caller = {}
        for ed in self.edges:
            by_caller.setdefault(ed.u, []).append(ed)
        imports = [l for l, _ in m["imports"]]
        # a target that is imported back by a followed module: its own imports come AFTER its definitions, so that the
        # cycle is valid Python whichever `from` forms it uses (the target is imported first; every name a followed
        # module takes from it is bound by then)
        bottom = mod == self.target_mod and bool(self.back)
        out = [] if bottom else list(imports)
        if out:
            out.append("")
        # classes first, as in the single-file version (a static method resolves only if its class comes earlier)
        for n in sorted(m["defs"], key=lambda n: self.ents[n].kind == "func"):
            src = self.ents[n].src
            for ed in by_caller.get(n, []):
                src = respell(src, self.ents[ed.v], ed.spelled)
            out.append(src)
        if mod == self.target_mod:
            # same-named definitions: never called, never imported — they must not change anything
            for n in sorted(self.shadows, key=lambda n: self.ents[n].kind == "func"):
                out.append(self.shadows[n])
        if bottom and imports:
            out += [""] + imports
        return "\n".join(out) + ("\n" if out else "")

    def path_of(self, mod):
        return mod.replace(".", "/") + ("/__init__.py" if self.modules[mod]["pkg"] else ".py")

    def twins_text(self, vs, tag):
        return "\n".join(twin_source(self.ents[v], v, tag) for v in sorted(vs, key=lambda n: self.ents[n].kind == "func"))

    def files(self):
        fs = {}
        for mod, m in self.modules.items():
            fs[self.path_of(mod)] = self.source_of(mod)
        # files Python never imports: same-named decoy modules, the stale module file next to a package, what lies in a
        # plain directory (no __init__.py) next to a module
        for mod, vs in self.decoys.items():
            fs[mod.replace(".", "/") + ".py"] = self.twins_text(vs, "decoy")
        for mod, vs in self.stale.items():
            fs[mod.replace(".", "/") + ".py"] = self.twins_text(vs, "stale")
        for mod, kind in self.hidden.items():
            d = mod.replace(".", "/")
            if kind == "data-file":
                fs[d + "/notes.txt"] = "not python\n"
            else:
                fs[d + "/zhelper.py"] = "def in_plain_directory(a):\n    return a.in_plain_directory\n"
        return fs

    def all_module_names(self):
        return list(self.modules) + [d for d in self.decoys if d not in self.modules]

    # -------------------------------------------------- file layouts in which two files compete for one module name
    def add_stale_twins(self, rng, p_each=0.5):
        """A module that "grew into a package": the definitions live in `M/__init__.py`, a stale `M.py` with the
        same names and signatures is left next to it.  Python imports the package (a regular package shadows a
        module of the same name in one path entry)."""
        for mod, m in list(self.modules.items()):
            if m["pkg"] or mod == self.target_mod or not m["defs"] or rng.random() >= p_each:
                continue
            if any(js["k"] in ("rel", "relstar") for _, js in m["imports"]):
                continue          # relative imports of a module would change meaning inside an __init__
            m["pkg"] = True
            self.stale[mod] = list(m["defs"])
        if self.stale:
            self.layout_tags.append("package-next-to-stale-module")
        return self

    def add_hidden_dir(self, rng):
        """ONE module M.py gets a plain directory M/ (no __init__.py) next to it; Python still imports M.py (a
        regular module beats a namespace portion)."""
        cands = [mod for mod, m in self.modules.items() if not m["pkg"] and (mod != self.target_mod or self.back)
                 and (m["defs"] or m["imports"])]
        if not cands:
            return self
        mod = rng.choice(cands)
        self.hidden[mod] = rng.choice(["data-file", "python-file"])
        self.layout_tags.append("module-next-to-plain-directory")
        return self

    def add_links(self, rng):
        """One or two package DIRECTORIES / module FILES of the followed part of the project become SYMBOLIC LINKS: the
        project's import statements keep naming the link (`textlib`), the files really lie elsewhere below the project
        (`zlk1/textlib_v2/…`, importable under that name too, never imported).  Python imports through the link and
        binds everything exactly as before (checked by CPython itself, `__file__` = the path through the link).
        Preferred: links above (or at) a module that holds a LOCAL call (caller and callee moved together)."""
        tparts = self.target_mod.split(".")
        on_target_path = lambda mod: tparts[:mod.count(".") + 1] == mod.split(".")
        local = {self.loc[c] for c, e in self.ents.items() if e.caller is not None and c in self.loc
                 and self.loc.get(e.caller) == self.loc[c] and self.loc[c] != self.target_mod}
        dirs = [mod for mod, m in self.modules.items() if m["pkg"] and not on_target_path(mod)]
        mods = [mod for mod, m in self.modules.items() if not m["pkg"] and mod != self.target_mod and (m["defs"] or m["imports"])]
        hot = [("dir", d) for d in dirs if any(l == d or l.startswith(d + ".") for l in local)] + \
              [("file", f) for f in mods if f in local]
        cold = [("dir", d) for d in dirs] + [("file", f) for f in mods]
        for _ in range(rng.choice([1, 1, 2])):
            pool = hot if (hot and rng.random() < 0.7) else cold
            pool = [c for c in pool if (c[1].replace(".", "/") + (".py" if c[0] == "file" else "")) not in self.links]
            if not pool:
                break
            what, mod = rng.choice(pool)
            n = len(self.links) + 1
            leaf = mod.rsplit(".", 1)[-1]
            if what == "dir":
                link = mod.replace(".", "/")
                dest = rng.choice([f"zlk{n}/{leaf}_v2", f"zlk{n}", f"zlk{n}/zdeep/{leaf}"])
            else:
                link = mod.replace(".", "/") + ".py"
                parent = link.rsplit("/", 1)[0] + "/" if "/" in link else ""
                dest = rng.choice([f"zlk{n}/{leaf}_impl.py", f"zlk{n}/{leaf}.py", f"{parent}{leaf}_impl.py"])
            self.links[link] = dest
            self.layout_tags.append("symbolic-link:" + ("package-directory" if what == "dir" else "module-file"))
        return self

    def linked(self, mod):
        """the file of module `mod` is reached through a symbolic link"""
        return physical(self.path_of(mod), self.links) != self.path_of(mod)

    def hidden_reached_by(self):
        """how import statements of the project name the module that has a plain directory next to it"""
        kinds = set()
        for mod in self.hidden:
            for imod, m in self.modules.items():
                for _, js in m["imports"]:
                    if js["k"] in ("rel", "relstar"):
                        parts = imod.split(".") if m["pkg"] else imod.split(".")[:-1]
                        base = parts[:len(parts) - (js["level"] - 1)]
                        full = ".".join(base + ([js["module"]] if js.get("module") else []))
                        names = [full] + ([f"{full}.{js['name']}"] if js["k"] == "rel" else [])
                        if mod in names:
                            kinds.add("relative-import")
                    else:
                        full = js["module"]
                        names = [full] + ([f"{full}.{js['name']}"] if js["k"] == "from" else [])
                        if mod in names or any(n.startswith(mod + ".") for n in names):
                            kinds.add("absolute-import")
        return "+".join(sorted(kinds)) or "never-imported"

    def spec_project(self):
        mods = []
        for mod, m in self.modules.items():
            decls = [dict(js) for _, js in m["imports"]]
            for n in sorted(m["defs"], key=lambda n: self.ents[n].kind == "func"):
                e = self.ents[n]
                members = [e.spelled.split(".", 1)[1]] if e.kind == "static" else []
                decls.append({"k": "def", "name": e.import_name, "isClass": e.kind != "func", "members": members})
            mods.append({"name": mod, "isPkg": m["pkg"], "decls": decls})

        def twin_decls(vs):
            out = []
            for n in sorted(vs, key=lambda n: self.ents[n].kind == "func"):
                e = self.ents[n]
                out.append({"k": "def", "name": e.import_name, "isClass": e.kind != "func",
                            "members": [e.spelled.split(".", 1)[1]] if e.kind == "static" else []})
            return out

        # the files Python must NOT pick come FIRST: the spec has to choose by Python's rule, not by position
        extra = [{"name": mod, "isPkg": False, "decls": twin_decls(vs)} for mod, vs in self.stale.items()]
        extra += [{"name": mod, "isPkg": False, "decls": twin_decls(vs)} for mod, vs in self.decoys.items()]
        return extra + mods

    # -------------------------------------------------- same-named definitions in the target
    def add_shadows(self, rng, p_each=0.5):
        """For moved callees that the target does not bind by their own name: define, in the target, a function /
        class of the SAME name and the same signature with a distinctive body.  Python (and the single-file
        reference, which does not contain it) never calls it; the calls inside the followed modules resolve to the
        module-local definition."""
        tops = {e.spelled.split(".")[0] for e in self.edges if e.importer == self.target_mod}
        for v, mod in self.loc.items():
            e = self.ents[v]
            if mod == self.target_mod or e.caller is None or e.import_name in tops or rng.random() >= p_each:
                continue
            if self.loc[e.caller] == self.target_mod:
                # called from the target itself (through a dotted / aliased spelling): a same-named target
                # definition is legal Python, and the call is spelled differently, but keep this case apart
                where = "called-from-target"
            else:
                where = "called-from-followed-module"
            node = ast.parse(e.src).body[0]
            if e.kind == "func":
                first = (node.args.posonlyargs + node.args.args + node.args.kwonlyargs)[0].arg
                head = e.src.split("\n", 1)[0]
                src = f"{head}\n    return {first}.shadow_{v}\n"
            elif e.kind == "class":
                init = node.body[0]
                a = init.args.args[1].arg
                src = f"class {v}:\n    def __init__(self, {a}):\n        self.shadowed_{v} = {a}.shadow_{v}\n"
            else:
                sm = node.body[0]
                a = sm.args.args[0].arg
                src = f"class {v}:\n    @staticmethod\n    def {sm.name}({a}):\n        return {a}.shadow_{v}\n"
            self.shadows[v] = src
            self.shadow_where = getattr(self, "shadow_where", {})
            self.shadow_where[v] = where
        return self

    # -------------------------------------------------- module naming
    def apply_renaming(self, mapping):
        """Rename module / package components (neutral unique tokens -> names of the near-miss pools)."""
        if not mapping:
            return self
        rn = lambda x: nm.rename(x, mapping)

        def deep(x):
            if isinstance(x, str):
                return rn(x)
            if isinstance(x, dict):
                return {k: deep(v) for k, v in x.items()}
            if isinstance(x, (list, tuple)):
                return type(x)(deep(v) for v in x)
            return x

        self.modules = {rn(mod): {"pkg": m["pkg"], "imports": [(rn(l), deep(js)) for l, js in m["imports"]], "defs": m["defs"]}
                        for mod, m in self.modules.items()}
        self.loc = {k: rn(v) for k, v in self.loc.items()}
        self.decoys = {rn(k): v for k, v in self.decoys.items()}
        self.stale = {rn(k): v for k, v in self.stale.items()}
        self.hidden = {rn(k): v for k, v in self.hidden.items()}
        self.links = {rn(k): rn(v) for k, v in self.links.items()}
        for ed in self.edges:
            ed.importer, ed.module, ed.spelled = rn(ed.importer), rn(ed.module), rn(ed.spelled)
            ed.hops = [rn(h) for h in ed.hops]
        self.renaming = dict(mapping)
        return self


def single_source(ents, order):
    return "\n".join(ents[n].src for n in order)


# ------------------------------------------------------------------ dedicated projects

def dedicated(rng, i):
    """(label, form, kind, files, single source or None, caller name, python_valid)."""
    a, b = f"in_a{i}", f"in_b{i}"
    out = []
    # valid module-level import cycle (back edge through `import m` so that CPython accepts it)
    out.append(("module-cycle", "module-cycle", "func", {
        "target.py": f"from zca{i} import ga{i}\n\ndef caller{i}(p):\n    ga{i}(p)\n",
        f"zca{i}.py": f"import zcb{i}\n\ndef fa{i}(x):\n    return x.{a}\n\ndef ga{i}(y):\n    zcb{i}.fb{i}(y)\n",
        f"zcb{i}.py": f"import zca{i}\n\ndef fb{i}(w):\n    w.{b}\n    zca{i}.fa{i}(w)\n",
    }, f"def fa{i}(x):\n    return x.{a}\n\ndef fb{i}(w):\n    w.{b}\n    fa{i}(w)\n\ndef ga{i}(y):\n    fb{i}(y)\n\n"
       f"def caller{i}(p):\n    ga{i}(p)\n", f"caller{i}", True))
    # re-export cycle of a NAME (CPython itself fails: the answer is undefined, rattr must still end)
    out.append(("reexport-cycle", "reexport-cycle", "func", {
        "target.py": f"from zna{i} import f{i}\n\ndef caller{i}(p):\n    f{i}(p)\n",
        f"zna{i}.py": f"from znb{i} import f{i}\n",
        f"znb{i}.py": f"from zna{i} import f{i}\n",
    }, None, f"caller{i}", False))
    # import pkg; pkg.sub.f() where nothing imports pkg.sub (CPython: AttributeError)
    out.append(("pkg-submodule-unimported", "pkg-submodule-unimported", "func", {
        "target.py": f"import zr{i}\n\ndef caller{i}(p):\n    zr{i}.zs{i}.f{i}(p)\n",
        f"zr{i}/__init__.py": "",
        f"zr{i}/zs{i}.py": f"def f{i}(x):\n    return x.{a}\n",
    }, None, f"caller{i}", False))
    # module name occurring inside the callee name: `import am; am.Ham.sm()`
    out.append(("module-name-inside-callee-name", "import", "static", {
        "target.py": f"import am{i}\n\ndef caller{i}(p):\n    am{i}.Ham{i}.sm(p)\n",
        f"am{i}.py": f"class Ham{i}:\n    @staticmethod\n    def sm(z):\n        return z.{a}\n",
    }, f"class Ham{i}:\n    @staticmethod\n    def sm(z):\n        return z.{a}\n\ndef caller{i}(p):\n    Ham{i}.sm(p)\n",
        f"caller{i}", True))
    return out


def same_name_rows(rng, i):
    """Split projects in which a followed module's own helper / class has the SAME name (and signature) as a
    definition of the target, of another followed module, or as a name the target imports from elsewhere.
    Every call binds, in Python, to the definition of the module the call is written in (module-local), and that
    is what the single-file version (same program, the clashing definitions renamed apart) computes.
    -> dicts(label, kind, files, single, exact=[(function, role)])"""
    A, B = f"zsa{i}", f"zsb{i}"
    h, g, g2, K, H = f"helper{i}", f"ga{i}", f"gb{i}", f"Kn{i}", f"Hn{i}"
    par = rng.choice(["x", "item", f"v{i}"])            # the same parameter name in both definitions

    def fn(name, mark):
        return f"def {name}({par}):\n    return {par}.{mark}\n"

    def cls(name, mark):
        return f"class {name}:\n    def __init__(self, {par}):\n        self.made_{mark} = {par}.{mark}\n"

    def hold(name, mark):
        return f"class {name}:\n    @staticmethod\n    def sm({par}):\n        return {par}.{mark}\n"

    use = {"func": lambda n, a: f"    {n}({a})\n", "class": lambda n, a: f"    o = {n}({a})\n    return o\n",
           "static": lambda n, a: f"    {n}.sm({a})\n"}
    mk = {"func": fn, "class": cls, "static": hold}
    nmz = {"func": h, "class": K, "static": H}
    rows = []
    for kind in ("func", "class", "static"):
        n, make, call = nmz[kind], mk[kind], use[kind]
        caller = f"def caller{i}(p):\n    {g}(p)\n"
        own = f"def own{i}(q):\n" + call(n, "q")
        ga = f"def {g}(y):\n" + call(n, "y")
        gb = f"def {g2}(w):\n" + call(n, "w")
        # (1) the target defines the same name
        rows.append({"label": f"target-and-followed-module-define-same-{kind}", "kind": kind,
                     "files": {"target.py": f"from {A} import {g}\n\n" + make(n, "in_target") + "\n" + caller + "\n" + own,
                               f"{A}.py": make(n, "in_module") + "\n" + ga},
                     "single": make(n, "in_target") + "\n" + make(n + "_m", "in_module") + "\n"
                               + f"def {g}(y):\n" + call(n + "_m", "y") + "\n" + caller + "\n" + own,
                     "exact": [(f"caller{i}", "call-written-in-followed-module"), (f"own{i}", "call-written-in-target")]})
        # (2) two followed modules define the same name (the other one is imported first)
        caller2 = f"def callerb{i}(p):\n    {g2}(p)\n"
        rows.append({"label": f"two-followed-modules-define-same-{kind}", "kind": kind,
                     "files": {"target.py": f"from {B} import {g2}\nfrom {A} import {g}\n\n" + caller + "\n" + caller2,
                               f"{A}.py": make(n, "in_module") + "\n" + ga,
                               f"{B}.py": make(n, "in_other") + "\n" + gb},
                     "single": make(n + "_m", "in_module") + "\n" + make(n + "_o", "in_other") + "\n"
                               + f"def {g}(y):\n" + call(n + "_m", "y") + "\n" + f"def {g2}(w):\n" + call(n + "_o", "w") + "\n"
                               + caller + "\n" + caller2,
                     "exact": [(f"caller{i}", "call-written-in-later-imported-module"),
                               (f"callerb{i}", "call-written-in-first-imported-module")]})
    # (4) the followed module's class has NO initialiser (no IR entry); a same-named class with an initialiser lives in
    #     the target / in another followed module: nothing may be borrowed
    bare = f"class {K}:\n    def method(self, {par}):\n        return {par}.in_method\n"
    ga_k = f"def {g}(y):\n" + use["class"](K, "y")
    rows.append({"label": "followed-class-without-initialiser-and-same-named-target-class", "kind": "class",
                 "files": {"target.py": f"from {A} import {g}\n\n" + cls(K, "in_target") + "\n" + f"def caller{i}(p):\n    {g}(p)\n\n"
                                        + f"def own{i}(q):\n" + use["class"](K, "q"),
                           f"{A}.py": bare + "\n" + ga_k},
                 "single": cls(K, "in_target") + "\n" + bare.replace(f"class {K}:", f"class {K}_m:") + "\n"
                           + f"def {g}(y):\n" + use["class"](K + "_m", "y") + "\n" + f"def caller{i}(p):\n    {g}(p)\n\n"
                           + f"def own{i}(q):\n" + use["class"](K, "q"),
                 "exact": [(f"caller{i}", "call-written-in-followed-module"), (f"own{i}", "call-written-in-target")]})
    rows.append({"label": "followed-class-without-initialiser-and-same-named-class-in-other-module", "kind": "class",
                 "files": {"target.py": f"from {B} import {g2}\nfrom {A} import {g}\n\ndef caller{i}(p):\n    {g}(p)\n\n"
                                        f"def callerb{i}(p):\n    {g2}(p)\n",
                           f"{A}.py": bare + "\n" + ga_k,
                           f"{B}.py": cls(K, "in_other") + "\n" + f"def {g2}(w):\n" + use["class"](K, "w")},
                 "single": cls(K + "_o", "in_other") + "\n" + bare.replace(f"class {K}:", f"class {K}_m:") + "\n"
                           + f"def {g}(y):\n" + use["class"](K + "_m", "y") + "\n" + f"def {g2}(w):\n" + use["class"](K + "_o", "w") + "\n"
                           + f"def caller{i}(p):\n    {g}(p)\n\ndef callerb{i}(p):\n    {g2}(p)\n",
                 "exact": [(f"caller{i}", "call-written-in-later-imported-module"),
                           (f"callerb{i}", "call-written-in-first-imported-module")]})
    # (5) the SAME call text (`helper(a)`, same argument name) is made in the target and, below it in the call tree, in
    #     the followed module — each to its own helper
    rows.append({"label": "same-call-text-in-target-and-followed-module", "kind": "func",
                 "files": {"target.py": f"from {A} import {g}\n\n" + fn(h, "in_target") + "\n"
                                        + f"def both{i}(a):\n    {h}(a)\n    {g}(a)\n\n" + f"def rev{i}(a):\n    {g}(a)\n    {h}(a)\n",
                           f"{A}.py": fn(h, "in_module") + "\n" + f"def {g}(a):\n    {h}(a)\n"},
                 "single": fn(h, "in_target") + "\n" + fn(h + "_m", "in_module") + "\n" + f"def {g}(a):\n    {h}_m(a)\n\n"
                           + f"def both{i}(a):\n    {h}(a)\n    {g}(a)\n\n" + f"def rev{i}(a):\n    {g}(a)\n    {h}(a)\n",
                 "exact": [(f"both{i}", "target-call-first"), (f"rev{i}", "module-call-first")]})
    # (3) the target IMPORTS the name from another module; the followed module has its own
    rows.append({"label": "target-imports-same-named-func-from-elsewhere", "kind": "func",
                 "files": {"target.py": f"from {B} import {h}\nfrom {A} import {g}\n\ndef caller{i}(p):\n    {g}(p)\n\n"
                                        f"def own{i}(q):\n    {h}(q)\n",
                           f"{A}.py": fn(h, "in_module") + "\n" + f"def {g}(y):\n    {h}(y)\n",
                           f"{B}.py": fn(h, "in_other")},
                 "single": fn(h, "in_other") + "\n" + fn(h + "_m", "in_module") + "\n" + f"def {g}(y):\n    {h}_m(y)\n\n"
                           f"def caller{i}(p):\n    {g}(p)\n\ndef own{i}(q):\n    {h}(q)\n",
                 "exact": [(f"caller{i}", "call-written-in-followed-module"), (f"own{i}", "call-written-in-target")]})
    return rows


def cycle_rows(rng, i):
    """Import cycles THROUGH THE TARGET in which the followed module calls back into a target function, compared exactly
    with the single-file program, under several spellings of the target path.  With an absolute target path the import
    walk meets the target file again under the very path it was entered with.
    -> dicts(label, kind, files, single, target, exact=[(function, role)])"""
    par = rng.choice(["b", "item", f"v{i}"])
    A = f"zca{i}"
    rows = []
    # (1) plain call-back: target -> A.fa -> target.base
    for back, call in ((f"from target import base{i}", f"base{i}"), ("import target", f"target.base{i}")):
        rows.append({"label": "callback-into-target-" + ("from" if back.startswith("from") else "import"), "kind": "func",
                     "target": "target.py",
                     # (the import follows the definition it needs: the cycle is valid Python)
                     "files": {"target.py": f"def base{i}({par}):\n    return {par}.base_attr\n\nfrom {A} import fa{i}\n\n"
                                            f"def caller{i}(o):\n    return fa{i}(o)\n",
                               f"{A}.py": f"{back}\n\ndef fa{i}(x):\n    return {call}(x.left)\n"},
                     "single": f"def fa{i}(x):\n    return base{i}(x.left)\n\ndef base{i}({par}):\n    return {par}.base_attr\n\n"
                               f"def caller{i}(o):\n    return fa{i}(o)\n",
                     "exact": [(f"caller{i}", "caller-of-the-followed-function")]})
    # (2) the called-back target function and the calling target function make the SAME call (same callee, same
    #     argument names) to another target function
    rows.append({"label": "same-call-text-in-caller-and-in-called-back-target-function", "kind": "func", "target": "target.py",
                 "files": {"target.py": f"from {A} import fa{i}\n\ndef helper{i}({par}):\n    return {par}.h_attr\n\n"
                                        f"def base{i}({par}):\n    helper{i}({par})\n    return {par}.base_attr\n\n"
                                        f"def caller{i}({par}, c):\n    helper{i}({par})\n    return fa{i}(c)\n",
                           f"{A}.py": f"import target\n\ndef fa{i}({par}):\n    return target.base{i}({par})\n"},
                 "single": f"def fa{i}({par}):\n    return base{i}({par})\n\ndef helper{i}({par}):\n    return {par}.h_attr\n\n"
                           f"def base{i}({par}):\n    helper{i}({par})\n    return {par}.base_attr\n\n"
                           f"def caller{i}({par}, c):\n    helper{i}({par})\n    return fa{i}(c)\n",
                 "exact": [(f"caller{i}", "caller-of-the-followed-function")]})
    # (3) target inside a package, relative imports both ways, a static method of the target called back
    rows.append({"label": "callback-into-target-in-package-static", "kind": "static", "target": "tp/target.py",
                 "files": {"tp/__init__.py": "",
                           "tp/target.py": f"from .{A} import mk{i}\n\nclass H{i}:\n    @staticmethod\n    def sm({par}):\n"
                                           f"        return {par}.in_sm\n\ndef caller{i}(x):\n    return mk{i}(x)\n",
                           f"tp/{A}.py": f"from . import target\n\ndef mk{i}(q):\n    return target.H{i}.sm(q.r)\n"},
                 "single": f"class H{i}:\n    @staticmethod\n    def sm({par}):\n        return {par}.in_sm\n\n"
                           f"def mk{i}(q):\n    return H{i}.sm(q.r)\n\ndef caller{i}(x):\n    return mk{i}(x)\n",
                 # [interp] the module-path get `target.H` of the dotted spelling `target.H.sm()` is not part of the answer
                 "drop_gets": [f"target.H{i}"],
                 "exact": [(f"caller{i}", "caller-of-the-followed-function")]})
    return rows


def link_rows(rng, i):
    """A followed module that is reached THROUGH A SYMBOLIC LINK (a linked package directory, a linked module file, a
    linked directory inside a real package) and whose followed function calls helpers of ITS OWN module (function, class
    with initialiser, static method) and of sibling modules (relative import, relative level 2 through the link, absolute
    import by the link's name).  Python binds every call as if the link were a plain directory / file; the single-file
    version holds all definitions.  -> dicts(label, kind, files (logical paths), links, single, exact)"""
    par = rng.choice(["doc", "item", f"v{i}"])
    L, V = f"textlib{i}", f"zlv{i}"
    own = (f"class Kn{i}:\n    def __init__(self, {par}):\n        self.made = {par}.kn_attr\n\n"
           f"class Hn{i}:\n    @staticmethod\n    def sm({par}):\n        return {par}.hn_attr\n\n"
           f"def norm{i}({par}):\n    {par}.normalised = True\n    return {par}.text\n\n")
    strip = f"def strip{i}(d):\n    return d.raw\n"
    tidy = f"def tidy{i}(t):\n    del t.scratch\n    return t.tidied\n"

    def users(calls):
        return (f"def clean{i}({par}):\n    Hn{i}.sm({par})\n    return " + " + ".join(f"{c}({par})" for c in calls) + "\n\n"
                f"def build{i}({par}):\n    return Kn{i}({par})\n")

    def target(mod):
        return (f"from {mod} import clean{i}, build{i}\nimport {mod} as tc\n\n"
                f"def t_from{i}(a):\n    return clean{i}(a)\n\ndef t_module{i}(a):\n    return tc.clean{i}(a)\n\n"
                f"def t_class{i}(a):\n    return build{i}(a)\n")

    def single(extra, calls):
        return (extra + "\n" + own + users(calls) + "\n"
                f"def t_from{i}(a):\n    return clean{i}(a)\n\ndef t_module{i}(a):\n    return clean{i}(a)\n\n"
                f"def t_class{i}(a):\n    return build{i}(a)\n")

    exact = [(f"t_from{i}", "from-import-of-the-linked-module"), (f"t_module{i}", "module-alias-of-the-linked-module"),
             (f"t_class{i}", "class-of-the-linked-module")]
    rows = []
    # (1) the whole package directory is a link; siblings by relative import and by the link's own (absolute) name
    calls = [f"strip{i}", f"norm{i}", f"tidy{i}"]
    rows.append({"label": "package-directory-is-a-symbolic-link", "kind": "func",
                 "files": {"target.py": target(f"{L}.core"), f"{L}/__init__.py": "",
                           f"{L}/core.py": f"from .helpers import strip{i}\nfrom {L}.other import tidy{i}\n\n" + own + users(calls),
                           f"{L}/helpers.py": strip, f"{L}/other.py": tidy},
                 "links": {L: f"{V}/{L}_v2"},
                 "single": single(strip + "\n" + tidy, calls), "exact": exact, "call_prefixes": ["tc."]})
    # (2) one top-level module FILE is a link
    calls = [f"strip{i}", f"norm{i}"]
    rows.append({"label": "module-file-is-a-symbolic-link", "kind": "func",
                 "files": {"target.py": target(f"zcore{i}"),
                           f"zcore{i}.py": f"from zhelp{i} import strip{i}\n\n" + own + users(calls),
                           f"zhelp{i}.py": strip},
                 "links": {f"zcore{i}.py": f"{V}/zcore{i}_impl.py"},
                 "single": single(strip, calls), "exact": exact, "call_prefixes": ["tc."]})
    # (3) a linked directory INSIDE a real package; the module's relative import goes up through the link
    rows.append({"label": "subpackage-directory-is-a-symbolic-link", "kind": "func",
                 "files": {"target.py": target(f"zpk{i}.sub.core"), f"zpk{i}/__init__.py": "", f"zpk{i}/base.py": strip,
                           f"zpk{i}/sub/__init__.py": "",
                           f"zpk{i}/sub/core.py": f"from ..base import strip{i}\n\n" + own + users(calls)},
                 "links": {f"zpk{i}/sub": f"{V}/sub_v1"},
                 "single": single(strip, calls), "exact": exact, "call_prefixes": ["tc."]})
    return rows


def member_rows(rng, i):
    """One definition per file: the package `__init__` re-exports a function / class / static-method holder from a submodule
    NAMED AFTER IT (`pkg/slugify.py: def slugify`), reached as `from pkg import slugify`, `import pkg; pkg.slugify()`,
    `import pkg as p; p.slugify()`; control: a re-export whose submodule has another name.
    -> dicts(label, kind, files, single, exact, drop_gets)"""
    P = f"textutils{i}"
    f, K, H = rng.choice(["slugify", "render", f"do{i}"]), f"Shape{i}", f"Tool{i}"
    F = f"def {f}(s):\n    s.slug = s.title\n    return s.slug_cache\n"
    KS = f"class {K}:\n    def __init__(self, a):\n        self.kf = a.kw\n"
    HS = f"class {H}:\n    @staticmethod\n    def sm(z):\n        return z.hs\n"
    C = "def shorten(s):\n    return s.body\n"
    callers = [("t_from", f"{f}(a)", "function-from-package"), ("t_package", f"{P}.{f}(a)", "function-package-attribute"),
               ("t_alias", f"pa.{f}(a)", "function-package-alias-attribute"),
               ("k_from", f"{K}(a)", "class-from-package"), ("k_package", f"{P}.{K}(a)", "class-package-attribute"),
               ("k_alias", f"pa.{K}(a)", "class-package-alias-attribute"),
               ("h_package", f"{P}.{H}.sm(a)", "static-method-package-attribute"),
               ("h_alias", f"pa.{H}.sm(a)", "static-method-package-alias-attribute"),
               ("t_control", "shorten(a)", "control-submodule-has-another-name")]
    target = f"from {P} import {f}, {K}, shorten\nimport {P}\nimport {P} as pa\n\n" + \
             "\n".join(f"def {n}{i}(a):\n    return {c}\n" for n, c, _ in callers)
    single = F + "\n" + KS + "\n" + HS + "\n" + C + "\n" + \
             "\n".join(f"def {n}{i}(a):\n    return {c.replace(P + '.', '').replace('pa.', '')}\n" for n, c, _ in callers)
    inits = {"explicit-relative": f"from .{f} import {f}\nfrom .{K} import {K}\nfrom .{H} import {H}\nfrom .truncate import shorten\n",
             "star": f"from .{f} import *\nfrom .{K} import *\nfrom .{H} import *\nfrom .truncate import *\n",
             "explicit-absolute": f"from {P}.{f} import {f}\nfrom {P}.{K} import {K}\nfrom {P}.{H} import {H}\nfrom {P}.truncate import shorten\n"}
    rows = []
    for style in ["explicit-relative", rng.choice(["star", "explicit-absolute"])]:
        rows.append({"label": f"package-reexports-from-submodule-named-after-the-member:{style}", "kind": "func",
                     "files": {"target.py": target, f"{P}/__init__.py": inits[style], f"{P}/{f}.py": F, f"{P}/{K}.py": KS,
                               f"{P}/{H}.py": HS, f"{P}/truncate.py": C},
                     "single": single, "drop_gets": [f"{P}.{H}", f"pa.{H}"], "call_prefixes": [f"{P}.", "pa."],
                     # [interp] what the initialiser of an IMPORTED class sets is recorded differently from the local
                     # version (known finding `…:class-instance-argument`, whatever the module is called): the class roles
                     # are judged on the gets (the initialiser's reads of the argument) only
                     "exact": [(f"{n}{i}", role) + ((("gets",),) if role.startswith("class-") else ()) for n, _, role in callers]})
    return rows


# ------------------------------------------------------------------ running

# how the target file is named on the command line (the project directory is where the modules are found: it is the
# working directory, or — for the *-other-cwd spellings — an entry of PYTHONPATH)
SPELLINGS = ("relative", "dot-slash", "absolute", "dotdot", "absolute-other-cwd", "relative-other-cwd")


def spelled_target(project, target_rel, spelling):
    """-> (the target argument, working directory, directory to append to PYTHONPATH or None)"""
    project = Path(project)
    if spelling == "dot-slash":
        return "./" + target_rel, project, None
    if spelling == "absolute":
        return str(project / target_rel), project, None
    if spelling == "dotdot":
        # (`link/..` is the parent of what the link denotes: never through a symbolic link)
        tops = sorted(d.name for d in project.iterdir() if d.is_dir() and not d.is_symlink())
        if tops:
            return f"{tops[0]}/../{target_rel}", project, None
        return "./" + target_rel, project, None
    if spelling == "absolute-other-cwd":
        cwd = project.parent / (project.name + "-elsewhere")
        cwd.mkdir(exist_ok=True)
        return str(project / target_rel), cwd, project
    if spelling == "relative-other-cwd":
        cwd = project.parent / (project.name + "-elsewhere")
        cwd.mkdir(exist_ok=True)
        return f"../{project.name}/{target_rel}", cwd, project
    return target_rel, project, None


def run_cli(project, target, flags=(), spelling="relative"):
    """`flags`: exclusion patterns given on the command line (`-F p`)."""
    env = dict(os.environ, PYTHONHASHSEED="0")
    opts = [x for f in flags for x in ("-F", f)]
    target, cwd, extra = spelled_target(project, target, spelling)
    if extra is not None:
        env["PYTHONPATH"] = os.pathsep.join([x for x in (env.get("PYTHONPATH"), str(extra)) if x])
    try:
        p = subprocess.run([sys.executable, "-m", "rattr", "-w", "none", *opts, "-o", "results", target], cwd=str(cwd),
                           capture_output=True, text=True, timeout=CLI_TIMEOUT, env=env)
    except subprocess.TimeoutExpired:
        return {"outcome": "timeout"}
    if p.returncode == 0:
        try:
            return {"outcome": "ok", "results": json.loads(p.stdout)}
        except Exception:
            return {"outcome": "bad-json", "stdout": p.stdout[-400:]}
    if "Traceback (most recent call last)" in p.stderr:
        last = [l for l in p.stderr.strip().splitlines() if l and not l.startswith(" ")][-1]
        return {"outcome": "crash", "exc": re.split(r"[:\s]", last)[0].split(".")[-1], "stderr": p.stderr[-600:]}
    fatal = re.findall(r"fatal\S*: .*?: (.*)", re.sub(r"\x1b\[[0-9;]*m", "", p.stderr))
    return {"outcome": f"exit-{p.returncode}", "stderr": p.stderr[-600:], "fatal": fatal[-1][:120] if fatal else None}


def toml_for(patterns):
    """pyproject.toml delivering the exclusion patterns (TOML literal strings: no escaping)."""
    assert not any("'" in x for x in patterns)
    return "[tool.rattr]\nexclude-imports = [" + ", ".join(f"'{x}'" for x in patterns) + "]\n"


CPY = r"""
import importlib, importlib.util, json, os, sys
sys.path.insert(0, '.')
out = []
first, queries, names, keep_links = (json.loads(sys.argv[1]) + [False])[:4]
here = os.path.realpath('.')
def rel(f):
    # keep_links: the path as Python spells it (through the project's symbolic links), made absolute only
    return None if f is None else os.path.relpath(os.path.abspath(f) if keep_links else os.path.realpath(f), here)
try:
    if first:
        importlib.import_module(first)
except BaseException as e:
    pass
# what the path finder picks for each module name (find_spec imports the parent packages: the target went first)
specs = []
for n in names:
    try:
        sp = importlib.util.find_spec(n)
        specs.append(None if sp is None else rel(sp.origin))
    except BaseException as e:
        specs.append('!' + type(e).__name__)
for importer, spelled in queries:
    try:
        m = importlib.import_module(importer)
        o = eval(spelled, vars(m))
        mod = getattr(o, '__module__', None)
        out.append([mod, getattr(o, '__qualname__', None), rel(getattr(sys.modules.get(mod), '__file__', None))])
    except BaseException as e:
        out.append(['!' + type(e).__name__, str(e)[:120], None])
print(json.dumps([out, specs]))
"""


def run_cpython(project, queries, first=None, names=(), keep_links=False):
    """CPython's own binding of each spelled callee ([module, qualname, file of that module]) and the file
    `importlib.util.find_spec` gives for each module name; `first` is imported first (the target: an import cycle
    through it is entered there)."""
    p = subprocess.run([sys.executable, "-c", CPY, json.dumps([first, queries, list(names), bool(keep_links)])], cwd=str(project),
                       capture_output=True, text=True, timeout=60, env=dict(os.environ, PYTHONDONTWRITEBYTECODE="1"))
    try:
        return json.loads(p.stdout.strip().splitlines()[-1])
    except Exception:
        return [[["!harness", (p.stderr or p.stdout)[-200:], None] for _ in queries], [None for _ in names]]


def physical(rel, links):
    """Where the file named by the project-relative path `rel` really lies: every prefix that is a symbolic link is
    replaced by what it denotes (link paths and what they denote are both LOGICAL paths: the longest prefix that is a
    link decides, then the result is looked at again)."""
    parts = rel.split("/")
    for _ in range(32):
        for k in range(len(parts), 0, -1):
            pre = "/".join(parts[:k])
            if pre in links:
                parts = links[pre].split("/") + parts[k:]
                break
        else:
            break
    return "/".join(parts)


def write_project(root, files, links=None):
    """`links`: project-relative path of a symbolic link -> project-relative path it denotes (a directory or a file);
    `files` name every file by its LOGICAL path (through the links)."""
    links = links or {}
    for rel, content in files.items():
        f = root / physical(rel, links)
        f.parent.mkdir(parents=True, exist_ok=True)
        f.write_text(content)
    for link, dest in links.items():
        parent, _, name = link.rpartition("/")
        lp = root / (physical(parent, links) if parent else "") / name
        lp.parent.mkdir(parents=True, exist_ok=True)
        os.symlink(os.path.relpath(root / physical(dest, links), lp.parent), lp)


def module_path_gets(spelled):
    parts = spelled.split(".")
    return {".".join(parts[:k]) for k in range(2, len(parts))}


def normalise(entry, edges_of_caller, edges_below, ents):
    """Map the split version's entry back to the local spelling: the caller's own calls, and the
    module-path gets of every dotted cross-module spelling at or below it (they are rooted at a module
    name, never substituted, so they surface unchanged in every transitive caller)."""
    e = {k: list(v) for k, v in entry.items()}
    for ed in edges_of_caller:
        local = ents[ed.v].spelled
        e["calls"] = [local + "()" if c == ed.spelled + "()" else c for c in e["calls"]]
    for ed in edges_below:
        drop = module_path_gets(ed.spelled) - module_path_gets(ents[ed.v].spelled)
        e["gets"] = [g for g in e["gets"] if g not in drop]
    return {k: sorted(v) for k, v in e.items()}


def has_marks(entry, marks):
    names = [n for k in ("gets", "sets", "dels") for n in entry[k]]
    return {m for m in marks if any(re.search(rf"\.{m}\b", n) for n in names)}


# ------------------------------------------------------------------ correspondence (in-process)

WHY = [("it is likely ignored", "likely-ignored"), ("it is a method", "is-method"),
       ("it is likely undefined", "likely-undefined"), ("ignoring call to", "ignored")]


def msym_json(s, file_ir):
    from rattr.models.symbol import Class, Func, Import
    if isinstance(s, Func):
        return {"k": "func", "name": s.name, "hasIr": s in file_ir}
    if isinstance(s, Class):
        return {"k": "cls", "name": s.name, "hasIr": s in file_ir}
    if isinstance(s, Import):
        return {"k": "imp", "name": s.name, "qual": s.qualified_name}
    return {"k": "other", "name": s.name}


def name_facts(name):
    """What the module locator / isort supply to is_in_import_blacklist for `name` (data of the model)."""
    from rattr.module_locator import util as U
    safe_origin = getattr(U, "__safe_origin")
    return [name, bool(U.is_in_stdlib(name)), [safe_origin(m) for m in U.derive_module_names_right(name)]]


def local_calls(file_ir, import_irs, env):
    """Every call, in any analysed file, whose target is a Func / Class symbol (a LOCAL call): the real
    find_call_target_and_ir, and the environment as the model sees it (FileIr keys up to ==, their defining files,
    derive_module_name_from_path of every file)."""
    from rattr.models.symbol import Class, Func
    from rattr.module_locator.util import derive_module_name_from_path
    from rattr.results import IrCall, find_call_target_and_ir

    import attrs

    def dsym(x):
        f = x.location.defined_in
        # everything attrs' __eq__ compares besides the name, as one key (the location is not compared)
        key = repr([(a.name, getattr(x, a.name)) for a in attrs.fields(type(x)) if a.eq and a.name != "name"])
        return {"kind": "cls" if isinstance(x, Class) else "func", "name": x.name, "iface": key,
                "file": "" if f is None else str(f)}

    irs = [("", file_ir)] + list(import_irs.items())
    envj = {"target": [dsym(k) for k in file_ir], "imports": [[n, [dsym(k) for k in ir]] for n, ir in import_irs.items()]}
    calls, real, files = [], [], set()
    for _, ir in irs:
        files.update(dsym(k)["file"] for k in ir)
    for _, ir in irs:
        for caller in ir:
            for call in ir[caller]["calls"]:
                t = call.target
                if not isinstance(t, (Func, Class)):
                    continue
                files.add(dsym(t)["file"])
                with impl.Tap():
                    o = impl.outcome_of(find_call_target_and_ir, IrCall(caller=caller, symbol=call), environment=env)
                if o[0] != "ok":
                    rj = {"k": o[1] if o[0] == "crash" else "fatal"}
                elif o[1] is None:
                    rj = {"k": "none"}
                else:
                    rj = {"k": "found-elsewhere"}
                    for name, mir in irs:
                        key = next((k for k in mir if mir[k] is o[1].ir), None)
                        if key is not None:
                            rj = {"k": "found", "inTarget": mir is file_ir, "module": name, "key": dsym(key)}
                            break
                calls.append(dsym(t))
                real.append(rj)
    module_of = {}
    for f in sorted(files):
        m = derive_module_name_from_path(f) if f else None
        if m is not None:
            module_of[f] = m
    envj["moduleOf"] = [[f, m] for f, m in module_of.items()]
    # the hypotheses of C06_local_call_resolves_in_defining_file, checked on the real environment
    wf = (all(module_of.get(k["file"]) == n for n, ks in envj["imports"] for k in ks)
          and len(set(module_of.values())) == len(module_of))
    return {"env": envj, "calls": calls, "real": real, "wf": wf}


def correspondence(project, target_rel, edges, user=(), probes=(), spelling="relative"):
    """Real get_call_target / find_call_target_and_ir per cross-module call + the model request.
    `user`: the exclusion patterns in force (in-process: Arguments._excluded_imports).  The model computes the
    set of ignored modules itself from the pattern SOURCES (its own regex fragment + is_in_import_blacklist).
    Also returns the real is_in_import_blacklist verdicts for every existing module name and every probe."""
    from rattr.analyser import file as F
    from rattr.config import Config
    from rattr.models.symbol import Import
    from rattr.module_locator.util import is_in_import_blacklist, module_exists
    from rattr.results import IrCall, IrEnvironment, find_call_target_and_ir

    rows = []
    # the target as the command line names it (in-process the working directory is always the project)
    target_arg = spelled_target(project, target_rel, spelling)[0] if spelling in ("dot-slash", "absolute", "dotdot") \
        else target_rel
    with impl.in_dir(str(project)):
        impl.reset_config(target=Path(target_arg), _excluded_imports=list(user))
        with impl.Tap():
            out = impl.outcome_of(F.parse_and_analyse_file)
        if out[0] != "ok":
            return None, f"{out[0]}:{out[1]}"
        file_ir, import_irs, _ = out[1]
        target_mod = target_rel[:-3].replace("/", ".")
        irs = {target_mod: file_ir}
        irs.update(import_irs)
        env = IrEnvironment(target_ir=file_ir, import_irs=import_irs)
        quals = set()
        for ir in irs.values():
            for s in ir.context.symbol_table.symbols:
                if isinstance(s, Import):
                    quals.add(s.qualified_name)
        found = []
        for ed in edges:
            ir = irs.get(ed.importer)
            if ir is None:
                rows.append((ed, None, None))
                continue
            usym = next((s for s in ir if s.name == ed.u), None)
            call = next((c for c in ir[usym]["calls"] if c.name == ed.spelled), None) if usym is not None else None
            if call is None:
                rows.append((ed, None, None))
                continue
            t = call.target
            if isinstance(t, Import):
                quals.add(t.qualified_name)
            found.append((ed, ir, usym, call))
        cands = set()
        for q in quals:
            parts = q.split(".")
            cands.update(".".join(parts[:i]) for i in range(1, len(parts) + 1))
        existing = sorted(c for c in cands if module_exists(c))
        patterns = sorted(Config().blacklist_patterns)
        facts = [name_facts(n) for n in existing]
        verdicts = {"patterns": patterns,
                    "names": facts + [name_facts(n) for n in probes if n not in existing],
                    }
        verdicts["real"] = [bool(is_in_import_blacklist(f[0])) for f in verdicts["names"]]
        verdicts["local"] = local_calls(file_ir, import_irs, env)
        world = {"existing": existing, "ignored": [], "blacklist": {"patterns": patterns, "facts": facts},
                 "irs": [[name, [msym_json(s, ir) for s in ir.context.symbol_table.symbols]]
                         for name, ir in import_irs.items()]}
        for ed, ir, usym, call in found:
            t = call.target
            tj = None if t is None else {"kind": type(t).__name__, "name": t.name,
                                         "qual": getattr(t, "qualified_name", "")}
            if isinstance(t, Import):
                with impl.Tap() as tap:
                    o = impl.outcome_of(find_call_target_and_ir, IrCall(caller=usym, symbol=call), environment=env)
                if o[0] == "ok" and o[1] is not None:
                    modname = next((n for n, mir in import_irs.items()
                                    if o[1].symbol in mir and mir[o[1].symbol] is o[1].ir), "?")
                    oj = {"k": "found", "module": modname,
                          "sym": [{"Func": "func", "Class": "cls"}.get(type(o[1].symbol).__name__, "?"), o[1].symbol.name]}
                elif o[0] == "ok":
                    msg = tap.events[-1]["message"] if tap.events else ""
                    oj = {"k": "none", "why": next((w for pat, w in WHY if pat in msg), None)}
                else:
                    oj = {"k": o[1] if o[0] == "crash" else "fatal"}
            else:
                oj = {"k": "no-import-target", "kind": None if t is None else type(t).__name__}
            e = None
            req = {**world, "root": vl.root_snapshot(ir.context), "callee": ed.spelled, "fuel": 64}
            record = None
            if ed.kind in ("class", "static"):
                record = list(call.args.args)
                req["assignedTo"], req["args"] = ed.assigned, [ed.arg]
            rows.append((ed, {"target": tj, "outcome": oj, "recordArgs": record}, req))
    return rows, verdicts


def locator_rows(project, target_rel, names, keep_links=False):
    """The REAL locator on the project's own module names: `find_module_name_and_spec(name)` ->
    [name, module name, origin relative to the project | None]; and the request for the Lean model of the locator
    (`Locator.findModuleNameAndSpec` over the project's files as the one search root) and for the independent spec of
    Python's path finder (`Spec.firstMatch`)."""
    from rattr.module_locator.util import find_module_name_and_spec

    root = Path(project).resolve()
    rows = []
    with impl.in_dir(str(project)):
        impl.reset_config(target=Path(target_rel))
        for name in names:
            mn, spec = find_module_name_and_spec(name)
            origin = None if spec is None else spec.origin
            rel = None
            if origin is not None:
                try:
                    # keep_links: the origin AS LOCATED (the path through the project's symbolic links)
                    rel = str((Path(origin) if keep_links else Path(origin).resolve()).relative_to(root))
                except ValueError:
                    rel = "<outside the project>"
            rows.append([name, mn, rel])
    if keep_links:
        # the LOGICAL view below the search directory (what is_dir() / exists() see: links followed)
        files = sorted(os.path.relpath(os.path.join(d, f), root) for d, _, fs in os.walk(root, followlinks=True) for f in fs)
    else:
        files = sorted(str(f.relative_to(root)) for f in root.rglob("*") if f.is_file())
    req = {"roots": [[f.split("/") for f in files]], "stdlib": [],
           "ops": [{"k": "find", "q": n.split(".")} for n in names]}
    return rows, req


def star_rows(project, target_rel, modules):
    """`Context.expand_starred_imports` on every file of the project that holds a star import.
    `modules`: module name -> relative path.  -> [(start module, what the REAL expansion appended as
    [name, qualified_name], request for the Lean model `StarChain.expandFile`)].  The model gets, per file, who the
    file is (derive_module_name_from_path, __init__ flag), the names its unexpanded root context declares and its star
    statements AS WRITTEN; the qualified names of nested star imports are derived by the model."""
    from rattr.config.state import enter_file
    from rattr.models.context import compile_root_context
    from rattr.models.symbol import Class, Func, Import
    from rattr.module_locator.util import derive_module_name_from_path

    root = Path(project).resolve()

    def msym(s):
        if isinstance(s, Func):
            return {"k": "func", "name": s.name, "hasIr": True}
        if isinstance(s, Class):
            return {"k": "cls", "name": s.name, "hasIr": True}
        if isinstance(s, Import):
            return {"k": "imp", "name": s.name, "qual": s.qualified_name}
        return {"k": "other", "name": s.name}

    table, starts = {}, []
    with impl.in_dir(str(project)):
        impl.reset_config(target=Path(target_rel))
        for mod, rel in modules.items():
            origin = root / rel
            tree = ast.parse(origin.read_text())
            stars = []
            for node in tree.body:
                if isinstance(node, ast.ImportFrom) and node.names[0].name == "*":
                    stars.append({"k": "star", "module": node.module} if node.level == 0 else
                                 {"k": "relstar", "level": node.level, "module": node.module})

            def compile_():
                with enter_file(str(origin)):
                    return compile_root_context(tree)

            with impl.Tap():
                o = impl.outcome_of(compile_)
            if o[0] != "ok":
                continue
            syms = list(o[1].symbol_table.symbols)
            table[mod] = {"base": derive_module_name_from_path(origin) or "", "isInit": origin.name == "__init__.py",
                          "names": [x.name for x in syms], "stars": stars}
            if stars:
                starts.append((mod, origin, tree, [msym(x) for x in syms], len(syms)))
        out = []
        files = [[m, f] for m, f in table.items()]
        for mod, origin, tree, ctx0, n0 in starts:
            def expand_():
                with enter_file(str(origin)):
                    c = compile_root_context(tree)
                    before = [x.name for x in c.symbol_table.symbols]
                    c.expand_starred_imports()
                    return before, list(c.symbol_table.symbols)

            with impl.Tap():
                o = impl.outcome_of(expand_)
            if o[0] != "ok":
                out.append((mod, {"failed": f"{o[0]}:{o[1]}"}, None))
                continue
            before, after = o[1]
            if [x.name for x in after[:len(before)]] != before:
                out.append((mod, {"failed": "expansion reordered the symbol table"}, None))
                continue
            real = [[x.name, getattr(x, "qualified_name", None)] for x in after[len(before):]]
            out.append((mod, real, {"files": files, "start": table[mod], "ctx": ctx0}))
    return out


def canon_model(mo, with_record):
    t = mo["target"]
    tj = None if t is None else {"kind": t["kind"], "name": t["name"], "qual": t["qual"] if t["kind"] == "Import" else ""}
    o = mo["outcome"]
    if o["k"] == "found":
        oj = {"k": "found", "module": o["module"], "sym": [o["sym"]["k"], o["sym"]["name"]]}
    elif o["k"] == "none":
        oj = {"k": "none", "why": o["why"]}
    elif o["k"] == "no-import-target":
        oj = {"k": "no-import-target", "kind": o["kind"]}
    else:
        oj = {"k": o["k"]}
    return {"target": tj, "outcome": oj, "recordArgs": mo["recordArgs"] if with_record else None}


def literalise(pattern):
    """One string a pattern of the generated kinds matches (quantified atoms dropped)."""
    out = re.sub(r"(\\.|.)[?*]", "", pattern)
    return re.sub(r"\\(.)", r"\1", out)


def blacklist_probes(rng, builtin, user):
    """Names (mostly of modules that do not exist) around every pattern in force: exact matches and near-misses."""
    out = ["", "rattr", "rattr.x", "rattr.", "rattrx", "xrattr", "rattr_helpers", "package.rattr", "packages.rattr",
           "packages.rattr.a.b", "packagess.rattr", "xpackages.rattr", "package.rattrs", "Rattr", "os", "os.path", "_thread",
           "json.decoder", "nosuchmodule_zz"]
    for x in list(builtin) + list(user):
        lit = literalise(x)
        if lit:
            out += [lit, lit + "x", "x" + lit, lit[:-1], lit[1:], lit + ".sub", lit.swapcase()]
    out = [n for n in dict.fromkeys(out) if "\n" not in n]
    return rng.sample(out, min(len(out), 14))


def regex_cases(rng, builtin, user, names):
    pats = list(dict.fromkeys(list(builtin) + user))
    for _ in range(40):
        n = rng.randint(1, 5)
        pats.append("".join(rng.choice(["a", "b", "_", r"\.", ".", "a?", "b*", ".*", r"\.?", ".?", "r", "t"]) for _ in range(n)))
    pats += ["a+", "[ab]", "a|b", "(a)", "a{2}", "^a", "a$", r"\d", "a??", "a*?", ""]
    subjects = list(dict.fromkeys(names))[:60] + ["", "a", "ab", "a.b", "aab", "abb", "a_b", "rattr", "rattr.x", "b", ".", "..", "a\nb"]
    cases = []
    for x in pats:
        for sj in rng.sample(subjects, min(len(subjects), 8)):
            cases.append([x, sj])
        lit = literalise(x)
        cases += [[x, lit], [x, lit + "x"], [x, lit[:-1]]]
    return cases


# ------------------------------------------------------------------ the check

def run(tier, seed, build):
    res = common.Result(PID)
    res.rule = ("pairs (single-file program, split project) run through the real CLI; the split moves a downward-closed "
                "random subset of the callees (functions, classes with __init__, classes with a static method) into "
                "modules/packages of depth <= 3 and reaches each from its caller by an import form of the table "
                "(every form x callee kind at least 5 (quick) / 30 (thorough) times, re-export chains up to 3, star re-export of a name the starred module itself "
                "imports, relative level 2 inside a package __init__, moved callers whose class / static-method callee lives in the "
                "same followed module (chain depth >= 2), valid module cycles, name cycles); oracle = equality of each remaining function's results entry with the single-file "
                "reference after mapping the callee spelling back. Module / package names vary: neutral unique tokens or names "
                "that an exclusion pattern (perennial `rattr`, `packages?\\.rattr`, ...; user patterns given with -F or through "
                "pyproject.toml, generated as near-misses of the project's own module names) matches only as a proper prefix / "
                "suffix / infix / up to case / as one dotted component — never in full, so every module stays configured to be "
                "followed; second oracle for those projects: the same project under neutral names and without user patterns gives "
                "the same results document, name for name. Half of the projects define in the target an uncalled function / class "
                "with the name and signature of a callee that lives in a followed module; dedicated rows with same-named "
                "definitions in the target / in two followed modules / imported into the target from elsewhere are compared "
                "exactly. Correspondence additionally: the model computes the ignored-module set itself from the pattern sources "
                "(its own regex fragment, validated against CPython's re every run) and its is_in_import_blacklist verdict is "
                "compared with the real one on every existing module name and on probe names around every pattern. "
                "Round 3: 30 % of the projects turn followed modules into packages with a stale same-named module file next to "
                "them (Python imports the package; expected file = importlib.util.find_spec, checked per module), dedicated "
                "projects put a plain directory next to a module; star re-export chains cross two / three package levels with "
                "same-named decoy modules at the outer levels (chain starting in the target, a followed module or an __init__); "
                "every project is run under a spelling of the target path (relative, ./, absolute, dir/../, other working "
                "directory + PYTHONPATH); 40 % of the projects have an import cycle through the target (a followed module calls "
                "back into a function that stays in the target), half of them under an absolute target path; stages `locator` "
                "(real locator vs Lean model vs Lean spec vs CPython find_spec per module name) and `star_expand` (symbols the "
                "real expand_starred_imports appends vs StarChain.expandFile); the pipeline2 stage runs 40 % of its projects "
                "under an absolute target path. "
                "Round 4: the defining module of a moved callee is named after the callee with probability 1/4 under every import "
                "form (one definition per file; the called dotted name is then also a module name), two new forms (package bound "
                "to an alias, __init__ re-exporting by an absolute import of its own submodule); 35 % of the projects reach one or "
                "two package directories / module files of the followed part through symbolic links (links inside links, preferred "
                "above a module that holds a local call); dedicated rows for both, compared exactly. "
                "non-trivial = distinct (form, callee kind, module depth, chain length) of a judged cross-module call, "
                "distinct (name-pattern relation, form) of a judged call, distinct same-name row x role")
    rng = random.Random(seed)
    import time as _time
    stage_t = {"_last": _time.time()}

    def lap(name):      # informational only (evidence: where the wall time goes); never enters a verdict
        now = _time.time()
        stage_t[name] = round(stage_t.get(name, 0) + now - stage_t["_last"], 1)
        stage_t["_last"] = now

    per_cell = 5 if tier == "quick" else 30
    max_pairs = 230 if tier == "quick" else 900
    per_layout_cell = 2 if tier == "quick" else 12
    # (the two forms of round 4 are not forced into the coverage list: they are drawn at random and have dedicated rows)
    want = [(f, k) for f in FORMS for k in KINDS if f not in ROUND4_FORMS
            for _ in range(per_layout_cell if f in LAYOUT_FORMS else per_cell)]
    rng.shuffle(want)
    tmp = Path(tempfile.mkdtemp(prefix="c06-"))     # no excluded name anywhere in the path
    model = common.Model()
    builtin = nm.builtin_patterns()
    try:
        pairs = []
        while (want or len(pairs) < 40) and len(pairs) < max_pairs:
            ents, order = base_program(rng)
            needs_pkg = any(FORMS[f]["pkg"] for f, _ in want[:6])
            layout = "pkg" if (needs_pkg or rng.random() < 0.25) else "root"
            if layout == "pkg" and (any(f == "relative-from-2" for f, _ in want) or rng.random() < 0.2):
                layout = "pkg2"
            sp = Split(rng, ents, order, layout, want, back_p=0.4, member_p=0.25).build()
            if rng.random() < 0.5:
                sp.add_shadows(rng)
            if rng.random() < 0.3:
                sp.add_stale_twins(rng)
            if rng.random() < 0.35:
                sp.add_links(rng)
            i = len(pairs)
            d1, d2, d3 = tmp / f"s{i}", tmp / f"p{i}", tmp / f"n{i}"
            target_rel = sp.target_mod.replace(".", "/") + ".py"
            single_files = {target_rel: single_source(ents, order)}
            if layout != "root":
                single_files["tp/__init__.py"] = ""
            if layout == "pkg2":
                single_files["tp/tq/__init__.py"] = ""
            # ---- module naming and exclusion patterns (near-misses only: every module stays configured to be followed)
            neutral_files = sp.files()
            neutral_links = dict(sp.links)
            mapping = nm.choose_renaming(rng, sp.all_module_names(), builtin) if rng.random() < 0.6 else {}
            sp.apply_renaming(mapping)
            files = sp.files()
            paths = [str(d / rel) for d in (d1, d2) for rel in list(files) + list(single_files)]
            paths += [str(d2 / physical(rel, sp.links)) for rel in files if physical(rel, sp.links) != rel]
            pats = nm.choose_patterns(rng, sp.all_module_names(), paths, rng.randint(1, 3)) if rng.random() < 0.5 else []
            user = [x for _, x in pats]
            via_toml = bool(user) and rng.random() < 0.3
            # ---- how the target is named on the command line: every spelling gets its share; half of the projects that
            #      have an import cycle through the target are run under an ABSOLUTE target path (the followed modules'
            #      origins are absolute: only then can the target file be met again under the very same path)
            spelling = SPELLINGS[i % len(SPELLINGS)] if rng.random() < 0.55 else "relative"
            if sp.back and rng.random() < 0.5:
                spelling = rng.choice(["absolute", "absolute-other-cwd"])
            if via_toml and spelling.endswith("-other-cwd"):
                spelling = "absolute"      # pyproject.toml is looked up from the working directory
            if via_toml:
                files = {**files, "pyproject.toml": toml_for(user)}
                single_files = {**single_files, "pyproject.toml": toml_for(user)}
            write_project(d1, single_files)
            write_project(d2, files, sp.links)
            twin = bool(mapping or user)
            if twin:
                # (the twin keeps the symbolic links: it differs in the module names and the user patterns only)
                write_project(d3, neutral_files, neutral_links)
            pairs.append({"i": i, "single": d1, "split": d2, "target": target_rel, "sp": sp, "ents": ents, "order": order,
                          "files": files, "single_src": single_files[target_rel], "user": user, "pattern_kinds": [k for k, _ in pats],
                          "flags": [] if via_toml else user, "via_toml": via_toml, "mapping": mapping,
                          "twin": d3 if twin else None, "neutral_files": neutral_files, "neutral_links": neutral_links,
                          "spelling": spelling})
        # ---- dedicated split projects: ONE module of the project has a plain directory of its name (no __init__.py) next
        #      to it — Python imports the module file
        n_hidden = 4 if tier == "quick" else 16
        for _ in range(n_hidden):
            ents, order = base_program(rng)
            layout = rng.choice(["root", "pkg"])
            sp = Split(rng, ents, order, layout, [], back_p=0.3).build().add_hidden_dir(rng)
            i = len(pairs)
            d1, d2 = tmp / f"s{i}", tmp / f"p{i}"
            target_rel = sp.target_mod.replace(".", "/") + ".py"
            single_files = {target_rel: single_source(ents, order)}
            if layout != "root":
                single_files["tp/__init__.py"] = ""
            files = sp.files()
            write_project(d1, single_files)
            write_project(d2, files)
            pairs.append({"i": i, "single": d1, "split": d2, "target": target_rel, "sp": sp, "ents": ents, "order": order,
                          "files": files, "single_src": single_files[target_rel], "user": [], "pattern_kinds": [],
                          "flags": [], "via_toml": False, "mapping": {}, "twin": None, "neutral_files": files,
                          "spelling": "relative"})
        ded = []
        n_ded = 2 if tier == "quick" else 6
        for j in range(n_ded):
            for label, form, kind, files, single, caller, pyvalid in dedicated(rng, j):
                i = len(pairs) + len(ded)
                d1, d2 = tmp / f"s{i}", tmp / f"p{i}"
                write_project(d2, files)
                if single is not None:
                    write_project(d1, {"target.py": single})
                ded.append({"i": i, "label": label, "form": form, "kind": kind, "files": files, "single": d1 if single else None,
                            "single_src": single, "split": d2, "caller": caller, "pyvalid": pyvalid})
            for row in (same_name_rows(rng, j) if (j == 0 or tier != "quick") else []):
                i = len(pairs) + len(ded)
                d1, d2 = tmp / f"s{i}", tmp / f"p{i}"
                write_project(d2, row["files"])
                write_project(d1, {"target.py": row["single"]})
                ded.append({"i": i, "label": row["label"], "form": "from", "kind": row["kind"], "files": row["files"], "single": d1,
                            "single_src": row["single"], "split": d2, "caller": None, "pyvalid": True, "exact": row["exact"]})
            # round 4: followed modules behind symbolic links; submodules named after the member they define
            for fam, row in ([("followed-module-behind-symbolic-link-changes-answer", r) for r in link_rows(rng, j)]
                             + [("submodule-named-after-member-changes-answer", r) for r in member_rows(rng, j)]
                             if (j == 0 or tier != "quick") else []):
                i = len(pairs) + len(ded)
                d1, d2 = tmp / f"s{i}", tmp / f"p{i}"
                write_project(d2, row["files"], row.get("links"))
                write_project(d1, {"target.py": row["single"]})
                ded.append({"i": i, "label": row["label"], "form": "from", "kind": row["kind"], "files": row["files"], "single": d1,
                            "single_src": row["single"], "split": d2, "caller": None, "pyvalid": True, "exact": row["exact"],
                            "links": row.get("links"), "drop_gets": row.get("drop_gets", []), "sig_family": fam,
                            "call_prefixes": row.get("call_prefixes", [])})
            # import cycles through the target with a call back into it x how the target is named
            for row in (cycle_rows(rng, j) if (j == 0 or tier != "quick") else []):
                for spelling in ("relative", "absolute", "absolute-other-cwd", "dot-slash"):
                    i = len(pairs) + len(ded)
                    d1, d2 = tmp / f"s{i}", tmp / f"p{i}"
                    write_project(d2, row["files"])
                    single_files = {row["target"]: row["single"]}
                    if "/" in row["target"]:
                        single_files["tp/__init__.py"] = ""
                    write_project(d1, single_files)
                    ded.append({"i": i, "label": row["label"], "form": "cycle", "kind": row["kind"], "files": row["files"],
                                "single": d1, "single_src": row["single"], "split": d2, "caller": None, "pyvalid": True,
                                "exact": row["exact"], "target": row["target"], "spelling": spelling,
                                "drop_gets": row.get("drop_gets", []),
                                "sig": f"import-cycle-through-target-changes-answer:{row['label']}:target-spelled-{spelling}"})

        lap("generate")
        jobs = []
        for p in pairs:
            jobs.append((p["single"], p["target"], p["flags"]))
            jobs.append((p["split"], p["target"], p["flags"], p["spelling"]))
            if p["twin"] is not None:
                jobs.append((p["twin"], p["target"], []))
        for p in ded:
            if p["single"] is not None:
                jobs.append((p["single"], p.get("target", "target.py"), []))
            jobs.append((p["split"], p.get("target", "target.py"), [], p.get("spelling", "relative")))
        with ThreadPoolExecutor(max_workers=16) as ex:
            outs = list(ex.map(lambda j: run_cli(*j), jobs))
            cpy = list(ex.map(lambda p: run_cpython(p["split"], [[e.importer, e.spelled] for e in p["sp"].edges],
                                                    p["sp"].target_mod, p["sp"].all_module_names(),
                                                    keep_links=bool(p["sp"].links)), pairs))
        it = iter(outs)

        lap("cli-runs")
        # ---- self-check: CPython binds every spelled callee to the moved definition; so does the Lean spec
        spec_reqs = []
        for p, (got, specs) in zip(pairs, cpy):
            sp = p["sp"]
            for ed, g in zip(sp.edges, got):
                # module, qualified name AND file: two files may compete for one module name
                want_obj = [ed.module, ed.qualname, sp.path_of(ed.module)]
                if g != want_obj:
                    res.internal_errors.append({"what": "generator: CPython does not bind the spelled callee to the moved "
                                                "definition", "edge": ed.meta(), "cpython": g, "files": p["files"]})
            for mod, origin in zip(sp.modules, specs):
                if origin != sp.path_of(mod):
                    res.internal_errors.append({"what": "generator: importlib.util.find_spec does not pick the file the "
                                                "project's module table names", "module": mod, "find_spec": origin,
                                                "expected": sp.path_of(mod), "files": p["files"]})
            spec_reqs.append(("import_spec", {"modules": sp.spec_project(), "fuel": 12,
                                              "queries": [[e.importer, e.spelled] for e in sp.edges]}))
        for p, mo in zip(pairs, model.batch(spec_reqs)):
            if isinstance(mo, dict) and "__error__" in mo:
                res.internal_errors.append({"what": "spec driver error", "detail": mo})
                continue
            for ed, m in zip(p["sp"].edges, mo):
                if m is None or m[:3] != ["obj", ed.module, ed.qualname]:
                    res.internal_errors.append({"what": "Lean spec disagrees with CPython's binding", "edge": ed.meta(),
                                                "spec": m, "files": p["files"]})

        lap("self-check")
        # ---- the pair oracle
        for p in pairs:
            o1, o2 = next(it), next(it)
            o3 = next(it) if p["twin"] is not None else None
            sp, ents = p["sp"], p["ents"]
            res.evaluations += 1
            forms = sorted({e.form for e in sp.edges})
            case = {"files": p["files"], "single": p["single_src"], "target": p["target"], "flags": p["flags"],
                    "spelling": p["spelling"], "edges": [e.meta() for e in sp.edges]}
            if sp.links:
                case["links"] = dict(sp.links)      # symbolic link (project-relative) -> what it denotes; `files` are logical paths
            res.count("config:" + ("no-user-pattern" if not p["user"] else "toml" if p["via_toml"] else "cli-F"))
            res.count("target-spelling:" + p["spelling"])
            for tag in sp.layout_tags:
                res.count("layout:" + tag)
            if sp.decoys:
                res.count("layout:same-named-decoy-module", len(sp.decoys))
            if sp.back:
                res.count("import-cycle-through-target:" + p["spelling"])
                for ed in sp.back:
                    res.nontrivial.add(common.digest(["back", ed.form, ed.kind, p["spelling"]]))
            for k in p["pattern_kinds"]:
                res.count("user-pattern:" + k)
            res.count("project-naming:" + nm.relation_tag(set(sp.modules), builtin, p["user"]))
            if sp.shadows:
                res.count("same-named-target-definitions", len(sp.shadows))
            if o1["outcome"] != "ok":
                res.internal_errors.append({"what": "single-file reference did not run", "out": o1, "source": p["single_src"]})
                continue
            p["split_ok"] = o2["outcome"] == "ok"
            if o2["outcome"] != "ok":
                exc = o2.get("exc", o2["outcome"].capitalize())
                sig = f"import-form-crash:{'+'.join(forms)}:{exc}"
                spelling_matters = False
                if p["spelling"] != "relative" and not sp.hidden:
                    # does the SAME project run when the target is named by its plain relative path?
                    o2r = run_cli(p["split"], p["target"], p["flags"])
                    res.count("rerun-with-relative-target:" + o2r["outcome"])
                    spelling_matters = o2r["outcome"] == "ok"
                if spelling_matters:
                    rel_in_target = any(js["k"] in ("rel", "relstar") for _, js in sp.modules[sp.target_mod]["imports"])
                    sig = (f"target-path-spelling-changes-outcome:{p['spelling']}:{exc}"
                           + (":import-cycle-through-target" if sp.back else "")
                           + (":relative-import-in-target" if rel_in_target else ""))
                elif o3 is not None and o3["outcome"] == "ok":
                    # the same project runs under neutral module names and without user patterns
                    sig = (f"not-excluded-module-treated-differently:"
                           f"{nm.relation_tag(set(sp.modules), builtin, p['user'])}:{exc}")
                elif sp.hidden:
                    # ONE module of this project has a plain directory of its name next to it
                    hid = next(iter(sp.hidden))
                    msg = o2.get("fatal") or ""
                    named = re.search(r"unable to find module '([^']*)'", msg)
                    if o2["outcome"] == "crash":
                        how = "crash-" + exc
                    elif named and (hid == named.group(1).lstrip(".") or hid.startswith(named.group(1).lstrip(".") + ".")
                                    or named.group(1).lstrip(".").startswith(hid + ".")
                                    or hid.endswith("." + named.group(1).lstrip("."))):
                        how = "fatal-unable-to-find-module"
                    else:
                        how = "other-" + exc
                    sig = f"module-next-to-plain-directory-not-imported:{how}"
                    case = {**case, "module_with_plain_directory": hid, "named_by": sp.hidden_reached_by()}
                res.count("outcome:" + sig)
                res.violations.append({"signature": sig, "case": case, "detail": o2})
                continue
            r1, r2 = o1["results"], o2["results"]
            by_caller = {}
            for e in sp.edges:
                by_caller.setdefault(e.u, []).append(e)

            def involved(fn):
                """the modules (and re-exporting hops) whose names matter for fn's answer"""
                if fn not in ents:
                    return set(sp.modules)
                out, todo = set(), [fn]
                while todo:
                    u = todo.pop()
                    for c in ents[u].calls:
                        out.add(sp.loc[c])
                        ed = next((e for e in sp.edges if e.v == c), None)
                        if ed is not None:
                            out.update(ed.hops)
                        todo.append(c)
                return out

            # ---- the naming / exclusion oracle: the same project under neutral module names and with no user
            #      pattern (no module of either version is excluded) must give the same answer, name for name
            twin_bad = set()
            if o3 is not None:
                res.count("twin:compared")
                if o3["outcome"] != "ok":
                    res.internal_errors.append({"what": "neutral twin did not run although the renamed project did",
                                                "out": o3, "files": p["neutral_files"]})
                else:
                    r3 = {f: {k: sorted(v) for k, v in e.items()} for f, e in o3["results"].items()}
                    r2n = {f: {k: sorted(v) for k, v in e.items()} for f, e in nm.rename_back(r2, p["mapping"]).items()}
                    for fn in sorted(set(r3) | set(r2n)):
                        if r3.get(fn) == r2n.get(fn):
                            continue
                        twin_bad.add(fn)
                        tag = nm.relation_tag(involved(fn), builtin, p["user"])
                        sig = f"not-excluded-module-treated-differently:{tag}"
                        res.count("verdict:" + sig)
                        res.violations.append({"signature": sig, "case": case, "function": fn, "patterns": p["user"],
                                               "builtin_patterns": builtin, "renaming": p["mapping"],
                                               "neutral_files": p["neutral_files"], "neutral_links": p.get("neutral_links") or {},
                                               "with_neutral_names_and_no_pattern": r3.get(fn), "as_given": r2n.get(fn)})
            for fn in sp.modules[sp.target_mod]["defs"]:
                if ents[fn].kind != "func" or fn in twin_bad:
                    continue
                if fn not in r1 or fn not in r2:
                    res.violations.append({"signature": "import-changes-answer:caller-missing-from-results", "case": case,
                                           "function": fn})
                    continue
                ref = {k: sorted(v) for k, v in r1[fn].items()}
                below = []

                def collect(u):
                    for c in ents[u].calls:
                        ed = next((e for e in sp.edges if e.v == c), None)
                        if ed is not None:
                            below.append(ed)
                        collect(c)

                collect(fn)
                got = normalise(r2[fn], by_caller.get(fn, []), below, ents)
                # walk the cross-module edges below fn, parents first
                failed, failed_local, judged = [], [], 0

                def walk(u, blocked, above=None):
                    nonlocal judged
                    for c in ents[u].calls:
                        ed = next((e for e in sp.edges if e.v == c), None)
                        if ed is None and not blocked and above is not None and sp.loc[c] != sp.target_mod:
                            # a local call inside a followed module (caller and callee moved together)
                            res.count(f"local-callee-in-followed-module:{ents[c].kind}")
                            res.nontrivial.add(common.digest(["local", above.form, ents[c].kind]))
                            if sp.links and sp.linked(sp.loc[c]):
                                res.count(f"local-callee-in-followed-module:{ents[c].kind}:module-reached-through-symbolic-link")
                                res.nontrivial.add(common.digest(["local-linked", above.form, ents[c].kind]))
                            if has_marks(ref, ents[c].marks) and not has_marks(got, ents[c].marks):
                                failed_local.append((above, c))
                                walk(c, True, above)
                                continue
                        if ed is not None and not blocked:
                            judged += 1
                            res.nontrivial.add(common.digest([ed.form, ed.kind, ed.depth, ed.chain]))
                            res.count(f"form:{ed.form}|{ed.kind}")
                            res.count(f"depth:{ed.depth}")
                            res.count(f"chain:{ed.chain}")
                            tag = nm.relation_tag([ed.module] + ed.hops, builtin, p["user"])
                            res.count("edge-naming:" + tag)
                            res.nontrivial.add(common.digest(["naming", tag, ed.form]))
                            if ed.member:
                                res.count(f"submodule-named-after-member:{ed.form}|{ed.kind}"
                                          + ("|called-name-is-also-a-submodule" if ed.amb else ""))
                                res.nontrivial.add(common.digest(["member", ed.form, ed.kind, ed.amb]))
                            if sp.links and any(sp.linked(x) for x in [ed.module] + ed.hops):
                                res.count("edge-into:module-reached-through-symbolic-link")
                                res.nontrivial.add(common.digest(["linked", ed.form, ed.kind]))
                            if ed.module in sp.stale:
                                res.count("edge-into:package-next-to-stale-module")
                                res.nontrivial.add(common.digest(["stale-twin", ed.form, ed.kind, ed.depth]))
                            if p["spelling"] != "relative":
                                res.nontrivial.add(common.digest(["spelling", p["spelling"], ed.form]))
                            want_marks = has_marks(ref, ents[c].marks)
                            if want_marks and not has_marks(got, ents[c].marks):
                                failed.append(ed)
                                res.count("skipped-below-a-failed-edge", sum(1 for _ in ents[c].calls))
                                walk(c, True, ed)
                                continue
                        walk(c, blocked, ed if ed is not None else above)

                walk(fn, False)
                if got == ref:
                    res.count("verdict:same")
                    continue
                if failed:
                    for ed in failed:
                        sig = f"import-form-not-followed:{ed.form}:{ed.kind}"
                        if ed.amb:
                            # `from pkg import f` / `pkg.f()` next to a submodule pkg/f.py: the dotted name of the CALLED
                            # function / class is also a module name (computed from the project's module table)
                            sig += ":called-name-is-also-a-submodule"
                        elif ed.amb_other:
                            # … the name of a module FILE that is not the defining module (Python: the package attribute)
                            sig += ":called-name-is-also-another-module-file"
                        # the accesses of a same-named definition in a file Python never imports appear instead
                        if any(h in sp.hidden for h in [ed.module] + ed.hops):
                            # the run went through, but the module that has a plain directory next to it was not located
                            sig = "module-next-to-plain-directory-not-imported:not-followed"
                        elif has_marks(got, {f"stale_{ed.v}"}):
                            sig = f"wrong-file-followed:stale-module-instead-of-package:{ed.kind}"
                        elif has_marks(got, {f"decoy_{ed.v}"}) and ed.amb_other:
                            # the decoy is the submodule whose dotted name is the CALLED name (`from pkg import f`: the package
                            # attribute f comes from elsewhere, a file pkg/f.py exists as well)
                            sig = f"wrong-file-followed:submodule-with-the-called-name-instead-of-the-package-attribute:{ed.kind}"
                        elif has_marks(got, {f"decoy_{ed.v}"}):
                            sig = f"wrong-file-followed:same-named-decoy-module:{ed.form}:{ed.kind}"
                        res.count("verdict:" + sig)
                        res.violations.append({"signature": sig, "case": {"_edge": ed.meta(), **case}, "function": fn,
                                               "edge": ed.meta(), "reference": ref, "split": got})
                if failed_local:
                    for ed, c in failed_local:
                        sig = f"import-changes-answer:{ed.form}:local-{ents[c].kind}-callee-of-followed-{ed.kind}-lost"
                        if sp.links and sp.linked(sp.loc[c]):
                            sig += ":module-reached-through-symbolic-link"
                        if c in sp.shadows and has_marks(got, {f"shadow_{c}"}):
                            # the target defines a function / class of the same name and signature, and ITS accesses
                            # appear in place of the callee's
                            sig = f"same-named-definition-confused:target-{ents[c].kind}-replaces-module-local-callee"
                        res.count("verdict:" + sig)
                        res.violations.append({"signature": sig, "case": {"_edge": ed.meta(), **case}, "function": fn,
                                               "lost_callee": c, "reference": ref, "split": got})
                if failed or failed_local:
                    continue
                # everything was followed, yet the answer differs: classify
                diff = {k: sorted(set(ref[k]) ^ set(got[k])) for k in ref if ref[k] != got[k]}
                cls_edges = [e for e in below if e.kind == "class"]
                names = [n for v in diff.values() for n in v]
                if cls_edges and all(any(re.search(rf"\.{m}\b", n) for e in cls_edges for m in ents[e.v].marks) for n in names):
                    for ed in cls_edges:
                        sig = f"import-changes-answer:{ed.form}:class-instance-argument"
                        res.count("verdict:" + sig)
                        res.violations.append({"signature": sig, "case": {"_edge": ed.meta(), **case}, "function": fn,
                                               "edge": ed.meta(), "reference": ref, "split": got})
                else:
                    sig = f"import-changes-answer:{'+'.join(sorted({e.form for e in below}))}:other"
                    res.count("verdict:" + sig)
                    res.violations.append({"signature": sig, "case": case, "function": fn, "diff": diff,
                                           "reference": ref, "split": got})
            res.sample({"target": p["target"], "edges": [e.meta() for e in sp.edges][:4],
                        "files": {k: v[:300] for k, v in list(p["files"].items())[:4]}}, cap=3)

        for p in ded:
            o1 = next(it) if p["single"] is not None else None
            o2 = next(it)
            res.evaluations += 1
            res.count(f"dedicated:{p['label']}:{o2['outcome']}")
            case = {"files": p["files"], "single": p["single_src"], "label": p["label"], "target": p.get("target", "target.py"),
                    "spelling": p.get("spelling", "relative")}
            if p.get("links"):
                case["links"] = dict(p["links"])
            if o2["outcome"] != "ok":
                exc = o2.get("exc", o2["outcome"].capitalize())
                sig = (f"import-cycle-crash:{exc}" if p["label"] == "reexport-cycle" else f"import-form-crash:{p['form']}:{exc}")
                if p.get("sig"):
                    sig = f"{p['sig']}:{exc}"
                if p.get("sig_family"):
                    sig = f"{p['sig_family']}:{p['label']}:run-fails:{exc}"
                res.violations.append({"signature": sig, "case": case, "detail": o2})
                continue
            if o1 is None:
                continue
            if o1["outcome"] != "ok":
                res.internal_errors.append({"what": "dedicated single-file reference did not run", "out": o1})
                continue
            if p.get("exact"):
                # same-named definitions: every judged function's entry must equal the reference exactly
                for fn, role, *keys in p["exact"]:
                    ref = {k: sorted(v) for k, v in o1["results"].get(fn, {}).items()}
                    got = {k: sorted(v) for k, v in o2["results"].get(fn, {}).items()}
                    if p.get("drop_gets") and "gets" in got:
                        got["gets"] = [g for g in got["gets"] if g not in p["drop_gets"]]
                    if p.get("call_prefixes") and "calls" in got:
                        # the callee spelling mapped back: `pkg.f()` / `alias.f()` -> `f()`
                        got["calls"] = sorted(next((c[len(x):] for x in p["call_prefixes"] if c.startswith(x)), c) for c in got["calls"])
                    if keys:
                        # this role is judged on some parts of the entry only (stated with the row)
                        ref = {k: v for k, v in ref.items() if k in keys[0]}
                        got = {k: v for k, v in got.items() if k in keys[0]}
                    res.nontrivial.add(common.digest(["same-name", p["label"], role, p.get("spelling")]))
                    if ref and ref == got:
                        res.count(f"dedicated:{'exact' if p.get('sig_family') else 'same-name'}:{p['label']}:{role}:same")
                        continue
                    sig = f"same-named-definition-confused:{p['label']}:{role}"
                    if p.get("sig"):
                        sig = p["sig"]
                    if p.get("sig_family"):
                        sig = f"{p['sig_family']}:{p['label']}:{role}"
                    res.count("verdict:" + sig)
                    res.violations.append({"signature": sig, "case": case, "function": fn, "reference": ref, "split": got})
                continue
            ref = {k: sorted(v) for k, v in o1["results"][p["caller"]].items()}
            got = o2["results"].get(p["caller"], {})
            got = {k: sorted(v) for k, v in got.items()}
            got_names = {re.sub(r"^.*\.", "", n) for k in ("gets", "sets", "dels") for n in got.get(k, [])}
            ref_names = {re.sub(r"^.*\.", "", n) for k in ("gets", "sets", "dels") for n in ref.get(k, [])}
            if ref_names - got_names:
                sig = (f"import-form-not-followed:{p['form']}:{p['kind']}" +
                       (":module-name-occurs-in-callee-name" if p["label"] == "module-name-inside-callee-name" else ""))
                res.violations.append({"signature": sig, "case": case, "reference": ref, "split": got})
            else:
                res.count(f"dedicated:{p['label']}:same")

        lap("pair-oracle")
        # ---- WHICH FILE a module name denotes: the real locator vs its Lean model (`Locator.findModuleInPath`, the one
        #      C13 proves things about) vs Python's path finder (Lean spec `Spec.firstMatch`, validated against CPython's
        #      importlib.util.find_spec) on every module name of every split project — incl. a package next to a stale
        #      module file, a module next to a plain directory, same-named decoy modules at several package levels
        loc_reqs, loc_metas = [], []
        for p, (_, specs) in zip(pairs, cpy):
            names = p["sp"].all_module_names()
            rows, req = locator_rows(p["split"], p["target"], names, keep_links=bool(p["sp"].links))
            loc_reqs.append(("locator", req))
            loc_metas.append((p, rows, dict(zip(names, specs))))
        for (p, rows, cpy_spec), mo in zip(loc_metas, model.batch(loc_reqs)):
            sp = p["sp"]
            if isinstance(mo, dict) and "__error__" in mo:
                res.internal_errors.append({"what": "locator driver error", "detail": mo})
                continue
            for (name, mn, rel), m in zip(rows, mo):
                res.evaluations += 1
                found = m["found"]
                m_mod = None if found is None else ".".join(found["module"])
                m_org = None
                if found is not None and found["spec"]["origin"] is not None:
                    o = found["spec"]["origin"]
                    m_org = "/".join(o["file"][1]) if "file" in o else "<outside the project>"
                spec_org = None if m["specFirst"] is None else "/".join(m["specFirst"][1])
                layout = ("package-next-to-stale-module" if name in sp.stale else
                          "module-next-to-plain-directory" if name in sp.hidden else
                          "same-named-decoy-module" if name in sp.decoys else
                          "package" if sp.modules[name]["pkg"] else "module")
                res.count("locator:" + layout)
                res.nontrivial.add(common.digest(["locator", layout, name.count(".")]))
                py_org = cpy_spec.get(name)
                if spec_org != py_org:
                    res.internal_errors.append({"what": "Lean spec of Python's path finder disagrees with importlib.util.find_spec",
                                                "module": name, "spec": spec_org, "cpython": py_org, "files": sorted(p["files"])})
                if [m_mod, m_org] != [mn, rel]:
                    res.disagreements.append({"case": {"locator": name, "files": sorted(p["files"]), "layout": layout},
                                              "impl": [mn, rel], "model": [m_mod, m_org]})
                if mn != name:
                    rel = None          # only a parent package was located
                if rel != py_org:
                    sig = f"followed-file-is-not-the-imported-file:{layout}:" + ("not-found" if rel is None else "other-file")
                    res.count("verdict:" + sig)
                    res.violations.append({"signature": sig, "case": {"files": p["files"], "target": p["target"], "flags": [],
                                                                      "module": name, **({"links": dict(sp.links)} if sp.links else {})},
                                           "rattr_follows": rel, "python_imports": py_org})

        lap("locator")
        # ---- `expand_starred_imports` as a walk over files: the symbols the real expansion appends vs `StarChain.expandFile`
        st_reqs, st_metas = [], []
        for p in pairs:
            if not p.get("split_ok", True):
                continue
            sp = p["sp"]
            star_js = [js for m in sp.modules.values() for _, js in m["imports"] if js["k"] in ("star", "relstar")]
            if not star_js:
                continue
            # the files the walk can reach — or WOULD reach if a nested statement were resolved against another file:
            # every module whose last component is named by some star statement (same-named decoys included), and every
            # module that itself holds a star import
            leafs = {(js.get("module") or "").split(".")[-1] for js in star_js}
            holders = {mn for mn, m in sp.modules.items() if any(js["k"] in ("star", "relstar") for _, js in m["imports"])}
            mods = {m: sp.path_of(m) for m in sp.modules if m in holders or m.split(".")[-1] in leafs}
            mods.update({d: d.replace(".", "/") + ".py" for d in sp.decoys if d not in sp.modules and d.split(".")[-1] in leafs})
            for start, real, req in star_rows(p["split"], p["target"], mods):
                if req is None:
                    res.internal_errors.append({"what": "star expansion of a generated file failed in-process", "file": start,
                                                "detail": real, "files": p["files"]})
                    continue
                st_reqs.append(("star_expand", req))
                st_metas.append((p, start, real))
        for (p, start, real), mo in zip(st_metas, model.batch(st_reqs)):
            res.evaluations += 1
            depth = len({q.rsplit(".", 1)[0] for _, q in real if q})
            res.count(f"star-expand:modules-expanded:{min(depth, 4)}")
            res.nontrivial.add(common.digest(["star-expand", depth, start.count(".")]))
            if mo != real:
                res.disagreements.append({"case": {"star_expand": start, "files": p["files"]}, "impl": real, "model": mo})

        lap("star-expand")
        # ---- correspondence: model vs the real call-site target and the real find_call_target_and_ir
        reqs, metas, bl_reqs, bl_metas, lc_reqs, lc_metas = [], [], [], [], [], []
        n_corr = len(pairs) if tier == "quick" else min(len(pairs), 400)
        for p in pairs[:n_corr]:
            sp = p["sp"]
            if not p.get("split_ok", True):
                res.skipped_outside_fragment += 1      # the CLI run of this project failed (a violation is recorded)
                continue
            for e in sp.edges:
                e.assigned, e.arg = p["ents"][e.v].assigned, p["ents"][e.v].arg
            rows, err = correspondence(p["split"], p["target"], sp.edges, p["user"], blacklist_probes(rng, builtin, p["user"]),
                                       p["spelling"])
            if rows is None:
                res.internal_errors.append({"what": "in-process analysis failed", "detail": err, "files": p["files"]})
                continue
            bl_reqs.append(("blacklist", {"patterns": err["patterns"], "names": err["names"]}))
            bl_metas.append((p, err))
            loc = err["local"]
            res.count("local-env:" + ("hypotheses-of-the-module-local-theorem-hold" if loc["wf"] else "hypotheses-do-not-hold"))
            if loc["calls"]:
                lc_reqs.append(("resolve_local", {**loc["env"], "calls": loc["calls"]}))
                lc_metas.append((p, loc))
            for ed, im, req in rows:
                if im is None:
                    res.skipped_outside_fragment += 1      # importer module never analysed (below a failed edge)
                    continue
                reqs.append(("resolve_import", req))
                metas.append((p, ed, im))
        for p in ded:
            if not p.get("exact") or p.get("sig"):
                continue
            rows, err = correspondence(p["split"], "target.py", [])
            if rows is None:
                res.internal_errors.append({"what": "in-process analysis failed (same-name row)", "detail": err, "files": p["files"]})
                continue
            loc = err["local"]
            res.count("local-env:" + ("hypotheses-of-the-module-local-theorem-hold" if loc["wf"] else "hypotheses-do-not-hold"))
            if loc["calls"]:
                lc_reqs.append(("resolve_local", {**loc["env"], "calls": loc["calls"]}))
                lc_metas.append(({"files": p["files"], "target": "target.py", "flags": []}, loc))
        for (p, ed, im), mo in zip(metas, model.batch(reqs)):
            res.evaluations += 1
            if "__error__" in mo:
                res.disagreements.append({"case": ed.meta(), "model": mo})
                continue
            mm = canon_model(mo, im["recordArgs"] is not None)
            res.count("resolve:" + im["outcome"]["k"] + (":" + str(im["outcome"].get("why")) if im["outcome"]["k"] == "none" else ""))
            if mm != im:
                res.disagreements.append({"case": {"edge": ed.meta(), "files": p["files"], "patterns": p["user"]},
                                          "impl": im, "model": mm})
        # ---- is_in_import_blacklist: model vs the real verdict, and the model vs CPython's `re` (the spec)
        for (p, v), mo in zip(bl_metas, model.batch(bl_reqs)):
            if isinstance(mo, dict) and "__error__" in mo:
                res.internal_errors.append({"what": "blacklist driver error", "detail": mo, "patterns": v["patterns"]})
                continue
            for (name, stdlib, origins), real, m in zip(v["names"], v["real"], mo):
                res.evaluations += 1
                subjects = [o for o in origins if o is not None] + [name]
                spec = (not name) or ((not stdlib) and any(re.fullmatch(x, o) for x in v["patterns"] for o in subjects))
                res.count(f"blacklist-verdict:{'excluded' if real else 'not-excluded'}")
                if m != spec:
                    res.internal_errors.append({"what": "Lean model of is_in_import_blacklist disagrees with CPython's re.fullmatch",
                                                "name": name, "patterns": v["patterns"], "model": m, "spec": spec})
                if m != real:
                    res.disagreements.append({"case": {"is_in_import_blacklist": name, "patterns": v["patterns"],
                                                       "stdlib": stdlib, "origins": origins,
                                                       "relation": nm.relation_tag([name], builtin, p["user"]) if name else "empty"},
                                              "impl": real, "model": m})
        # ---- local calls (Func / Class targets) in every analysed file: __resolve_target_and_ir, model vs real;
        #      and the module-local property itself on the real answer: the IR comes from the callee's own file
        for (p, loc), mo in zip(lc_metas, model.batch(lc_reqs)):
            if isinstance(mo, dict) and "__error__" in mo:
                res.disagreements.append({"case": {"resolve_local": loc["env"]}, "model": mo})
                continue
            if mo["wf"] != loc["wf"]:
                res.internal_errors.append({"what": "well-formedness of the environment: Lean criterion and harness disagree",
                                            "lean": mo["wf"], "harness": loc["wf"], "env": loc["env"]})
            for t, real, m in zip(loc["calls"], loc["real"], mo["out"]):
                res.evaluations += 1
                mm = {"k": "none"} if m["k"] == "error" else m
                same_named_elsewhere = any(k["name"] == t["name"] and k["kind"] == t["kind"] and k["file"] != t["file"]
                                           for ks in [loc["env"]["target"]] + [x[1] for x in loc["env"]["imports"]] for k in ks)
                res.count(f"local-call:{t['kind']}:{real['k']}" + (":same-named-definition-in-another-file" if same_named_elsewhere else ""))
                if same_named_elsewhere:
                    res.nontrivial.add(common.digest(["local-same-name", t["kind"], real["k"], real.get("inTarget")]))
                if mm != real:
                    res.disagreements.append({"case": {"local_call_target": t, "env": loc["env"], "files": p["files"]},
                                              "impl": real, "model": mm})
                if real["k"] == "found" and real["key"]["file"] != t["file"]:
                    sig = f"same-named-definition-confused:in-process:{t['kind']}-resolved-in-another-file"
                    res.count("verdict:" + sig)
                    res.violations.append({"signature": sig, "case": {"files": p["files"], "target": p["target"], "flags": p["flags"]},
                                           "callee": t, "resolved_to": real})
        # ---- the regex fragment itself: Lean `fullMatch` / `prefixMatch` vs CPython
        cases = regex_cases(rng, builtin, [x for p in pairs for x in p["user"]], [m for p in pairs[:40] for m in p["sp"].modules])
        out = model.batch([("regex", {"cases": cases})])[0]
        if isinstance(out, dict):
            res.internal_errors.append({"what": "regex driver error", "detail": out})
        else:
            for (src, subj), o in zip(cases, out):
                if o is None:
                    res.count("regex:outside-fragment")
                    continue
                res.count("regex:checked")
                exp = [re.fullmatch(src, subj) is not None, re.match(src, subj) is not None]
                if o != exp:
                    res.internal_errors.append({"what": "Lean regex fragment disagrees with CPython's re", "pattern": src,
                                                "subject": subj, "model": o, "cpython": exp})
        lap("correspondence")
        # ---- the MULTI-file pipeline model (`Pipeline2.run2`) vs the real run with imports followed
        from props import pipeline2
        pipeline2.run_pipeline2_stage(res, random.Random(seed + 7206), 40 if tier == "quick" else 500, model)
        lap("pipeline2")
        stage_t.pop("_last")
        res.extra["stage_seconds_informational"] = stage_t
        res.extra["pairs"] = len(pairs)
        res.extra["uncovered_cells"] = len(want)
    finally:
        shutil.rmtree(tmp, ignore_errors=True)
    res.assumptions = [
        "pipeline2 stage: the whole multi-file pipeline model (target + import BFS + star expansion + location-aware call "
        "resolution + one shared store over all FileIrs) must reproduce the real in-process run (outcome, document, ordered "
        "diagnostics, import_irs keys, every FileIr after result generation) on generated 2-4 module projects; file-system "
        "facts (module name -> origin, blacklist / stdlib / pip verdicts, module_exists, derive_module_name_from_path) are "
        "per-case parameters computed by the real locator functions",
        "[interp] 'the same answer' = the results entry of every function that stays in the target file, with the callee "
        "spelling mapped back (calls) and without the module-path gets (`m.H` for `m.H.sm()`, `p.m` for `p.m.f()`) that "
        "rattr records for any dotted callee spelling",
        "[interp] the single-file version is the reference; programs come from the clean ProgGen fragment (forest call graph, "
        "bare-parameter arguments) so that the reference itself is well-defined (C03/C05 findings excluded)",
        "re-export cycles of a NAME (a: from b import f / b: from a import f) are not valid Python; only termination is demanded",
        "[interp] which FILE a module name denotes is Python's choice (importlib.util.find_spec with the project as sys.path[0]): "
        "a package M/__init__.py shadows M.py, M.py beats a plain directory M/; the single-file reference holds the "
        "definitions of the file Python imports",
        "[interp] the answer does not depend on how the target file is named on the command line (relative, ./, absolute, "
        "through dir/.., from another working directory with the project on PYTHONPATH): each spelling the CLI accepts "
        "and under which the project's modules are locatable is a configuration the property quantifies over",
        "import cycles through the target are generated as valid Python (the target's imports follow the definitions a "
        "followed module takes from it; `import target` back edges otherwise)",
        "`import pkg; pkg.sub.f()` with nothing importing pkg.sub is not valid Python either (AttributeError); reported as a crash class",
        "follow level 1 (local modules); exclusion patterns are present but never match a generated module in full: what an "
        "excluded module does to the answer and the follow-level rungs are C12's",
        "[interp] 'a local module that rattr is configured to follow' = a local module none of whose names (full dotted name, "
        "full file path) is matched IN FULL by an exclusion pattern (Python re.fullmatch semantics, the documented meaning of "
        "-F PATTERN / exclude-imports and of the perennial patterns); such a module is followed exactly as if no pattern were "
        "given and as if it had any other name",
        "[interp] a package directory or module file that is a symbolic link is the module Python imports under the LINK's name "
        "(CPython's own binding is checked for every generated call); how the files are laid out on disk is not part of the answer",
        "[interp] `from pkg import f` / `pkg.f()` with a package attribute f AND a submodule file pkg/f.py denotes the package "
        "attribute (Python's rule; CPython's own binding is checked); dedicated member rows judge the class roles on the gets "
        "only (what an imported class's initialiser sets differs by the known class-instance-argument finding)",
        "[interp] a function / class of a followed module that has the same name as a definition of the target (or of another "
        "followed module) is still that module's: every call binds as in Python, module-locally; the single-file reference has "
        "the clashing definitions renamed apart",
    ]
    return res


def replay(path):
    j = json.load(open(path))
    print(json.dumps(j, indent=1)[:8000])
    case = j.get("case") or {}
    files = case.get("files")
    if files:
        tmp = Path(tempfile.mkdtemp(prefix="rattr-c06-replay-"))
        try:
            write_project(tmp, files, case.get("links"))
            print(json.dumps(run_cli(tmp, case.get("target", "target.py"), case.get("flags") or [],
                                     case.get("spelling") or "relative"), indent=1)[:4000])
        finally:
            shutil.rmtree(tmp, ignore_errors=True)
    return 0

"""C06 — following an import gives the same answer as defining the callee locally.

Generated PAIRS (single-file program, split project): a clean `ProgGen` program plus classes with
`__init__` and classes with a static method; a downward-closed random subset of the callees is moved
into modules / packages (depth <= 3) of a temporary project and each moved callee is reached from its
(unique) caller by an import form drawn from FORMS; the caller's source is unchanged except for the callee
spelling the form requires.  Both versions run through the real CLI (`-o results`); the property oracle is
equality of each remaining function's results entry (single-file = reference), after mapping the spelled
callee back and dropping the module-path gets the dotted spelling itself introduces.

Module naming and exclusion patterns (props/c06_names.py): the split projects are generated with neutral unique module
tokens and then renamed so that exclusion patterns — the perennial ones (`rattr`, `rattr\\..*`, `packages?\\.rattr…`) and
user patterns delivered with `-F` or through pyproject.toml — stand in NEAR-MISS relations to the module names (proper
prefix / suffix / infix, case, one dotted component, sibling `pkg\\.x` vs `pkg.xy`, …) and never match one in full.  A
module that is not matched in full is configured to be followed, so (a) the pair oracle applies unchanged and (b) the
same project under the neutral names and without user patterns must give the same results document name for name
(signature `not-excluded-module-treated-differently:<relation>`; the relation is computed from the input with
CPython's `re`).  Same-named definitions: the target may additionally define an uncalled function / class with the name
and signature of a callee of a followed module; dedicated rows (`same_name_rows`) compare both directions exactly.

Self-checks (internal errors, never violations): CPython itself imports every split project and must bind
each spelled callee to the moved definition; the Lean spec `Spec.ImportEquiv.expected` must agree with
CPython.  Correspondence (Tie B): for each cross-module call, the Lean model (`callTargetFor` +
`resolveImport`, fed with the REAL root-context symbols of every module) vs the real `Context.
get_call_target` answer recorded in the caller's IR and the real `find_call_target_and_ir`.
The model computes the ignored-module set itself (`Blacklist.ignoredOf`) from the pattern SOURCES in force; its
`is_in_import_blacklist` verdict is compared with the real one for every existing module name and for probe names around
every pattern; the Lean regex fragment is validated against CPython's `re` (internal error on a mismatch).
"""
from __future__ import annotations

import ast
import json
import os
import random
import re
import shutil
import subprocess
import sys
import tempfile
from concurrent.futures import ThreadPoolExecutor
from pathlib import Path

import common
import impl
from props import c06_names as nm
from props import resultslib as rl
from props import visitlib as vl

PID = "C06"
TABLES = ["C06"]
CLI_TIMEOUT = 180   # generous: wall-clock under load must not become a verdict

# form -> (needs importer in a package, min depth of the callee module, style)
#   style "prefix": the callee is spelled <prefix>.<local spelling>;  "name": the bare (possibly aliased) name
FORMS = {
    "import":                 dict(pkg=False, style="prefix"),
    "import-dotted":          dict(pkg=False, style="prefix"),
    "import-dotted+parent":   dict(pkg=False, style="prefix"),
    "import-as":              dict(pkg=False, style="prefix"),
    "from":                   dict(pkg=False, style="name"),
    "from-as":                dict(pkg=False, style="name"),
    "from-parent":            dict(pkg=False, style="prefix"),
    "from-parent-as":         dict(pkg=False, style="prefix"),
    "relative-from-1":        dict(pkg=True, style="name"),
    "relative-from-2":        dict(pkg=True, style="name"),
    "relative-module":        dict(pkg=True, style="prefix"),
    "reexport-init":          dict(pkg=False, style="name"),
    "reexport-chain2":        dict(pkg=False, style="name"),
    "reexport-chain3":        dict(pkg=False, style="name"),
    "reexport-star":          dict(pkg=False, style="name"),
    # pkg/__init__: from .y import *  /  pkg/y.py: from .x import k   (star of a name the starred module itself imports)
    "reexport-star-chain2":   dict(pkg=False, style="name"),
    # pkg/sub/__init__: from ..x import k   (relative level 2 written inside a package __init__)
    "reexport-init-level2":   dict(pkg=False, style="name"),
    "import-pkg-attr":        dict(pkg=False, style="prefix"),
    "pkg-submodule-imported": dict(pkg=False, style="prefix"),
}
KINDS = ("func", "class", "static")


# ------------------------------------------------------------------ base programs

class Entity:
    def __init__(self, name, kind, src, spelled, import_name, marks):
        self.name, self.kind, self.src = name, kind, src
        self.spelled = spelled            # how a local call spells the callee
        self.import_name = import_name    # the name an import statement must bind
        self.marks = marks                # distinctive attribute names the definition contributes
        self.calls = []                   # callee entity names
        self.caller = None
        self.assigned = None              # class callers: the variable the instance is assigned to
        self.arg = None


def base_program(rng):
    n = rng.randint(3, 6)
    src, _sigs = rl.ProgGen(rng, n_funcs=n, clean=True).build()
    ents, order = {}, []
    tree = ast.parse(src)
    lines = src.splitlines()
    for node in tree.body:
        i = node.name[1:]
        first = (node.args.posonlyargs + node.args.args + node.args.kwonlyargs)[0].arg
        # every definition contributes one access that is certainly its own (used to tell which edge was followed)
        chunk = "\n".join(lines[node.lineno - 1: node.end_lineno]) + f"\n    {first}.own{i}\n"
        marks = {f"own{i}"}
        e = Entity(node.name, "func", chunk, node.name, node.name, marks)
        for c in ast.walk(node):
            if isinstance(c, ast.Call) and isinstance(c.func, ast.Name) and re.fullmatch(r"f\d+", c.func.id):
                e.calls.append(c.func.id)
        ents[node.name] = e
        order.append(node.name)
    classes, tail, wrappers = [], [], []
    for i in range(rng.randint(1, 2)):
        k = f"K{i}"
        ents[k] = Entity(k, "class", f"class {k}:\n    def __init__(self, ka{i}):\n        self.kf{i} = ka{i}.kw{i}\n",
                         k, k, {f"kf{i}", f"kw{i}"})
        c = Entity(f"ck{i}", "func", f"def ck{i}(pk{i}):\n    pk{i}.ownck{i}\n    xk{i} = {k}(pk{i})\n    return xk{i}\n",
                   f"ck{i}", f"ck{i}", {f"ownck{i}"})
        c.calls.append(k)
        ents[c.name] = c
        if rng.random() < 0.6:      # a caller of the caller: ck{i} can be moved, with K{i} in its own module or elsewhere
            w = Entity(f"cwk{i}", "func", f"def cwk{i}(pwk{i}):\n    ck{i}(pwk{i})\n", f"cwk{i}", f"cwk{i}", set())
            w.calls.append(c.name)
            ents[w.name] = w
            wrappers.append(w.name)
        ents[k].assigned, ents[k].arg = f"xk{i}", f"pk{i}"
        classes.append(k)
        tail.append(c.name)
    for i in range(rng.randint(1, 2)):
        h = f"H{i}"
        ents[h] = Entity(h, "static", f"class {h}:\n    @staticmethod\n    def sm{i}(hz{i}):\n        return hz{i}.hs{i}\n",
                         f"{h}.sm{i}", h, {f"hs{i}"})
        c = Entity(f"ch{i}", "func", f"def ch{i}(ph{i}):\n    ph{i}.ownch{i}\n    {h}.sm{i}(ph{i})\n", f"ch{i}", f"ch{i}",
                   {f"ownch{i}"})
        c.calls.append(h)
        ents[c.name] = c
        if rng.random() < 0.6:
            w = Entity(f"cwh{i}", "func", f"def cwh{i}(pwh{i}):\n    ch{i}(pwh{i})\n", f"cwh{i}", f"cwh{i}", set())
            w.calls.append(c.name)
            ents[w.name] = w
            wrappers.append(w.name)
        ents[h].arg = f"ph{i}"
        classes.append(h)
        tail.append(c.name)
    for e in ents.values():
        for c in e.calls:
            ents[c].caller = e.name
    return ents, classes + order + tail + wrappers


def respell(src, ent, spelled):
    """Rewrite calls to `ent` in the body of a def chunk (never the header)."""
    head, _, body = src.partition("\n")
    return head + "\n" + re.sub(rf"(?<![\w.]){re.escape(ent.spelled)}\(", spelled + "(", body)


# ------------------------------------------------------------------ splitting

class Edge:
    def __init__(self, u, v, importer, module, form, kind, spelled, depth, chain, qualname, hops=()):
        self.u, self.v, self.importer, self.module = u, v, importer, module
        self.form, self.kind, self.spelled = form, kind, spelled
        self.depth, self.chain, self.qualname = depth, chain, qualname
        self.hops = list(hops)            # the re-exporting modules between importer and module

    def meta(self):
        return {"caller": self.u, "callee": self.v, "importer": self.importer, "module": self.module, "form": self.form,
                "kind": self.kind, "spelled": self.spelled, "depth": self.depth, "chain": self.chain, "hops": self.hops}


class Split:
    def __init__(self, rng, ents, order, layout, want):
        self.rng, self.ents, self.order = rng, ents, order
        self.target_mod = {"root": "target", "pkg": "tp.target", "pkg2": "tp.tq.target"}[layout]
        self.want = want                  # list of (form, kind) still to be covered (mutated)
        self.n = 0
        self.modules = {}                 # dotted name -> {"pkg": bool, "imports": [(line, json)], "defs": [src]}
        self.loc = {}                     # entity -> module
        self.edges = []
        self.shadows = {}                 # entity name -> source of a same-named definition placed in the target
        self.ensure(self.target_mod, False)
        # ensure() creates the parent packages (tp, tp.tq) with empty __init__ files

    def fresh(self, p):
        self.n += 1
        return f"{p}{self.n}"

    def ensure(self, mod, pkg):
        parts = mod.split(".")
        for i in range(1, len(parts)):
            self.modules.setdefault(".".join(parts[:i]), {"pkg": True, "imports": [], "defs": []})
        return self.modules.setdefault(mod, {"pkg": pkg, "imports": [], "defs": []})

    def new_mod(self, depth):
        parts = [self.fresh("zp") for _ in range(depth - 1)] + [self.fresh("zm")]
        mod = ".".join(parts)
        self.ensure(mod, False)
        return mod

    def imp(self, mod, line, js):
        self.modules[mod]["imports"].append((line, js))

    def applicable(self, form, importer):
        in_pkg = "." in importer
        if FORMS[form]["pkg"] and not in_pkg:
            return False
        if form == "relative-from-2" and importer.count(".") < 2:
            return False
        return True

    def choose_form(self, importer, kind):
        for i, (f, k) in enumerate(self.want):
            if k == kind and self.applicable(f, importer):
                del self.want[i]
                return f
        forms = [f for f in FORMS if self.applicable(f, importer)]
        return self.rng.choice(forms)

    def place(self, v):
        """Decide module + import form for moved callee v (its caller is already placed)."""
        e = self.ents[v]
        importer = self.loc[e.caller]
        # a class / static-method holder called from a followed module often lives in that same module
        if importer != self.target_mod and self.rng.random() < (0.5 if e.kind != "func" else 0.2):
            self.loc[v] = importer
            self.modules[importer]["defs"].append(v)
            return
        form = self.choose_form(importer, e.kind)
        k = e.import_name
        r = self.rng
        chain = 0
        via = []
        if form == "import":
            mod = self.new_mod(1)
            self.imp(importer, f"import {mod}", {"k": "plain", "module": mod})
            prefix = mod
        elif form == "import-dotted":
            mod = self.new_mod(r.choice([2, 3]))
            self.imp(importer, f"import {mod}", {"k": "plain", "module": mod})
            prefix = mod
        elif form == "import-dotted+parent":
            mod = self.new_mod(r.choice([2, 3]))
            top = mod.split(".")[0]
            self.imp(importer, f"import {top}", {"k": "plain", "module": top})
            self.imp(importer, f"import {mod}", {"k": "plain", "module": mod})
            prefix = mod
        elif form == "import-as":
            mod = self.new_mod(r.choice([1, 2, 3]))
            a = self.fresh("za")
            self.imp(importer, f"import {mod} as {a}", {"k": "plain", "module": mod, "asname": a})
            prefix = a
        elif form == "from":
            mod = self.new_mod(r.choice([1, 2, 3]))
            self.imp(importer, f"from {mod} import {k}", {"k": "from", "module": mod, "name": k})
            prefix = None
        elif form == "from-as":
            mod = self.new_mod(r.choice([1, 2, 3]))
            a = self.fresh("zg")
            self.imp(importer, f"from {mod} import {k} as {a}", {"k": "from", "module": mod, "name": k, "asname": a})
            prefix = ("alias", a)
        elif form in ("from-parent", "from-parent-as"):
            mod = self.new_mod(r.choice([2, 3]))
            parent, last = mod.rsplit(".", 1)
            if form == "from-parent":
                self.imp(importer, f"from {parent} import {last}", {"k": "from", "module": parent, "name": last})
                prefix = last
            else:
                a = self.fresh("za")
                self.imp(importer, f"from {parent} import {last} as {a}",
                         {"k": "from", "module": parent, "name": last, "asname": a})
                prefix = a
        elif form in ("relative-from-1", "relative-from-2", "relative-module"):
            level = 2 if form == "relative-from-2" else 1
            pkg_parts = importer.split(".")[:-1]
            base = pkg_parts[:len(pkg_parts) - (level - 1)]
            last = self.fresh("zm")
            mod = ".".join(base + [last])
            self.ensure(mod, False)
            dots = "." * level
            if form == "relative-module":
                self.imp(importer, f"from {dots} import {last}", {"k": "rel", "level": level, "module": None, "name": last})
                prefix = last
            else:
                self.imp(importer, f"from {dots}{last} import {k}", {"k": "rel", "level": level, "module": last, "name": k})
                prefix = None
        elif form == "reexport-init-level2":
            chain = 1
            pkg = self.fresh("zr")
            self.ensure(pkg, True)
            sub = f"{pkg}.{self.fresh('zq')}"
            self.ensure(sub, True)
            last = self.fresh("zx")
            mod = f"{pkg}.{last}"
            self.ensure(mod, False)
            via = [sub]
            self.imp(sub, f"from ..{last} import {k}", {"k": "rel", "level": 2, "module": last, "name": k})
            self.imp(importer, f"from {sub} import {k}", {"k": "from", "module": sub, "name": k})
            prefix = None
        elif form in ("reexport-init", "reexport-chain2", "reexport-chain3", "reexport-star", "reexport-star-chain2",
                      "import-pkg-attr"):
            chain = {"reexport-chain2": 2, "reexport-chain3": 3, "reexport-star-chain2": 2}.get(form, 1)
            pkg = self.fresh("zr")
            self.ensure(pkg, True)
            hops = [pkg] + [f"{pkg}.{self.fresh('zy')}" for _ in range(chain - 1)]
            mod = f"{pkg}.{self.fresh('zx')}"
            self.ensure(mod, False)
            via = list(hops)
            for i, h in enumerate(hops):
                self.ensure(h, i == 0)
                nxt = (hops[i + 1] if i + 1 < len(hops) else mod).rsplit(".", 1)[1]
                if form in ("reexport-star", "reexport-star-chain2") and i == 0:
                    self.imp(h, f"from .{nxt} import *", {"k": "relstar", "level": 1, "module": nxt})
                else:
                    self.imp(h, f"from .{nxt} import {k}", {"k": "rel", "level": 1, "module": nxt, "name": k})
            if form == "import-pkg-attr":
                self.imp(importer, f"import {pkg}", {"k": "plain", "module": pkg})
                prefix = pkg
            else:
                self.imp(importer, f"from {pkg} import {k}", {"k": "from", "module": pkg, "name": k})
                prefix = None
        elif form == "pkg-submodule-imported":
            pkg = self.fresh("zr")
            self.ensure(pkg, True)
            last = self.fresh("zs")
            mod = f"{pkg}.{last}"
            self.ensure(mod, False)
            via = [pkg]
            self.imp(pkg, f"from . import {last}", {"k": "rel", "level": 1, "module": None, "name": last})
            self.imp(importer, f"import {pkg}", {"k": "plain", "module": pkg})
            prefix = mod
        else:
            raise AssertionError(form)
        if isinstance(prefix, tuple):
            spelled = prefix[1] + e.spelled[len(e.import_name):]
        elif prefix is None:
            spelled = e.spelled
        else:
            spelled = f"{prefix}.{e.spelled}"
        self.loc[v] = mod
        self.modules[mod]["defs"].append(v)
        self.edges.append(Edge(e.caller, v, importer, mod, form, e.kind, spelled, mod.count(".") + 1, chain, e.spelled, via))

    def build(self):
        ents, r = self.ents, self.rng
        callees = [n for n in self.order if ents[n].caller is not None]
        moved = set()
        roots = [n for n in callees if ents[ents[n].caller].caller is None]
        # the kinds the coverage list still needs come first
        for n in callees:
            if ents[n].caller in moved or r.random() < 0.6:
                moved.add(n)
        if not moved:
            moved.add(r.choice(roots or callees))
        changed = True
        while changed:
            changed = False
            for n in list(moved):
                for c in ents[n].calls:
                    if c not in moved:
                        moved.add(c)
                        changed = True
        for n in self.order:
            if n not in moved:
                self.loc[n] = self.target_mod
                self.modules[self.target_mod]["defs"].append(n)
        # parents before children
        todo = [n for n in self.order if n in moved]
        while todo:
            for n in list(todo):
                if ents[n].caller in self.loc:
                    self.place(n)
                    todo.remove(n)
        return self

    def source_of(self, mod):
        m = self.modules[mod]
        by_caller = {}
        for ed in self.edges:
            by_caller.setdefault(ed.u, []).append(ed)
        out = [l for l, _ in m["imports"]]
        if out:
            out.append("")
        # classes first, as in the single-file version (a static method resolves only if its class comes earlier)
        for n in sorted(m["defs"], key=lambda n: self.ents[n].kind == "func"):
            src = self.ents[n].src
            for ed in by_caller.get(n, []):
                src = respell(src, self.ents[ed.v], ed.spelled)
            out.append(src)
        if mod == self.target_mod:
            # same-named definitions: never called, never imported — they must not change anything
            for n in sorted(self.shadows, key=lambda n: self.ents[n].kind == "func"):
                out.append(self.shadows[n])
        return "\n".join(out) + ("\n" if out else "")

    def files(self):
        fs = {}
        for mod, m in self.modules.items():
            path = mod.replace(".", "/") + ("/__init__.py" if m["pkg"] else ".py")
            fs[path] = self.source_of(mod)
        return fs

    def spec_project(self):
        mods = []
        for mod, m in self.modules.items():
            decls = [dict(js) for _, js in m["imports"]]
            for n in sorted(m["defs"], key=lambda n: self.ents[n].kind == "func"):
                e = self.ents[n]
                members = [e.spelled.split(".", 1)[1]] if e.kind == "static" else []
                decls.append({"k": "def", "name": e.import_name, "isClass": e.kind != "func", "members": members})
            mods.append({"name": mod, "isPkg": m["pkg"], "decls": decls})
        return mods

    # -------------------------------------------------- same-named definitions in the target
    def add_shadows(self, rng, p_each=0.5):
        """For moved callees that the target does not bind by their own name: define, in the target, a function /
        class of the SAME name and the same signature with a distinctive body.  Python (and the single-file
        reference, which does not contain it) never calls it; the calls inside the followed modules resolve to the
        module-local definition."""
        tops = {e.spelled.split(".")[0] for e in self.edges if e.importer == self.target_mod}
        for v, mod in self.loc.items():
            e = self.ents[v]
            if mod == self.target_mod or e.caller is None or e.import_name in tops or rng.random() >= p_each:
                continue
            if self.loc[e.caller] == self.target_mod:
                # called from the target itself (through a dotted / aliased spelling): a same-named target
                # definition is legal Python, and the call is spelled differently, but keep this case apart
                where = "called-from-target"
            else:
                where = "called-from-followed-module"
            node = ast.parse(e.src).body[0]
            if e.kind == "func":
                first = (node.args.posonlyargs + node.args.args + node.args.kwonlyargs)[0].arg
                head = e.src.split("\n", 1)[0]
                src = f"{head}\n    return {first}.shadow_{v}\n"
            elif e.kind == "class":
                init = node.body[0]
                a = init.args.args[1].arg
                src = f"class {v}:\n    def __init__(self, {a}):\n        self.shadowed_{v} = {a}.shadow_{v}\n"
            else:
                sm = node.body[0]
                a = sm.args.args[0].arg
                src = f"class {v}:\n    @staticmethod\n    def {sm.name}({a}):\n        return {a}.shadow_{v}\n"
            self.shadows[v] = src
            self.shadow_where = getattr(self, "shadow_where", {})
            self.shadow_where[v] = where
        return self

    # -------------------------------------------------- module naming
    def apply_renaming(self, mapping):
        """Rename module / package components (neutral unique tokens -> names of the near-miss pools)."""
        if not mapping:
            return self
        rn = lambda x: nm.rename(x, mapping)

        def deep(x):
            if isinstance(x, str):
                return rn(x)
            if isinstance(x, dict):
                return {k: deep(v) for k, v in x.items()}
            if isinstance(x, (list, tuple)):
                return type(x)(deep(v) for v in x)
            return x

        self.modules = {rn(mod): {"pkg": m["pkg"], "imports": [(rn(l), deep(js)) for l, js in m["imports"]], "defs": m["defs"]}
                        for mod, m in self.modules.items()}
        self.loc = {k: rn(v) for k, v in self.loc.items()}
        for ed in self.edges:
            ed.importer, ed.module, ed.spelled = rn(ed.importer), rn(ed.module), rn(ed.spelled)
            ed.hops = [rn(h) for h in ed.hops]
        self.renaming = dict(mapping)
        return self


def single_source(ents, order):
    return "\n".join(ents[n].src for n in order)


# ------------------------------------------------------------------ dedicated projects

def dedicated(rng, i):
    """(label, form, kind, files, single source or None, caller name, python_valid)."""
    a, b = f"in_a{i}", f"in_b{i}"
    out = []
    # valid module-level import cycle (back edge through `import m` so that CPython accepts it)
    out.append(("module-cycle", "module-cycle", "func", {
        "target.py": f"from zca{i} import ga{i}\n\ndef caller{i}(p):\n    ga{i}(p)\n",
        f"zca{i}.py": f"import zcb{i}\n\ndef fa{i}(x):\n    return x.{a}\n\ndef ga{i}(y):\n    zcb{i}.fb{i}(y)\n",
        f"zcb{i}.py": f"import zca{i}\n\ndef fb{i}(w):\n    w.{b}\n    zca{i}.fa{i}(w)\n",
    }, f"def fa{i}(x):\n    return x.{a}\n\ndef fb{i}(w):\n    w.{b}\n    fa{i}(w)\n\ndef ga{i}(y):\n    fb{i}(y)\n\n"
       f"def caller{i}(p):\n    ga{i}(p)\n", f"caller{i}", True))
    # re-export cycle of a NAME (CPython itself fails: the answer is undefined, rattr must still end)
    out.append(("reexport-cycle", "reexport-cycle", "func", {
        "target.py": f"from zna{i} import f{i}\n\ndef caller{i}(p):\n    f{i}(p)\n",
        f"zna{i}.py": f"from znb{i} import f{i}\n",
        f"znb{i}.py": f"from zna{i} import f{i}\n",
    }, None, f"caller{i}", False))
    # import pkg; pkg.sub.f() where nothing imports pkg.sub (CPython: AttributeError)
    out.append(("pkg-submodule-unimported", "pkg-submodule-unimported", "func", {
        "target.py": f"import zr{i}\n\ndef caller{i}(p):\n    zr{i}.zs{i}.f{i}(p)\n",
        f"zr{i}/__init__.py": "",
        f"zr{i}/zs{i}.py": f"def f{i}(x):\n    return x.{a}\n",
    }, None, f"caller{i}", False))
    # module name occurring inside the callee name: `import am; am.Ham.sm()`
    out.append(("module-name-inside-callee-name", "import", "static", {
        "target.py": f"import am{i}\n\ndef caller{i}(p):\n    am{i}.Ham{i}.sm(p)\n",
        f"am{i}.py": f"class Ham{i}:\n    @staticmethod\n    def sm(z):\n        return z.{a}\n",
    }, f"class Ham{i}:\n    @staticmethod\n    def sm(z):\n        return z.{a}\n\ndef caller{i}(p):\n    Ham{i}.sm(p)\n",
        f"caller{i}", True))
    return out


def same_name_rows(rng, i):
    """Split projects in which a followed module's own helper / class has the SAME name (and signature) as a
    definition of the target, of another followed module, or as a name the target imports from elsewhere.
    Every call binds, in Python, to the definition of the module the call is written in (module-local), and that
    is what the single-file version (same program, the clashing definitions renamed apart) computes.
    -> dicts(label, kind, files, single, exact=[(function, role)])"""
    A, B = f"zsa{i}", f"zsb{i}"
    h, g, g2, K, H = f"helper{i}", f"ga{i}", f"gb{i}", f"Kn{i}", f"Hn{i}"
    par = rng.choice(["x", "item", f"v{i}"])            # the same parameter name in both definitions

    def fn(name, mark):
        return f"def {name}({par}):\n    return {par}.{mark}\n"

    def cls(name, mark):
        return f"class {name}:\n    def __init__(self, {par}):\n        self.made_{mark} = {par}.{mark}\n"

    def hold(name, mark):
        return f"class {name}:\n    @staticmethod\n    def sm({par}):\n        return {par}.{mark}\n"

    use = {"func": lambda n, a: f"    {n}({a})\n", "class": lambda n, a: f"    o = {n}({a})\n    return o\n",
           "static": lambda n, a: f"    {n}.sm({a})\n"}
    mk = {"func": fn, "class": cls, "static": hold}
    nmz = {"func": h, "class": K, "static": H}
    rows = []
    for kind in ("func", "class", "static"):
        n, make, call = nmz[kind], mk[kind], use[kind]
        caller = f"def caller{i}(p):\n    {g}(p)\n"
        own = f"def own{i}(q):\n" + call(n, "q")
        ga = f"def {g}(y):\n" + call(n, "y")
        gb = f"def {g2}(w):\n" + call(n, "w")
        # (1) the target defines the same name
        rows.append({"label": f"target-and-followed-module-define-same-{kind}", "kind": kind,
                     "files": {"target.py": f"from {A} import {g}\n\n" + make(n, "in_target") + "\n" + caller + "\n" + own,
                               f"{A}.py": make(n, "in_module") + "\n" + ga},
                     "single": make(n, "in_target") + "\n" + make(n + "_m", "in_module") + "\n"
                               + f"def {g}(y):\n" + call(n + "_m", "y") + "\n" + caller + "\n" + own,
                     "exact": [(f"caller{i}", "call-written-in-followed-module"), (f"own{i}", "call-written-in-target")]})
        # (2) two followed modules define the same name (the other one is imported first)
        caller2 = f"def callerb{i}(p):\n    {g2}(p)\n"
        rows.append({"label": f"two-followed-modules-define-same-{kind}", "kind": kind,
                     "files": {"target.py": f"from {B} import {g2}\nfrom {A} import {g}\n\n" + caller + "\n" + caller2,
                               f"{A}.py": make(n, "in_module") + "\n" + ga,
                               f"{B}.py": make(n, "in_other") + "\n" + gb},
                     "single": make(n + "_m", "in_module") + "\n" + make(n + "_o", "in_other") + "\n"
                               + f"def {g}(y):\n" + call(n + "_m", "y") + "\n" + f"def {g2}(w):\n" + call(n + "_o", "w") + "\n"
                               + caller + "\n" + caller2,
                     "exact": [(f"caller{i}", "call-written-in-later-imported-module"),
                               (f"callerb{i}", "call-written-in-first-imported-module")]})
    # (4) the followed module's class has NO initialiser (no IR entry); a same-named class with an initialiser lives in
    #     the target / in another followed module: nothing may be borrowed
    bare = f"class {K}:\n    def method(self, {par}):\n        return {par}.in_method\n"
    ga_k = f"def {g}(y):\n" + use["class"](K, "y")
    rows.append({"label": "followed-class-without-initialiser-and-same-named-target-class", "kind": "class",
                 "files": {"target.py": f"from {A} import {g}\n\n" + cls(K, "in_target") + "\n" + f"def caller{i}(p):\n    {g}(p)\n\n"
                                        + f"def own{i}(q):\n" + use["class"](K, "q"),
                           f"{A}.py": bare + "\n" + ga_k},
                 "single": cls(K, "in_target") + "\n" + bare.replace(f"class {K}:", f"class {K}_m:") + "\n"
                           + f"def {g}(y):\n" + use["class"](K + "_m", "y") + "\n" + f"def caller{i}(p):\n    {g}(p)\n\n"
                           + f"def own{i}(q):\n" + use["class"](K, "q"),
                 "exact": [(f"caller{i}", "call-written-in-followed-module"), (f"own{i}", "call-written-in-target")]})
    rows.append({"label": "followed-class-without-initialiser-and-same-named-class-in-other-module", "kind": "class",
                 "files": {"target.py": f"from {B} import {g2}\nfrom {A} import {g}\n\ndef caller{i}(p):\n    {g}(p)\n\n"
                                        f"def callerb{i}(p):\n    {g2}(p)\n",
                           f"{A}.py": bare + "\n" + ga_k,
                           f"{B}.py": cls(K, "in_other") + "\n" + f"def {g2}(w):\n" + use["class"](K, "w")},
                 "single": cls(K + "_o", "in_other") + "\n" + bare.replace(f"class {K}:", f"class {K}_m:") + "\n"
                           + f"def {g}(y):\n" + use["class"](K + "_m", "y") + "\n" + f"def {g2}(w):\n" + use["class"](K + "_o", "w") + "\n"
                           + f"def caller{i}(p):\n    {g}(p)\n\ndef callerb{i}(p):\n    {g2}(p)\n",
                 "exact": [(f"caller{i}", "call-written-in-later-imported-module"),
                           (f"callerb{i}", "call-written-in-first-imported-module")]})
    # (5) the SAME call text (`helper(a)`, same argument name) is made in the target and, below it in the call tree, in
    #     the followed module — each to its own helper
    rows.append({"label": "same-call-text-in-target-and-followed-module", "kind": "func",
                 "files": {"target.py": f"from {A} import {g}\n\n" + fn(h, "in_target") + "\n"
                                        + f"def both{i}(a):\n    {h}(a)\n    {g}(a)\n\n" + f"def rev{i}(a):\n    {g}(a)\n    {h}(a)\n",
                           f"{A}.py": fn(h, "in_module") + "\n" + f"def {g}(a):\n    {h}(a)\n"},
                 "single": fn(h, "in_target") + "\n" + fn(h + "_m", "in_module") + "\n" + f"def {g}(a):\n    {h}_m(a)\n\n"
                           + f"def both{i}(a):\n    {h}(a)\n    {g}(a)\n\n" + f"def rev{i}(a):\n    {g}(a)\n    {h}(a)\n",
                 "exact": [(f"both{i}", "target-call-first"), (f"rev{i}", "module-call-first")]})
    # (3) the target IMPORTS the name from another module; the followed module has its own
    rows.append({"label": "target-imports-same-named-func-from-elsewhere", "kind": "func",
                 "files": {"target.py": f"from {B} import {h}\nfrom {A} import {g}\n\ndef caller{i}(p):\n    {g}(p)\n\n"
                                        f"def own{i}(q):\n    {h}(q)\n",
                           f"{A}.py": fn(h, "in_module") + "\n" + f"def {g}(y):\n    {h}(y)\n",
                           f"{B}.py": fn(h, "in_other")},
                 "single": fn(h, "in_other") + "\n" + fn(h + "_m", "in_module") + "\n" + f"def {g}(y):\n    {h}_m(y)\n\n"
                           f"def caller{i}(p):\n    {g}(p)\n\ndef own{i}(q):\n    {h}(q)\n",
                 "exact": [(f"caller{i}", "call-written-in-followed-module"), (f"own{i}", "call-written-in-target")]})
    return rows


# ------------------------------------------------------------------ running

def run_cli(project, target, flags=()):
    """`flags`: exclusion patterns given on the command line (`-F p`)."""
    env = dict(os.environ, PYTHONHASHSEED="0")
    opts = [x for f in flags for x in ("-F", f)]
    try:
        p = subprocess.run([sys.executable, "-m", "rattr", "-w", "none", *opts, "-o", "results", target], cwd=str(project),
                           capture_output=True, text=True, timeout=CLI_TIMEOUT, env=env)
    except subprocess.TimeoutExpired:
        return {"outcome": "timeout"}
    if p.returncode == 0:
        try:
            return {"outcome": "ok", "results": json.loads(p.stdout)}
        except Exception:
            return {"outcome": "bad-json", "stdout": p.stdout[-400:]}
    if "Traceback (most recent call last)" in p.stderr:
        last = [l for l in p.stderr.strip().splitlines() if l and not l.startswith(" ")][-1]
        return {"outcome": "crash", "exc": re.split(r"[:\s]", last)[0].split(".")[-1], "stderr": p.stderr[-600:]}
    return {"outcome": f"exit-{p.returncode}", "stderr": p.stderr[-600:]}


def toml_for(patterns):
    """pyproject.toml delivering the exclusion patterns (TOML literal strings: no escaping)."""
    assert not any("'" in x for x in patterns)
    return "[tool.rattr]\nexclude-imports = [" + ", ".join(f"'{x}'" for x in patterns) + "]\n"


CPY = r"""
import importlib, json, sys
sys.path.insert(0, '.')
out = []
for importer, spelled in json.loads(sys.argv[1]):
    try:
        m = importlib.import_module(importer)
        o = eval(spelled, vars(m))
        out.append([getattr(o, '__module__', None), getattr(o, '__qualname__', None)])
    except BaseException as e:
        out.append(['!' + type(e).__name__, str(e)[:120]])
print(json.dumps(out))
"""


def run_cpython(project, queries):
    p = subprocess.run([sys.executable, "-c", CPY, json.dumps(queries)], cwd=str(project), capture_output=True, text=True,
                       timeout=60, env=dict(os.environ, PYTHONDONTWRITEBYTECODE="1"))
    try:
        return json.loads(p.stdout.strip().splitlines()[-1])
    except Exception:
        return [["!harness", (p.stderr or p.stdout)[-200:]] for _ in queries]


def write_project(root, files):
    for rel, content in files.items():
        f = root / rel
        f.parent.mkdir(parents=True, exist_ok=True)
        f.write_text(content)


def module_path_gets(spelled):
    parts = spelled.split(".")
    return {".".join(parts[:k]) for k in range(2, len(parts))}


def normalise(entry, edges_of_caller, edges_below, ents):
    """Map the split version's entry back to the local spelling: the caller's own calls, and the
    module-path gets of every dotted cross-module spelling at or below it (they are rooted at a module
    name, never substituted, so they surface unchanged in every transitive caller)."""
    e = {k: list(v) for k, v in entry.items()}
    for ed in edges_of_caller:
        local = ents[ed.v].spelled
        e["calls"] = [local + "()" if c == ed.spelled + "()" else c for c in e["calls"]]
    for ed in edges_below:
        drop = module_path_gets(ed.spelled) - module_path_gets(ents[ed.v].spelled)
        e["gets"] = [g for g in e["gets"] if g not in drop]
    return {k: sorted(v) for k, v in e.items()}


def has_marks(entry, marks):
    names = [n for k in ("gets", "sets", "dels") for n in entry[k]]
    return {m for m in marks if any(re.search(rf"\.{m}\b", n) for n in names)}


# ------------------------------------------------------------------ correspondence (in-process)

WHY = [("it is likely ignored", "likely-ignored"), ("it is a method", "is-method"),
       ("it is likely undefined", "likely-undefined"), ("ignoring call to", "ignored")]


def msym_json(s, file_ir):
    from rattr.models.symbol import Class, Func, Import
    if isinstance(s, Func):
        return {"k": "func", "name": s.name, "hasIr": s in file_ir}
    if isinstance(s, Class):
        return {"k": "cls", "name": s.name, "hasIr": s in file_ir}
    if isinstance(s, Import):
        return {"k": "imp", "name": s.name, "qual": s.qualified_name}
    return {"k": "other", "name": s.name}


def name_facts(name):
    """What the module locator / isort supply to is_in_import_blacklist for `name` (data of the model)."""
    from rattr.module_locator import util as U
    safe_origin = getattr(U, "__safe_origin")
    return [name, bool(U.is_in_stdlib(name)), [safe_origin(m) for m in U.derive_module_names_right(name)]]


def local_calls(file_ir, import_irs, env):
    """Every call, in any analysed file, whose target is a Func / Class symbol (a LOCAL call): the real
    find_call_target_and_ir, and the environment as the model sees it (FileIr keys up to ==, their defining files,
    derive_module_name_from_path of every file)."""
    from rattr.models.symbol import Class, Func
    from rattr.module_locator.util import derive_module_name_from_path
    from rattr.results import IrCall, find_call_target_and_ir

    import attrs

    def dsym(x):
        f = x.location.defined_in
        # everything attrs' __eq__ compares besides the name, as one key (the location is not compared)
        key = repr([(a.name, getattr(x, a.name)) for a in attrs.fields(type(x)) if a.eq and a.name != "name"])
        return {"kind": "cls" if isinstance(x, Class) else "func", "name": x.name, "iface": key,
                "file": "" if f is None else str(f)}

    irs = [("", file_ir)] + list(import_irs.items())
    envj = {"target": [dsym(k) for k in file_ir], "imports": [[n, [dsym(k) for k in ir]] for n, ir in import_irs.items()]}
    calls, real, files = [], [], set()
    for _, ir in irs:
        files.update(dsym(k)["file"] for k in ir)
    for _, ir in irs:
        for caller in ir:
            for call in ir[caller]["calls"]:
                t = call.target
                if not isinstance(t, (Func, Class)):
                    continue
                files.add(dsym(t)["file"])
                with impl.Tap():
                    o = impl.outcome_of(find_call_target_and_ir, IrCall(caller=caller, symbol=call), environment=env)
                if o[0] != "ok":
                    rj = {"k": o[1] if o[0] == "crash" else "fatal"}
                elif o[1] is None:
                    rj = {"k": "none"}
                else:
                    rj = {"k": "found-elsewhere"}
                    for name, mir in irs:
                        key = next((k for k in mir if mir[k] is o[1].ir), None)
                        if key is not None:
                            rj = {"k": "found", "inTarget": mir is file_ir, "module": name, "key": dsym(key)}
                            break
                calls.append(dsym(t))
                real.append(rj)
    module_of = {}
    for f in sorted(files):
        m = derive_module_name_from_path(f) if f else None
        if m is not None:
            module_of[f] = m
    envj["moduleOf"] = [[f, m] for f, m in module_of.items()]
    # the hypotheses of C06_local_call_resolves_in_defining_file, checked on the real environment
    wf = (all(module_of.get(k["file"]) == n for n, ks in envj["imports"] for k in ks)
          and len(set(module_of.values())) == len(module_of))
    return {"env": envj, "calls": calls, "real": real, "wf": wf}


def correspondence(project, target_rel, edges, user=(), probes=()):
    """Real get_call_target / find_call_target_and_ir per cross-module call + the model request.
    `user`: the exclusion patterns in force (in-process: Arguments._excluded_imports).  The model computes the
    set of ignored modules itself from the pattern SOURCES (its own regex fragment + is_in_import_blacklist).
    Also returns the real is_in_import_blacklist verdicts for every existing module name and every probe."""
    from rattr.analyser import file as F
    from rattr.config import Config
    from rattr.models.symbol import Import
    from rattr.module_locator.util import is_in_import_blacklist, module_exists
    from rattr.results import IrCall, IrEnvironment, find_call_target_and_ir

    rows = []
    with impl.in_dir(str(project)):
        impl.reset_config(target=Path(target_rel), _excluded_imports=list(user))
        with impl.Tap():
            out = impl.outcome_of(F.parse_and_analyse_file)
        if out[0] != "ok":
            return None, f"{out[0]}:{out[1]}"
        file_ir, import_irs, _ = out[1]
        target_mod = target_rel[:-3].replace("/", ".")
        irs = {target_mod: file_ir}
        irs.update(import_irs)
        env = IrEnvironment(target_ir=file_ir, import_irs=import_irs)
        quals = set()
        for ir in irs.values():
            for s in ir.context.symbol_table.symbols:
                if isinstance(s, Import):
                    quals.add(s.qualified_name)
        found = []
        for ed in edges:
            ir = irs.get(ed.importer)
            if ir is None:
                rows.append((ed, None, None))
                continue
            usym = next((s for s in ir if s.name == ed.u), None)
            call = next((c for c in ir[usym]["calls"] if c.name == ed.spelled), None) if usym is not None else None
            if call is None:
                rows.append((ed, None, None))
                continue
            t = call.target
            if isinstance(t, Import):
                quals.add(t.qualified_name)
            found.append((ed, ir, usym, call))
        cands = set()
        for q in quals:
            parts = q.split(".")
            cands.update(".".join(parts[:i]) for i in range(1, len(parts) + 1))
        existing = sorted(c for c in cands if module_exists(c))
        patterns = sorted(Config().blacklist_patterns)
        facts = [name_facts(n) for n in existing]
        verdicts = {"patterns": patterns,
                    "names": facts + [name_facts(n) for n in probes if n not in existing],
                    }
        verdicts["real"] = [bool(is_in_import_blacklist(f[0])) for f in verdicts["names"]]
        verdicts["local"] = local_calls(file_ir, import_irs, env)
        world = {"existing": existing, "ignored": [], "blacklist": {"patterns": patterns, "facts": facts},
                 "irs": [[name, [msym_json(s, ir) for s in ir.context.symbol_table.symbols]]
                         for name, ir in import_irs.items()]}
        for ed, ir, usym, call in found:
            t = call.target
            tj = None if t is None else {"kind": type(t).__name__, "name": t.name,
                                         "qual": getattr(t, "qualified_name", "")}
            if isinstance(t, Import):
                with impl.Tap() as tap:
                    o = impl.outcome_of(find_call_target_and_ir, IrCall(caller=usym, symbol=call), environment=env)
                if o[0] == "ok" and o[1] is not None:
                    modname = next((n for n, mir in import_irs.items()
                                    if o[1].symbol in mir and mir[o[1].symbol] is o[1].ir), "?")
                    oj = {"k": "found", "module": modname,
                          "sym": [{"Func": "func", "Class": "cls"}.get(type(o[1].symbol).__name__, "?"), o[1].symbol.name]}
                elif o[0] == "ok":
                    msg = tap.events[-1]["message"] if tap.events else ""
                    oj = {"k": "none", "why": next((w for pat, w in WHY if pat in msg), None)}
                else:
                    oj = {"k": o[1] if o[0] == "crash" else "fatal"}
            else:
                oj = {"k": "no-import-target", "kind": None if t is None else type(t).__name__}
            e = None
            req = {**world, "root": vl.root_snapshot(ir.context), "callee": ed.spelled, "fuel": 64}
            record = None
            if ed.kind in ("class", "static"):
                record = list(call.args.args)
                req["assignedTo"], req["args"] = ed.assigned, [ed.arg]
            rows.append((ed, {"target": tj, "outcome": oj, "recordArgs": record}, req))
    return rows, verdicts


def canon_model(mo, with_record):
    t = mo["target"]
    tj = None if t is None else {"kind": t["kind"], "name": t["name"], "qual": t["qual"] if t["kind"] == "Import" else ""}
    o = mo["outcome"]
    if o["k"] == "found":
        oj = {"k": "found", "module": o["module"], "sym": [o["sym"]["k"], o["sym"]["name"]]}
    elif o["k"] == "none":
        oj = {"k": "none", "why": o["why"]}
    elif o["k"] == "no-import-target":
        oj = {"k": "no-import-target", "kind": o["kind"]}
    else:
        oj = {"k": o["k"]}
    return {"target": tj, "outcome": oj, "recordArgs": mo["recordArgs"] if with_record else None}


def literalise(pattern):
    """One string a pattern of the generated kinds matches (quantified atoms dropped)."""
    out = re.sub(r"(\\.|.)[?*]", "", pattern)
    return re.sub(r"\\(.)", r"\1", out)


def blacklist_probes(rng, builtin, user):
    """Names (mostly of modules that do not exist) around every pattern in force: exact matches and near-misses."""
    out = ["", "rattr", "rattr.x", "rattr.", "rattrx", "xrattr", "rattr_helpers", "package.rattr", "packages.rattr",
           "packages.rattr.a.b", "packagess.rattr", "xpackages.rattr", "package.rattrs", "Rattr", "os", "os.path", "_thread",
           "json.decoder", "nosuchmodule_zz"]
    for x in list(builtin) + list(user):
        lit = literalise(x)
        if lit:
            out += [lit, lit + "x", "x" + lit, lit[:-1], lit[1:], lit + ".sub", lit.swapcase()]
    out = [n for n in dict.fromkeys(out) if "\n" not in n]
    return rng.sample(out, min(len(out), 14))


def regex_cases(rng, builtin, user, names):
    pats = list(dict.fromkeys(list(builtin) + user))
    for _ in range(40):
        n = rng.randint(1, 5)
        pats.append("".join(rng.choice(["a", "b", "_", r"\.", ".", "a?", "b*", ".*", r"\.?", ".?", "r", "t"]) for _ in range(n)))
    pats += ["a+", "[ab]", "a|b", "(a)", "a{2}", "^a", "a$", r"\d", "a??", "a*?", ""]
    subjects = list(dict.fromkeys(names))[:60] + ["", "a", "ab", "a.b", "aab", "abb", "a_b", "rattr", "rattr.x", "b", ".", "..", "a\nb"]
    cases = []
    for x in pats:
        for sj in rng.sample(subjects, min(len(subjects), 8)):
            cases.append([x, sj])
        lit = literalise(x)
        cases += [[x, lit], [x, lit + "x"], [x, lit[:-1]]]
    return cases


# ------------------------------------------------------------------ the check

def run(tier, seed, build):
    res = common.Result(PID)
    res.rule = ("pairs (single-file program, split project) run through the real CLI; the split moves a downward-closed "
                "random subset of the callees (functions, classes with __init__, classes with a static method) into "
                "modules/packages of depth <= 3 and reaches each from its caller by an import form of the table "
                "(every form x callee kind at least 5 (quick) / 30 (thorough) times, re-export chains up to 3, star re-export of a name the starred module itself "
                "imports, relative level 2 inside a package __init__, moved callers whose class / static-method callee lives in the "
                "same followed module (chain depth >= 2), valid module cycles, name cycles); oracle = equality of each remaining function's results entry with the single-file "
                "reference after mapping the callee spelling back. Module / package names vary: neutral unique tokens or names "
                "that an exclusion pattern (perennial `rattr`, `packages?\\.rattr`, ...; user patterns given with -F or through "
                "pyproject.toml, generated as near-misses of the project's own module names) matches only as a proper prefix / "
                "suffix / infix / up to case / as one dotted component — never in full, so every module stays configured to be "
                "followed; second oracle for those projects: the same project under neutral names and without user patterns gives "
                "the same results document, name for name. Half of the projects define in the target an uncalled function / class "
                "with the name and signature of a callee that lives in a followed module; dedicated rows with same-named "
                "definitions in the target / in two followed modules / imported into the target from elsewhere are compared "
                "exactly. Correspondence additionally: the model computes the ignored-module set itself from the pattern sources "
                "(its own regex fragment, validated against CPython's re every run) and its is_in_import_blacklist verdict is "
                "compared with the real one on every existing module name and on probe names around every pattern. "
                "non-trivial = distinct (form, callee kind, module depth, chain length) of a judged cross-module call, "
                "distinct (name-pattern relation, form) of a judged call, distinct same-name row x role")
    rng = random.Random(seed)
    per_cell = 5 if tier == "quick" else 30
    max_pairs = 230 if tier == "quick" else 900
    want = [(f, k) for f in FORMS for k in KINDS for _ in range(per_cell)]
    rng.shuffle(want)
    tmp = Path(tempfile.mkdtemp(prefix="c06-"))     # no excluded name anywhere in the path
    model = common.Model()
    builtin = nm.builtin_patterns()
    try:
        pairs = []
        while (want or len(pairs) < 40) and len(pairs) < max_pairs:
            ents, order = base_program(rng)
            needs_pkg = any(FORMS[f]["pkg"] for f, _ in want[:6])
            layout = "pkg" if (needs_pkg or rng.random() < 0.25) else "root"
            if layout == "pkg" and (any(f == "relative-from-2" for f, _ in want) or rng.random() < 0.2):
                layout = "pkg2"
            sp = Split(rng, ents, order, layout, want).build()
            if rng.random() < 0.5:
                sp.add_shadows(rng)
            i = len(pairs)
            d1, d2, d3 = tmp / f"s{i}", tmp / f"p{i}", tmp / f"n{i}"
            target_rel = sp.target_mod.replace(".", "/") + ".py"
            single_files = {target_rel: single_source(ents, order)}
            if layout != "root":
                single_files["tp/__init__.py"] = ""
            if layout == "pkg2":
                single_files["tp/tq/__init__.py"] = ""
            # ---- module naming and exclusion patterns (near-misses only: every module stays configured to be followed)
            neutral_files = sp.files()
            mapping = nm.choose_renaming(rng, list(sp.modules), builtin) if rng.random() < 0.6 else {}
            sp.apply_renaming(mapping)
            files = sp.files()
            paths = [str(d / rel) for d in (d1, d2) for rel in list(files) + list(single_files)]
            pats = nm.choose_patterns(rng, list(sp.modules), paths, rng.randint(1, 3)) if rng.random() < 0.5 else []
            user = [x for _, x in pats]
            via_toml = bool(user) and rng.random() < 0.3
            if via_toml:
                files = {**files, "pyproject.toml": toml_for(user)}
                single_files = {**single_files, "pyproject.toml": toml_for(user)}
            write_project(d1, single_files)
            write_project(d2, files)
            twin = bool(mapping or user)
            if twin:
                write_project(d3, neutral_files)
            pairs.append({"i": i, "single": d1, "split": d2, "target": target_rel, "sp": sp, "ents": ents, "order": order,
                          "files": files, "single_src": single_files[target_rel], "user": user, "pattern_kinds": [k for k, _ in pats],
                          "flags": [] if via_toml else user, "via_toml": via_toml, "mapping": mapping,
                          "twin": d3 if twin else None, "neutral_files": neutral_files})
        ded = []
        n_ded = 2 if tier == "quick" else 6
        for j in range(n_ded):
            for label, form, kind, files, single, caller, pyvalid in dedicated(rng, j):
                i = len(pairs) + len(ded)
                d1, d2 = tmp / f"s{i}", tmp / f"p{i}"
                write_project(d2, files)
                if single is not None:
                    write_project(d1, {"target.py": single})
                ded.append({"i": i, "label": label, "form": form, "kind": kind, "files": files, "single": d1 if single else None,
                            "single_src": single, "split": d2, "caller": caller, "pyvalid": pyvalid})
            for row in (same_name_rows(rng, j) if (j == 0 or tier != "quick") else []):
                i = len(pairs) + len(ded)
                d1, d2 = tmp / f"s{i}", tmp / f"p{i}"
                write_project(d2, row["files"])
                write_project(d1, {"target.py": row["single"]})
                ded.append({"i": i, "label": row["label"], "form": "from", "kind": row["kind"], "files": row["files"], "single": d1,
                            "single_src": row["single"], "split": d2, "caller": None, "pyvalid": True, "exact": row["exact"]})

        jobs = []
        for p in pairs:
            jobs.append((p["single"], p["target"], p["flags"]))
            jobs.append((p["split"], p["target"], p["flags"]))
            if p["twin"] is not None:
                jobs.append((p["twin"], p["target"], []))
        for p in ded:
            if p["single"] is not None:
                jobs.append((p["single"], "target.py", []))
            jobs.append((p["split"], "target.py", []))
        with ThreadPoolExecutor(max_workers=16) as ex:
            outs = list(ex.map(lambda j: run_cli(*j), jobs))
            cpy = list(ex.map(lambda p: run_cpython(p["split"], [[e.importer, e.spelled] for e in p["sp"].edges]), pairs))
        it = iter(outs)

        # ---- self-check: CPython binds every spelled callee to the moved definition; so does the Lean spec
        spec_reqs = []
        for p, got in zip(pairs, cpy):
            sp = p["sp"]
            for ed, g in zip(sp.edges, got):
                want_obj = [ed.module, ed.qualname]
                if g != want_obj:
                    res.internal_errors.append({"what": "generator: CPython does not bind the spelled callee to the moved "
                                                "definition", "edge": ed.meta(), "cpython": g, "files": p["files"]})
            spec_reqs.append(("import_spec", {"modules": sp.spec_project(), "fuel": 12,
                                              "queries": [[e.importer, e.spelled] for e in sp.edges]}))
        for p, mo in zip(pairs, model.batch(spec_reqs)):
            if isinstance(mo, dict) and "__error__" in mo:
                res.internal_errors.append({"what": "spec driver error", "detail": mo})
                continue
            for ed, m in zip(p["sp"].edges, mo):
                if m is None or m[:3] != ["obj", ed.module, ed.qualname]:
                    res.internal_errors.append({"what": "Lean spec disagrees with CPython's binding", "edge": ed.meta(),
                                                "spec": m, "files": p["files"]})

        # ---- the pair oracle
        for p in pairs:
            o1, o2 = next(it), next(it)
            o3 = next(it) if p["twin"] is not None else None
            sp, ents = p["sp"], p["ents"]
            res.evaluations += 1
            forms = sorted({e.form for e in sp.edges})
            case = {"files": p["files"], "single": p["single_src"], "target": p["target"], "flags": p["flags"],
                    "edges": [e.meta() for e in sp.edges]}
            res.count("config:" + ("no-user-pattern" if not p["user"] else "toml" if p["via_toml"] else "cli-F"))
            for k in p["pattern_kinds"]:
                res.count("user-pattern:" + k)
            res.count("project-naming:" + nm.relation_tag(set(sp.modules), builtin, p["user"]))
            if sp.shadows:
                res.count("same-named-target-definitions", len(sp.shadows))
            if o1["outcome"] != "ok":
                res.internal_errors.append({"what": "single-file reference did not run", "out": o1, "source": p["single_src"]})
                continue
            if o2["outcome"] != "ok":
                exc = o2.get("exc", o2["outcome"].capitalize())
                sig = f"import-form-crash:{'+'.join(forms)}:{exc}"
                if o3 is not None and o3["outcome"] == "ok":
                    # the same project runs under neutral module names and without user patterns
                    sig = (f"not-excluded-module-treated-differently:"
                           f"{nm.relation_tag(set(sp.modules), builtin, p['user'])}:{exc}")
                res.count("outcome:" + sig)
                res.violations.append({"signature": sig, "case": case, "detail": o2})
                continue
            r1, r2 = o1["results"], o2["results"]
            by_caller = {}
            for e in sp.edges:
                by_caller.setdefault(e.u, []).append(e)

            def involved(fn):
                """the modules (and re-exporting hops) whose names matter for fn's answer"""
                if fn not in ents:
                    return set(sp.modules)
                out, todo = set(), [fn]
                while todo:
                    u = todo.pop()
                    for c in ents[u].calls:
                        out.add(sp.loc[c])
                        ed = next((e for e in sp.edges if e.v == c), None)
                        if ed is not None:
                            out.update(ed.hops)
                        todo.append(c)
                return out

            # ---- the naming / exclusion oracle: the same project under neutral module names and with no user
            #      pattern (no module of either version is excluded) must give the same answer, name for name
            twin_bad = set()
            if o3 is not None:
                res.count("twin:compared")
                if o3["outcome"] != "ok":
                    res.internal_errors.append({"what": "neutral twin did not run although the renamed project did",
                                                "out": o3, "files": p["neutral_files"]})
                else:
                    r3 = {f: {k: sorted(v) for k, v in e.items()} for f, e in o3["results"].items()}
                    r2n = {f: {k: sorted(v) for k, v in e.items()} for f, e in nm.rename_back(r2, p["mapping"]).items()}
                    for fn in sorted(set(r3) | set(r2n)):
                        if r3.get(fn) == r2n.get(fn):
                            continue
                        twin_bad.add(fn)
                        tag = nm.relation_tag(involved(fn), builtin, p["user"])
                        sig = f"not-excluded-module-treated-differently:{tag}"
                        res.count("verdict:" + sig)
                        res.violations.append({"signature": sig, "case": case, "function": fn, "patterns": p["user"],
                                               "builtin_patterns": builtin, "renaming": p["mapping"],
                                               "neutral_files": p["neutral_files"],
                                               "with_neutral_names_and_no_pattern": r3.get(fn), "as_given": r2n.get(fn)})
            for fn in sp.modules[sp.target_mod]["defs"]:
                if ents[fn].kind != "func" or fn in twin_bad:
                    continue
                if fn not in r1 or fn not in r2:
                    res.violations.append({"signature": "import-changes-answer:caller-missing-from-results", "case": case,
                                           "function": fn})
                    continue
                ref = {k: sorted(v) for k, v in r1[fn].items()}
                below = []

                def collect(u):
                    for c in ents[u].calls:
                        ed = next((e for e in sp.edges if e.v == c), None)
                        if ed is not None:
                            below.append(ed)
                        collect(c)

                collect(fn)
                got = normalise(r2[fn], by_caller.get(fn, []), below, ents)
                # walk the cross-module edges below fn, parents first
                failed, failed_local, judged = [], [], 0

                def walk(u, blocked, above=None):
                    nonlocal judged
                    for c in ents[u].calls:
                        ed = next((e for e in sp.edges if e.v == c), None)
                        if ed is None and not blocked and above is not None and sp.loc[c] != sp.target_mod:
                            # a local call inside a followed module (caller and callee moved together)
                            res.count(f"local-callee-in-followed-module:{ents[c].kind}")
                            res.nontrivial.add(common.digest(["local", above.form, ents[c].kind]))
                            if has_marks(ref, ents[c].marks) and not has_marks(got, ents[c].marks):
                                failed_local.append((above, c))
                                walk(c, True, above)
                                continue
                        if ed is not None and not blocked:
                            judged += 1
                            res.nontrivial.add(common.digest([ed.form, ed.kind, ed.depth, ed.chain]))
                            res.count(f"form:{ed.form}|{ed.kind}")
                            res.count(f"depth:{ed.depth}")
                            res.count(f"chain:{ed.chain}")
                            tag = nm.relation_tag([ed.module] + ed.hops, builtin, p["user"])
                            res.count("edge-naming:" + tag)
                            res.nontrivial.add(common.digest(["naming", tag, ed.form]))
                            want_marks = has_marks(ref, ents[c].marks)
                            if want_marks and not has_marks(got, ents[c].marks):
                                failed.append(ed)
                                res.count("skipped-below-a-failed-edge", sum(1 for _ in ents[c].calls))
                                walk(c, True, ed)
                                continue
                        walk(c, blocked, ed if ed is not None else above)

                walk(fn, False)
                if got == ref:
                    res.count("verdict:same")
                    continue
                if failed:
                    for ed in failed:
                        sig = f"import-form-not-followed:{ed.form}:{ed.kind}"
                        res.count("verdict:" + sig)
                        res.violations.append({"signature": sig, "case": {"_edge": ed.meta(), **case}, "function": fn,
                                               "edge": ed.meta(), "reference": ref, "split": got})
                if failed_local:
                    for ed, c in failed_local:
                        sig = f"import-changes-answer:{ed.form}:local-{ents[c].kind}-callee-of-followed-{ed.kind}-lost"
                        if c in sp.shadows and has_marks(got, {f"shadow_{c}"}):
                            # the target defines a function / class of the same name and signature, and ITS accesses
                            # appear in place of the callee's
                            sig = f"same-named-definition-confused:target-{ents[c].kind}-replaces-module-local-callee"
                        res.count("verdict:" + sig)
                        res.violations.append({"signature": sig, "case": {"_edge": ed.meta(), **case}, "function": fn,
                                               "lost_callee": c, "reference": ref, "split": got})
                if failed or failed_local:
                    continue
                # everything was followed, yet the answer differs: classify
                diff = {k: sorted(set(ref[k]) ^ set(got[k])) for k in ref if ref[k] != got[k]}
                cls_edges = [e for e in below if e.kind == "class"]
                names = [n for v in diff.values() for n in v]
                if cls_edges and all(any(re.search(rf"\.{m}\b", n) for e in cls_edges for m in ents[e.v].marks) for n in names):
                    for ed in cls_edges:
                        sig = f"import-changes-answer:{ed.form}:class-instance-argument"
                        res.count("verdict:" + sig)
                        res.violations.append({"signature": sig, "case": {"_edge": ed.meta(), **case}, "function": fn,
                                               "edge": ed.meta(), "reference": ref, "split": got})
                else:
                    sig = f"import-changes-answer:{'+'.join(sorted({e.form for e in below}))}:other"
                    res.count("verdict:" + sig)
                    res.violations.append({"signature": sig, "case": case, "function": fn, "diff": diff,
                                           "reference": ref, "split": got})
            res.sample({"target": p["target"], "edges": [e.meta() for e in sp.edges][:4],
                        "files": {k: v[:300] for k, v in list(p["files"].items())[:4]}}, cap=3)

        for p in ded:
            o1 = next(it) if p["single"] is not None else None
            o2 = next(it)
            res.evaluations += 1
            res.count(f"dedicated:{p['label']}:{o2['outcome']}")
            case = {"files": p["files"], "single": p["single_src"], "label": p["label"]}
            if o2["outcome"] != "ok":
                exc = o2.get("exc", o2["outcome"].capitalize())
                sig = (f"import-cycle-crash:{exc}" if p["label"] == "reexport-cycle" else f"import-form-crash:{p['form']}:{exc}")
                res.violations.append({"signature": sig, "case": case, "detail": o2})
                continue
            if o1 is None:
                continue
            if o1["outcome"] != "ok":
                res.internal_errors.append({"what": "dedicated single-file reference did not run", "out": o1})
                continue
            if p.get("exact"):
                # same-named definitions: every judged function's entry must equal the reference exactly
                for fn, role in p["exact"]:
                    ref = {k: sorted(v) for k, v in o1["results"].get(fn, {}).items()}
                    got = {k: sorted(v) for k, v in o2["results"].get(fn, {}).items()}
                    res.nontrivial.add(common.digest(["same-name", p["label"], role]))
                    if ref and ref == got:
                        res.count(f"dedicated:same-name:{p['label']}:{role}:same")
                        continue
                    sig = f"same-named-definition-confused:{p['label']}:{role}"
                    res.count("verdict:" + sig)
                    res.violations.append({"signature": sig, "case": case, "function": fn, "reference": ref, "split": got})
                continue
            ref = {k: sorted(v) for k, v in o1["results"][p["caller"]].items()}
            got = o2["results"].get(p["caller"], {})
            got = {k: sorted(v) for k, v in got.items()}
            got_names = {re.sub(r"^.*\.", "", n) for k in ("gets", "sets", "dels") for n in got.get(k, [])}
            ref_names = {re.sub(r"^.*\.", "", n) for k in ("gets", "sets", "dels") for n in ref.get(k, [])}
            if ref_names - got_names:
                sig = (f"import-form-not-followed:{p['form']}:{p['kind']}" +
                       (":module-name-occurs-in-callee-name" if p["label"] == "module-name-inside-callee-name" else ""))
                res.violations.append({"signature": sig, "case": case, "reference": ref, "split": got})
            else:
                res.count(f"dedicated:{p['label']}:same")

        # ---- correspondence: model vs the real call-site target and the real find_call_target_and_ir
        reqs, metas, bl_reqs, bl_metas, lc_reqs, lc_metas = [], [], [], [], [], []
        n_corr = len(pairs) if tier == "quick" else min(len(pairs), 400)
        for p in pairs[:n_corr]:
            sp = p["sp"]
            for e in sp.edges:
                e.assigned, e.arg = p["ents"][e.v].assigned, p["ents"][e.v].arg
            rows, err = correspondence(p["split"], p["target"], sp.edges, p["user"], blacklist_probes(rng, builtin, p["user"]))
            if rows is None:
                res.internal_errors.append({"what": "in-process analysis failed", "detail": err, "files": p["files"]})
                continue
            bl_reqs.append(("blacklist", {"patterns": err["patterns"], "names": err["names"]}))
            bl_metas.append((p, err))
            loc = err["local"]
            res.count("local-env:" + ("hypotheses-of-the-module-local-theorem-hold" if loc["wf"] else "hypotheses-do-not-hold"))
            if loc["calls"]:
                lc_reqs.append(("resolve_local", {**loc["env"], "calls": loc["calls"]}))
                lc_metas.append((p, loc))
            for ed, im, req in rows:
                if im is None:
                    res.skipped_outside_fragment += 1      # importer module never analysed (below a failed edge)
                    continue
                reqs.append(("resolve_import", req))
                metas.append((p, ed, im))
        for p in ded:
            if not p.get("exact"):
                continue
            rows, err = correspondence(p["split"], "target.py", [])
            if rows is None:
                res.internal_errors.append({"what": "in-process analysis failed (same-name row)", "detail": err, "files": p["files"]})
                continue
            loc = err["local"]
            res.count("local-env:" + ("hypotheses-of-the-module-local-theorem-hold" if loc["wf"] else "hypotheses-do-not-hold"))
            if loc["calls"]:
                lc_reqs.append(("resolve_local", {**loc["env"], "calls": loc["calls"]}))
                lc_metas.append(({"files": p["files"], "target": "target.py", "flags": []}, loc))
        for (p, ed, im), mo in zip(metas, model.batch(reqs)):
            res.evaluations += 1
            if "__error__" in mo:
                res.disagreements.append({"case": ed.meta(), "model": mo})
                continue
            mm = canon_model(mo, im["recordArgs"] is not None)
            res.count("resolve:" + im["outcome"]["k"] + (":" + str(im["outcome"].get("why")) if im["outcome"]["k"] == "none" else ""))
            if mm != im:
                res.disagreements.append({"case": {"edge": ed.meta(), "files": p["files"], "patterns": p["user"]},
                                          "impl": im, "model": mm})
        # ---- is_in_import_blacklist: model vs the real verdict, and the model vs CPython's `re` (the spec)
        for (p, v), mo in zip(bl_metas, model.batch(bl_reqs)):
            if isinstance(mo, dict) and "__error__" in mo:
                res.internal_errors.append({"what": "blacklist driver error", "detail": mo, "patterns": v["patterns"]})
                continue
            for (name, stdlib, origins), real, m in zip(v["names"], v["real"], mo):
                res.evaluations += 1
                subjects = [o for o in origins if o is not None] + [name]
                spec = (not name) or ((not stdlib) and any(re.fullmatch(x, o) for x in v["patterns"] for o in subjects))
                res.count(f"blacklist-verdict:{'excluded' if real else 'not-excluded'}")
                if m != spec:
                    res.internal_errors.append({"what": "Lean model of is_in_import_blacklist disagrees with CPython's re.fullmatch",
                                                "name": name, "patterns": v["patterns"], "model": m, "spec": spec})
                if m != real:
                    res.disagreements.append({"case": {"is_in_import_blacklist": name, "patterns": v["patterns"],
                                                       "stdlib": stdlib, "origins": origins,
                                                       "relation": nm.relation_tag([name], builtin, p["user"]) if name else "empty"},
                                              "impl": real, "model": m})
        # ---- local calls (Func / Class targets) in every analysed file: __resolve_target_and_ir, model vs real;
        #      and the module-local property itself on the real answer: the IR comes from the callee's own file
        for (p, loc), mo in zip(lc_metas, model.batch(lc_reqs)):
            if isinstance(mo, dict) and "__error__" in mo:
                res.disagreements.append({"case": {"resolve_local": loc["env"]}, "model": mo})
                continue
            if mo["wf"] != loc["wf"]:
                res.internal_errors.append({"what": "well-formedness of the environment: Lean criterion and harness disagree",
                                            "lean": mo["wf"], "harness": loc["wf"], "env": loc["env"]})
            for t, real, m in zip(loc["calls"], loc["real"], mo["out"]):
                res.evaluations += 1
                mm = {"k": "none"} if m["k"] == "error" else m
                same_named_elsewhere = any(k["name"] == t["name"] and k["kind"] == t["kind"] and k["file"] != t["file"]
                                           for ks in [loc["env"]["target"]] + [x[1] for x in loc["env"]["imports"]] for k in ks)
                res.count(f"local-call:{t['kind']}:{real['k']}" + (":same-named-definition-in-another-file" if same_named_elsewhere else ""))
                if same_named_elsewhere:
                    res.nontrivial.add(common.digest(["local-same-name", t["kind"], real["k"], real.get("inTarget")]))
                if mm != real:
                    res.disagreements.append({"case": {"local_call_target": t, "env": loc["env"], "files": p["files"]},
                                              "impl": real, "model": mm})
                if real["k"] == "found" and real["key"]["file"] != t["file"]:
                    sig = f"same-named-definition-confused:in-process:{t['kind']}-resolved-in-another-file"
                    res.count("verdict:" + sig)
                    res.violations.append({"signature": sig, "case": {"files": p["files"], "target": p["target"], "flags": p["flags"]},
                                           "callee": t, "resolved_to": real})
        # ---- the regex fragment itself: Lean `fullMatch` / `prefixMatch` vs CPython
        cases = regex_cases(rng, builtin, [x for p in pairs for x in p["user"]], [m for p in pairs[:40] for m in p["sp"].modules])
        out = model.batch([("regex", {"cases": cases})])[0]
        if isinstance(out, dict):
            res.internal_errors.append({"what": "regex driver error", "detail": out})
        else:
            for (src, subj), o in zip(cases, out):
                if o is None:
                    res.count("regex:outside-fragment")
                    continue
                res.count("regex:checked")
                exp = [re.fullmatch(src, subj) is not None, re.match(src, subj) is not None]
                if o != exp:
                    res.internal_errors.append({"what": "Lean regex fragment disagrees with CPython's re", "pattern": src,
                                                "subject": subj, "model": o, "cpython": exp})
        # ---- the MULTI-file pipeline model (`Pipeline2.run2`) vs the real run with imports followed
        from props import pipeline2
        pipeline2.run_pipeline2_stage(res, random.Random(seed + 7206), 40 if tier == "quick" else 500, model)
        res.extra["pairs"] = len(pairs)
        res.extra["uncovered_cells"] = len(want)
    finally:
        shutil.rmtree(tmp, ignore_errors=True)
    res.assumptions = [
        "pipeline2 stage: the whole multi-file pipeline model (target + import BFS + star expansion + location-aware call "
        "resolution + one shared store over all FileIrs) must reproduce the real in-process run (outcome, document, ordered "
        "diagnostics, import_irs keys, every FileIr after result generation) on generated 2-4 module projects; file-system "
        "facts (module name -> origin, blacklist / stdlib / pip verdicts, module_exists, derive_module_name_from_path) are "
        "per-case parameters computed by the real locator functions",
        "[interp] 'the same answer' = the results entry of every function that stays in the target file, with the callee "
        "spelling mapped back (calls) and without the module-path gets (`m.H` for `m.H.sm()`, `p.m` for `p.m.f()`) that "
        "rattr records for any dotted callee spelling",
        "[interp] the single-file version is the reference; programs come from the clean ProgGen fragment (forest call graph, "
        "bare-parameter arguments) so that the reference itself is well-defined (C03/C05 findings excluded)",
        "re-export cycles of a NAME (a: from b import f / b: from a import f) are not valid Python; only termination is demanded",
        "`import pkg; pkg.sub.f()` with nothing importing pkg.sub is not valid Python either (AttributeError); reported as a crash class",
        "follow level 1 (local modules); exclusion patterns are present but never match a generated module in full: what an "
        "excluded module does to the answer and the follow-level rungs are C12's",
        "[interp] 'a local module that rattr is configured to follow' = a local module none of whose names (full dotted name, "
        "full file path) is matched IN FULL by an exclusion pattern (Python re.fullmatch semantics, the documented meaning of "
        "-F PATTERN / exclude-imports and of the perennial patterns); such a module is followed exactly as if no pattern were "
        "given and as if it had any other name",
        "[interp] a function / class of a followed module that has the same name as a definition of the target (or of another "
        "followed module) is still that module's: every call binds as in Python, module-locally; the single-file reference has "
        "the clashing definitions renamed apart",
    ]
    return res


def replay(path):
    j = json.load(open(path))
    print(json.dumps(j, indent=1)[:8000])
    case = j.get("case") or {}
    files = case.get("files")
    if files:
        tmp = Path(tempfile.mkdtemp(prefix="rattr-c06-replay-"))
        try:
            write_project(tmp, files)
            print(json.dumps(run_cli(tmp, case.get("target", "target.py"), case.get("flags") or []), indent=1)[:4000])
        finally:
            shutil.rmtree(tmp, ignore_errors=True)
    return 0

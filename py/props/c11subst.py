"""C11, "callers inline those declared accesses and declared calls with normal argument substitution".

The marking matrix of `c11.py` (stream B) calls every annotated callable as `f(p.q)` against the parameter `z`:
argument names and parameter names are disjoint, so ANY substitution order gives the same answer.  This module
adds the class of inputs where the order matters, with CPython's own binding as the oracle (the idea of
`c04e2e.py`, applied to `@rattr_results` callables):

stream U (unit, in-process)   the real `parse_rattr_results_from_annotation` on a decorated def ; the real
        `construct_call_swaps` ; `unbind_ir_with_call_swaps`, for signatures over all five parameter kinds, declared
        gets / sets / dels rooted at SEVERAL parameters (plain, nested, subscripted, starred), calls whose arguments
        are (partly) a permutation of the callee's own parameter names, positionally and by keyword.  Model = Lean
        `Ann.parseResults` ; `Swaps.construct` ; `Results.unbindIr` (op `declared_unbind`); spec = Lean
        `Spec.Honoured.substDeclared` (simultaneous substitution); oracle = a real CPython call of a real function
        with that signature.

stream M (modules, end to end)   whole projects through `rattr.__main__.main` in-process (every module) and through
        the CLI in a subprocess (the fixed corpus + a sample), with the annotated callables
          * in the target file (follow-imports 0; also compared with the Lean pipeline model, op `pipeline`),
          * in a followed import, bound by `from c11lib import f` or called as `c11lib.f(...)` (follow-imports 1;
            also compared with the Lean multi-file pipeline model, op `pipeline2`).
        A module is a bag of scenarios; every scenario is one annotated callable (def / async def / class with an
        initialiser) whose declaration names accesses on several parameters and declares calls — to plain helper
        functions, to helpers that are annotated themselves, in the same file, and (target-file callables) across the
        import boundary — with the callable's own parameters as arguments, in an order that is a permutation of the
        HELPER's parameter names.  Callers (direct, through a plain intermediate function, recursive through the
        declared call) pass variables named like the callee's parameters, permuted / shifted / repeated, by position
        and by keyword.
        Oracle: the annotated callable's entry is exactly the declaration (with every declared call's callee
        substituted by CPython's binding of the declared arguments); a caller's marked names are exactly the
        declaration with every parameter replaced — simultaneously — by the argument CPython binds to it; nothing of
        the annotated callable's body shows up anywhere.
"""
from __future__ import annotations

import ast
import contextlib
import io
import json
import random
import re
import sys
import tempfile
import shutil
from pathlib import Path

sys.path.insert(0, str(Path(__file__).resolve().parent.parent))

import common  # noqa: E402
import impl  # noqa: E402
from props import c04e2e as e2e  # noqa: E402  (read-only reuse: signatures, calls, CPython binding, runners)

PARAMS = e2e.PARAMS                       # a..e : parameter names of callees AND helpers AND variable names of callers
CALLER_PARAMS = e2e.CALLER_PARAMS
LIB = "c11lib"
BUCKETS = ("gets", "sets", "dels")
SUFFIXES = ["", "", ".deep", "[]", "[].leaf"]


def _c04():
    from props import c04
    return c04


# ===================================================================== declarations


class Decl:
    """One callable as the oracle sees it: a signature, marked names rooted at its parameters, declared / real
    calls to other `Decl`s.  `annotated`: the names and calls are a `rattr_results` declaration and the body is
    unrelated; otherwise they ARE the body."""

    def __init__(self, name, sig, annotated, form="def"):
        self.name, self.sig, self.annotated, self.form = name, sig, annotated, form
        self.names = []          # (bucket, root parameter, rest of the name after the root, starred)
        self.calls = []          # (Decl, call {"args", "kwargs"}, python_bind result, spelling of the callee)

    def effective(self):
        """{bucket: {(starred, root, rest)}} of the callable's own entry: its names plus, for every call, the
        callee's effective names with each root replaced by the argument CPython binds to it."""
        out = {b: set() for b in BUCKETS}
        for b, p, rest, star in self.names:
            out[b].add((star, p, rest))
        for callee, call, pb, _ in self.calls:
            hold = dict((p, v) for p, v in pb[1])
            inner = callee.effective()
            for b in BUCKETS:
                for star, p, rest in inner[b]:
                    out[b].add((star, hold.get(p, p), rest))
        return out


def spell(star, root, rest):
    return ("*" if star else "") + root + rest


def substituted(eff, hold, vararg=None):
    """The simultaneous substitution: every root that is a bound parameter becomes its argument."""
    out = {}
    for b in BUCKETS:
        out[b] = set()
        for star, p, rest in eff[b]:
            new = "@Tuple" if (vararg is not None and p == vararg) else hold.get(p, p)
            out[b].add(spell(star, new, rest))
    return out


def simple_sig(names):
    return {"posonly": [], "args": [{"name": n, "default": False} for n in names], "vararg": None, "kwonly": [], "kwarg": None}


def gen_names(rng, d, tag, roots, dense=True):
    """marked names `<root>.<tag>_<root><suffix>` on several roots, spread over the three buckets"""
    for p in roots:
        k = rng.randint(1, 2) if dense else rng.randint(0, 1)
        for j in range(k):
            b = rng.choice(["gets", "gets", "sets", "dels"])
            rest = f".{tag}_{p}{j}" + rng.choice(SUFFIXES)
            star = rng.random() < 0.08
            d.names.append((b, p, rest, star))
    if not d.names and roots:
        d.names.append(("gets", roots[0], f".{tag}_{roots[0]}0", False))


def no_starred(d):
    d.names = [(b, p, rest, False) for b, p, rest, _ in d.names]


def gen_helper(rng, name, tag, annotated=False, inner=None):
    """a helper with 1-3 required positional-or-keyword parameters named from the same pool (so that the declared
    arguments of the caller are a permutation of ITS parameter names)"""
    ps = rng.sample(PARAMS, rng.randint(1, 3))
    h = Decl(name, simple_sig(ps), annotated)
    gen_names(rng, h, tag, ps)
    if not annotated:
        no_starred(h)                                        # a body cannot spell a starred access
    if inner is not None:
        add_call(rng, h, inner, inner.name)
    return h


def add_call(rng, d, callee, spelling, pool=None, tries=40):
    """a call of `callee` from `d` that CPython accepts; arguments = bare names from `pool` (default: d's named
    parameters), every required parameter bound, positionally or by keyword"""
    pool = list(pool or e2e.named(d.sig)) or ["g0"]
    ps = e2e.named(callee.sig)
    for _ in range(tries):
        npos = rng.randint(0, len(ps))
        vals = [rng.choice(pool) for _ in ps]
        if len(set(pool)) >= len(ps) and rng.random() < 0.6:
            vals = rng.sample(pool, len(ps))                 # injective: a true permutation / shift
        call = {"args": vals[:npos], "kwargs": [[p, v] for p, v in zip(ps[npos:], vals[npos:])]}
        rng.shuffle(call["kwargs"])
        pb = _c04().python_bind(callee.sig, call)
        if pb[0] == "ok":
            d.calls.append((callee, call, pb, spelling))
            return True
    return False


def decorator_text(d):
    def names(b):
        xs = sorted({spell(star, p, rest) for bb, p, rest, star in d.names if bb == b})
        return "{" + ", ".join(json.dumps(x) for x in xs) + "}" if xs else None
    parts = []
    for b in BUCKETS:
        t = names(b)
        if t is not None:
            parts.append(f"{b}={t}")
    if d.calls:
        specs = []
        for callee, call, _, spelling in d.calls:
            kw = "{" + ", ".join(f"{json.dumps(k)}: {json.dumps(v)}" for k, v in call["kwargs"]) + "}"
            specs.append(f"({json.dumps(spelling + '()')}, ({json.dumps(list(call['args']))}, {kw}))")
        parts.append("calls=[" + ", ".join(specs) + "]")
    return "@rattr_results(" + ", ".join(parts) + ")"


def header(sig, name, prefix="def", first=None):
    return e2e._header(sig, name, prefix, first)


def body_lines(d, tag):
    """the real body of a plain callable / the UNRELATED body of an annotated one"""
    if d.annotated:
        ps = e2e.named(d.sig)
        root = ps[0] if ps else "zz"
        return [f"{root}.body_{tag} = {root}.body_{tag}_r", f"return unrelated_{tag}.body_{tag}_g"]
    out = []
    for b, p, rest, star in d.names:
        x = p + rest.replace("[]", "[0]")
        out.append(e2e.ACCESS[b].format(x=x))
    for callee, call, _, spelling in d.calls:
        out.append(f"{spelling}({e2e.call_text(call)})")
    return out or ["pass"]


def define(d, tag):
    lines = []
    if d.form == "class":
        if d.annotated:
            lines.append(decorator_text(d))
        lines += [f"class {d.name}:", "    " + header(d.inner_sig, "__init__", first=d.selfn)]
        lines += ["        " + b for b in body_lines(d, tag)]
    else:
        if d.annotated:
            lines.append(decorator_text(d))
        lines.append(header(d.sig, d.name, "async def" if d.form == "async" else "def"))
        lines += ["    " + b for b in body_lines(d, tag)]
    return lines + [""]


# ===================================================================== scenarios


class Scenario:
    def __init__(self, i, kind):
        self.i, self.kind = i, kind
        self.lib = []            # lines for the file that holds the annotated callable (target or followed import)
        self.target_only = []    # lines that must be in the target file (annotated target callables of `xdecl`)
        self.imports = []        # names the target imports from the lib
        self.callers = []
        self.expect = []         # (results key, {bucket: set}, regex of the marked names, feature flags, what)
        self.own = []            # (results key, {bucket: set}, regex) — only checked when the key is a target function
        self.body_tags = []      # tags whose `body_<tag>` must never appear
        self.features = set()


def sc_annotated(rng, i, q, variant):
    """one annotated callable + its helpers + callers"""
    form = rng.choice(["def", "def", "def", "async", "class" if variant == "target" else "def"])
    sc = Scenario(i, "annotated:" + form)
    tag = f"m{i}"
    sig = e2e.gen_sig(rng, variadics=True)
    sig["kwarg"] = None                                    # `**kw` receiving nothing is C04's finding E3
    ps = e2e.named(sig)
    if form == "class":
        selfn = rng.choice(["self", "self", "this"])
        d = Decl(f"An{i}", e2e.with_self(sig, selfn), True, "class")
        d.inner_sig, d.selfn = sig, selfn
        gen_names(rng, d, tag, ps + [selfn])
        no_starred(d)
    else:
        d = Decl(f"an{i}", sig, True, form)
        gen_names(rng, d, tag, ps + ([sig["vararg"]] if sig["vararg"] and rng.random() < 0.5 else []))
    # declared calls: plain helper, annotated helper, helper calling a helper (two substitutions before the caller's)
    helpers = []
    n_calls = rng.choice([1, 1, 2, 2, 3]) if ps else 0
    for k in range(n_calls):
        style = rng.choice(["plain", "plain", "annotated", "nested"])
        inner = None
        if style == "nested":
            inner = gen_helper(rng, f"hh{i}_{k}", f"{tag}i{k}", annotated=rng.random() < 0.4)
            helpers.append(inner)
        h = gen_helper(rng, f"h{i}_{k}", f"{tag}h{k}", annotated=(style == "annotated"), inner=inner)
        helpers.append(h)
        if add_call(rng, d, h, h.name, pool=ps):
            sc.features.add("declared-call:" + style)
    for h in helpers:
        sc.lib += define(h, h.name)
        if h.annotated:
            sc.body_tags.append(h.name)
    sc.lib += define(d, tag)
    sc.body_tags.append(tag)
    sc.imports = [d.name]
    eff = d.effective()
    mark = rf"\.{tag}(?:[hi]\d+)?_\w+(?:\.deep|\[\]|\[\]\.leaf)?$"
    sc.own.append((d.name, {b: {spell(*x) for x in eff[b]} for b in BUCKETS}, mark))
    callee = q(d.name)
    # ---- direct callers
    for j in range(rng.randint(2, 3)):
        if form == "class":
            call, _ = e2e.gen_call(rng, sig, "ok")
            if call is None:
                continue
            target = rng.choice(["inst", "o.field", "t[0]", "o.a.b"])
            tsp = e2e.spelled(target) if target else "@X"
            pb = _c04().python_bind(d.sig, {"args": [tsp] + list(call["args"]), "kwargs": call["kwargs"]})
            if pb[0] != "ok":
                continue
            text = f"{callee}({e2e.call_text(call)})"
            stmt = f"{target} = {text}" if target else text
            hold = e2e.holders(d.sig, pb)
            want = substituted(eff, hold)
            if target is None:
                want = {b: {n for n in want[b] if not n.startswith("@X")} for b in BUCKETS}
                sc.features.add("class:not-stored")
            fn = f"mk{i}_{j}"
            sc.callers += e2e._caller(fn, [stmt])
            allowed_extra = r"^@X" if target is None else None
        else:
            call, pb = e2e.gen_call(rng, sig, "ok")
            if call is None:
                continue
            text = f"{callee}({e2e.call_text(call)})"
            if form == "async":
                text = "await " + text
            fn = f"use{i}_{j}"
            stmt = rng.choice([text, f"return {text}", f"r = {text}"])
            lines = e2e._caller(fn, [stmt])
            if form == "async":
                lines[0] = "async " + lines[0]
            sc.callers += lines
            hold = e2e.holders(sig, pb)
            want = substituted(eff, hold, vararg=sig["vararg"])
            allowed_extra = None
        overlap = any(e2e.spelled(a).split(".")[0].split("[")[0] in ps for a in list(call["args"]) + [v for _, v in call["kwargs"]])
        feats = {"arguments-overlap-parameter-names" if overlap else "arguments-disjoint-from-parameters"}
        if call["kwargs"]:
            feats.add("by-keyword")
        sc.features |= feats
        sc.expect.append((fn, want, mark, feats, {"call": text, "python_binding": sorted(hold.items()), "allowed_extra": allowed_extra}))
    # ---- through a plain intermediate function that permutes once more
    if form == "def" and ps and rng.random() < 0.6:
        mid = Decl(f"mid{i}", simple_sig(rng.sample(PARAMS, rng.randint(2, 4))), False)
        mps = e2e.named(mid.sig)
        call, pb = None, None
        for _ in range(30):
            c, p = e2e.gen_call(rng, sig, "ok", permute=True)
            if c is None:
                continue
            vals = list(c["args"]) + [v for _, v in c["kwargs"]]
            if all(v in mps for v in vals):
                call, pb = c, p
                break
        if call is not None:
            mid.calls.append((d, call, pb, callee))
            sc.callers += define(mid, mid.name)
            top_call, top_pb = e2e.gen_call(rng, mid.sig, "ok")
            if top_call is not None:
                fn = f"top{i}"
                text = f"{mid.name}({e2e.call_text(top_call)})"
                sc.callers += e2e._caller(fn, [text])
                meff = mid.effective()
                # the vararg of the annotated callable becomes @Tuple at the first hop
                if sig["vararg"]:
                    meff = {b: {(s, "@Tuple" if p == sig["vararg"] else p, r) for s, p, r in meff[b]} for b in BUCKETS}
                want = substituted(meff, e2e.holders(mid.sig, top_pb))
                sc.features.add("through-plain-intermediate")
                sc.expect.append((fn, want, mark, {"arguments-overlap-parameter-names", "through-plain-intermediate"},
                                  {"call": text, "via": f"{mid.name} -> {callee}({e2e.call_text(call)})", "allowed_extra": None}))
                sc.expect.append((mid.name, substituted(meff, {}), mark, {"arguments-overlap-parameter-names", "through-plain-intermediate"},
                                  {"call": f"{callee}({e2e.call_text(call)})", "allowed_extra": None}))
    return sc


def sc_xdecl(rng, i, q, variant):
    """(import variants) an annotated callable in the TARGET whose declared call crosses the import boundary, the
    declared arguments being a permutation of the imported helper's parameter names"""
    sc = Scenario(i, "annotated-in-target:declared-call-into-import")
    tag = f"m{i}"
    ps = rng.sample(PARAMS, rng.randint(2, 4))
    d = Decl(f"tx{i}", simple_sig(ps), True)
    gen_names(rng, d, tag, ps, dense=False)
    h = gen_helper(rng, f"xh{i}", f"{tag}h0", annotated=rng.random() < 0.5)
    add_call(rng, d, h, q(h.name), pool=ps)
    sc.lib = define(h, h.name)
    if h.annotated:
        sc.body_tags.append(h.name)
    sc.body_tags.append(tag)
    sc.imports = [h.name]
    sc.target_only = define(d, tag)
    eff = d.effective()
    mark = rf"\.{tag}(?:[hi]\d+)?_\w+(?:\.deep|\[\]|\[\]\.leaf)?$"
    sc.own.append((d.name, {b: {spell(*x) for x in eff[b]} for b in BUCKETS}, mark))
    for j in range(2):
        call, pb = e2e.gen_call(rng, d.sig, "ok")
        if call is None:
            continue
        fn = f"ux{i}_{j}"
        text = f"{d.name}({e2e.call_text(call)})"
        sc.callers += e2e._caller(fn, [text])
        hold = e2e.holders(d.sig, pb)
        overlap = any(e2e.spelled(a).split(".")[0].split("[")[0] in ps for a in list(call["args"]) + [v for _, v in call["kwargs"]])
        feats = {"arguments-overlap-parameter-names" if overlap else "arguments-disjoint-from-parameters", "declared-call-into-import"}
        sc.features |= feats
        sc.expect.append((fn, substituted(eff, hold), mark, feats, {"call": text, "python_binding": sorted(hold.items()), "allowed_extra": None}))
    return sc


def sc_fixed(i, q, variant):
    """The textbook instance, in every module: `transfer(src, dst, log)` style — three parameters, the swapped, the
    shifted and the fresh call, by position and by keyword (names from the shared pool)."""
    sc = Scenario(i, "annotated:def")
    tag = f"m{i}"
    d = Decl(f"an{i}", simple_sig(["a", "b", "c"]), True)
    d.names = [("gets", "a", f".{tag}_a0", False), ("gets", "c", f".{tag}_c0", False), ("sets", "b", f".{tag}_b0", False),
               ("dels", "a", f".{tag}_a1", False), ("sets", "c", f".{tag}_c1[]", False)]
    h = Decl(f"h{i}_0", simple_sig(["b", "a"]), False)
    h.names = [("sets", "b", f".{tag}h0_b0", False), ("gets", "a", f".{tag}h0_a0", False)]
    call = {"args": ["a", "b"], "kwargs": []}
    d.calls.append((h, call, _c04().python_bind(h.sig, call), h.name))
    sc.lib = define(h, h.name) + define(d, tag)
    sc.body_tags.append(tag)
    sc.imports = [d.name]
    eff = d.effective()
    mark = rf"\.{tag}(?:[hi]\d+)?_\w+(?:\.deep|\[\]|\[\]\.leaf)?$"
    sc.own.append((d.name, {b: {spell(*x) for x in eff[b]} for b in BUCKETS}, mark))
    calls = [("fresh", {"args": ["o", "t", "u"], "kwargs": []}), ("swapped", {"args": ["b", "a", "u"], "kwargs": []}),
             ("shifted", {"args": ["b", "c", "o"], "kwargs": []}), ("rotated", {"args": ["c", "a", "b"], "kwargs": []}),
             ("swapped-by-keyword", {"args": [], "kwargs": [["b", "a"], ["a", "b"], ["c", "u"]]}),
             ("shifted-mixed", {"args": ["b"], "kwargs": [["c", "o"], ["b", "c"]]})]
    for label, call in calls:
        pb = _c04().python_bind(d.sig, call)
        fn = f"use{i}_{label.replace('-', '_')}"
        text = f"{q(d.name)}({e2e.call_text(call)})"
        sc.callers += e2e._caller(fn, [text])
        hold = e2e.holders(d.sig, pb)
        feats = {"arguments-disjoint-from-parameters" if label == "fresh" else "arguments-overlap-parameter-names"}
        if call["kwargs"]:
            feats.add("by-keyword")
        sc.features |= feats
        sc.expect.append((fn, substituted(eff, hold), mark, feats, {"call": text, "python_binding": sorted(hold.items()), "allowed_extra": None}))
    return sc


class Module:
    __slots__ = ("variant", "files", "target", "scenarios", "follow")


def gen_module(rng, variant, n_scen=4):
    q = (lambda n: LIB + "." + n) if variant == "module-import" else (lambda n: n)
    scs = [sc_fixed(0, q, variant)]
    for i in range(1, n_scen):
        if variant != "target" and rng.random() < 0.25:
            scs.append(sc_xdecl(rng, i, q, variant))
        else:
            scs.append(sc_annotated(rng, i, q, variant))
    m = Module()
    m.variant, m.scenarios, m.target = variant, scs, "target.py"
    m.follow = 0 if variant == "target" else 1
    hdr = ["from rattr.analyser.annotations import rattr_results", ""]
    lib, tgt, only = [], [], []
    for s in scs:
        lib += s.lib
        tgt += s.callers
        only += s.target_only
    if variant == "target":
        parts = [lib, tgt] if rng.random() < 0.5 else [tgt, lib]
        m.files = {"target.py": "\n".join(hdr + parts[0] + parts[1]) + "\n"}
    else:
        names = sorted({n for s in scs for n in s.imports})
        head = hdr + ([f"import {LIB}", ""] if variant == "module-import" else [f"from {LIB} import {', '.join(names)}", ""])
        m.files = {f"{LIB}.py": "\n".join(hdr + lib) + "\n", "target.py": "\n".join(head + only + tgt) + "\n"}
    return m


# ===================================================================== oracle


def where_of(m):
    return "same-file" if m.variant == "target" else "followed-import"


def judge_module(m, run, through):
    out = []
    base = {"stage": "module", "variant": m.variant, "through": through, "follow_imports": m.follow, "files": m.files}
    if run.get("outcome", "ok") != "ok" or run.get("doc") is None:
        return [{"signature": f"declared-substitution:run-failed:{run.get('outcome')}:{where_of(m)}", "case": base, "detail": run.get("exc")}]
    doc = run["doc"]
    wh = where_of(m)
    for s in m.scenarios:
        # --- nothing of an annotated body anywhere
        for tag in s.body_tags:
            for key, e in doc.items():
                hits = [n for b in BUCKETS for n in e[b] if f"body_{tag}" in n]
                if hits:
                    out.append({"signature": f"declared-substitution:annotated-body-analysed:{wh}", "case": base, "function": key, "names": hits})
                    break
        # --- the annotated callable's own entry (when it is a target function)
        for key, want, mark in s.own:
            if key not in doc:
                if m.variant == "target" or s.target_only:
                    out.append({"signature": f"declared-substitution:annotated-callable-missing:{wh}", "case": base, "function": key})
                continue
            for b in BUCKETS:
                have = {n for n in doc[key][b] if re.search(mark, n)}
                if have != want[b]:
                    out.append({"signature": f"declared-substitution:own-entry-not-exactly-declared:{s.kind}:{wh}", "case": base,
                                "function": key, "set": b, "expected": sorted(want[b]), "got": sorted(have), "definition": s.lib + s.target_only})
                    break
        # --- callers
        for fn, want, mark, feats, info in s.expect:
            if fn not in doc:
                out.append({"signature": f"declared-substitution:caller-missing-from-results:{wh}", "case": base, "function": fn})
                continue
            for b in BUCKETS:
                have = {n for n in doc[fn][b] if re.search(mark, n)}
                if info.get("allowed_extra"):
                    have = {n for n in have if not re.search(info["allowed_extra"], n)}
                if have == want[b]:
                    continue
                names = "argument-spelled-like-a-parameter" if "arguments-overlap-parameter-names" in feats else "plain-arguments"
                hm = re.compile(r"\.m\d+[hi]\d+_")
                only_helper = {n for n in have ^ want[b]} and all(hm.search(n) for n in have ^ want[b])
                what = "declared-call" if only_helper else "declared-names"
                extra = ":through-plain-intermediate" if "through-plain-intermediate" in feats else ""
                out.append({"signature": f"declared-substitution:caller-names-differ-from-python-binding:{what}:{names}{extra}:{wh}",
                            "case": base, "function": fn, "set": b, "scenario": s.kind, "expected": sorted(want[b]), "got": sorted(have),
                            "call": info["call"], "python_binding": info.get("python_binding"), "via": info.get("via"),
                            "definition": s.lib + s.target_only})
                break
    return out


# ===================================================================== stream M


def module_stage(res, rng, n, model, cli_sample=3):
    from props import filelib, pipeline, pipeline2
    from rattr.analyser.util import is_excluded_name

    variants = ["target", "from-import", "module-import"]
    fixed = random.Random(0xC11)
    mods = [gen_module(fixed, v) for v in variants]
    n_fixed = len(mods)
    mods += [gen_module(rng, variants[k % 3]) for k in range(n)]
    root = Path(tempfile.mkdtemp(prefix="rattr-c11s-")).resolve()
    live = []
    try:
        for k, m in enumerate(mods):
            project = root / f"p{k}"
            pipeline2.write_project(project, m.files)
            res.evaluations += 1
            res.count("M:variant:" + m.variant)
            for s in m.scenarios:
                res.count("M:scenario:" + s.kind)
                for f in s.features:
                    res.count("M:feature:" + f)
                res.count("M:callers-judged", len(s.expect))
            payload, pc = None, None
            if m.variant == "target":
                fc = filelib.run_case(project, m.target, m.files[m.target], excluded=pipeline.EXCLUDE,
                                      excluded_imports=pipeline.EXCLUDE_IMPORTS)
                if fc.skipped is None:
                    payload = fc.payload
                else:
                    res.skipped_outside_fragment += 1
                    res.count("M:model-skipped:" + fc.skipped[:40])
                run = e2e.real_run(project, m.target, 0)
            else:
                pc = pipeline2.PCase()
                pc.files, pc.target, pc.meta = m.files, m.target, {}
                pc.skipped = pc.diff = pc.mo = pc.mo_rev = pc.im = None
                pc.rounds = 0
                pc.project, pc.target_arg = project, m.target
                pc.facts = pipeline2.Facts(project, m.target)
                pc.facts.seed()
                if pc.facts.skipped is not None:
                    res.skipped_outside_fragment += 1
                    res.count("M:model-skipped:" + str(pc.facts.skipped)[:40])
                    pc = None
                run = pipeline2.real_pipeline2(project, m.target)
                if pc is not None:
                    pc.im = run
            res.nontrivial.add(common.digest(m.files))
            vs = judge_module(m, run, "in-process")
            res.count("M:verdict:" + ("holds" if not vs else "violated"))
            res.violations += vs
            if k < 2 or len(res.samples) < 6:
                res.sample({"stream": "M", "variant": m.variant, "files": m.files}, cap=10)
            live.append((m, project, payload, pc, run))

        # ---- correspondence with the Lean single-file pipeline model (same-file variant, follow-imports 0)
        tl = [x for x in live if x[2] is not None]
        outs = model.batch([("pipeline", x[2]) for x in tl])
        tl2 = []
        for (m, project, payload, pc, run), mo in zip(tl, outs):
            if "__error__" in mo:
                res.disagreements.append({"case": {"stage": "module-model", "files": m.files}, "diff": "model error: " + str(mo["__error__"])})
                continue
            with impl.in_dir(str(project)):
                impl.reset_config(target=Path(m.target), _excluded_names=list(pipeline.EXCLUDE), _follow_imports_level=0,
                                  _excluded_imports=list(pipeline.EXCLUDE_IMPORTS))
                ex = set(payload["facts"]["excluded"]) | {x for x in mo.get("callTargets", []) if is_excluded_name(x)}
                payload = {**payload, "facts": {**payload["facts"], "excluded": sorted(ex)},
                           "imports": [[qn, pipeline.import_fact(qn)] for qn in mo.get("needImports", [])]}
            pipeline._drop_config()
            tl2.append((m, project, payload, run))
        outs = model.batch([("pipeline", p) for _, _, p, _ in tl2])
        rev = model.batch([("pipeline", {**p, "ties": "reversed"}) for _, _, p, _ in tl2])

        def proj(x):
            st = [{k: (sorted(map(tuple, v)) if isinstance(v, list) else v) for k, v in e.items()} for e in (x.get("store") or [])]
            return (x.get("outcome"), x.get("doc"), x.get("diags"), st)

        for (m, project, payload, run), mo, mr in zip(tl2, outs, rev):
            if "__error__" in mo:
                res.disagreements.append({"case": {"stage": "module-model", "files": m.files}, "diff": "model error: " + str(mo["__error__"])})
                continue
            if mo.get("outcome") == "crash" and str(mo.get("exc", "")).startswith("Outside:"):
                res.skipped_outside_fragment += 1
                res.count("M:model-skipped:" + mo["exc"])
                continue
            if mo.get("maxTie", 0) >= 3 or ("__error__" not in mr and proj(mo) != proj(mr)):
                res.skipped_outside_fragment += 1
                res.count("M:model-skipped:hash-order of equal-named calls matters")
                continue
            res.count("M:compared-with-pipeline-model")
            res.count("M:pipeline-model:resolvable-call-edges", mo.get("edges", 0))
            d = pipeline.compare(run, mo)
            if d is not None:
                res.disagreements.append({"case": {"stage": "module-model", "files": m.files}, "diff": d[:2000]})

        # ---- correspondence with the Lean multi-file pipeline model (followed-import variants)
        pcs = [x[3] for x in live if x[3] is not None]
        pipeline2.run_model(pcs, model)
        for c in pcs:
            mo = c.mo
            if c.facts.skipped is not None:
                res.skipped_outside_fragment += 1
                res.count("M:model-skipped:" + str(c.facts.skipped)[:40])
                continue
            if "__error__" in mo:
                res.disagreements.append({"case": {"stage": "module-model2", "files": c.files}, "diff": "model error: " + str(mo["__error__"])[:500]})
                continue
            if mo.get("outcome") == "crash" and str(mo.get("exc", "")).startswith("Outside:"):
                res.skipped_outside_fragment += 1
                res.count("M:model-skipped:" + mo["exc"])
                continue
            if mo.get("maxTie", 0) >= 2:
                res.skipped_outside_fragment += 1
                res.count("M:model-skipped:hash-order of equal-named calls may matter")
                continue
            res.count("M:compared-with-pipeline2-model")
            res.count("M:pipeline2-model:cross-module-edges", mo.get("crossEdges", 0))
            d = pipeline2.compare(c.im, mo)
            if d is not None:
                res.disagreements.append({"case": {"stage": "module-model2", "files": c.files}, "diff": d[:2000]})

        # ---- the real CLI in a subprocess: the whole fixed corpus + a sample
        order = list(range(n_fixed, len(live)))
        rng.shuffle(order)
        picked = list(range(n_fixed)) + order[:cli_sample]
        for k in picked:
            m, project, _, _, run = live[k]
            cli = e2e.cli_run(project, m.target, m.follow, hashseed=rng.randrange(1, 1000))
            res.evaluations += 1
            res.count("M:cli:exit:" + str(cli["exit"]))
            res.violations += judge_module(m, cli, "cli")
            if run.get("outcome") == "ok" and cli["outcome"] == "ok" and cli["doc"] != run["doc"]:
                fn = next(f for f in sorted(set(cli["doc"]) | set(run["doc"])) if cli["doc"].get(f) != run["doc"].get(f))
                res.disagreements.append({"case": {"stage": "module-cli", "files": m.files},
                                          "diff": f"CLI document[{fn}] = {cli['doc'].get(fn)} but in-process {run['doc'].get(fn)}"})
    finally:
        shutil.rmtree(root, ignore_errors=True)


# ===================================================================== stream U: the substitution, unit level

U_SUFFIX = ["", ".x", ".x.y", ".x[]", ".m().n", ".v[].w"]
U_ROOT_SUFFIX = ["[]", "()", "[].x", "().x"]           # `[]` / `()` directly on the root variable


def py_root(s):
    """CPython string operations only: the root variable of a spelling and what follows it."""
    star = s.startswith("*")
    body = s[1:] if star else s
    m = re.match(r"[^.\[(]*", body)
    return star, m.group(0), body[m.end():]


def unit_stage(res, rng, n, model):
    """`parse_rattr_results_from_annotation` ; `construct_call_swaps` ; `unbind_ir_with_call_swaps`: real code vs
    Lean (`parseResults` ; `Swaps.construct` ; `unbindIr`) vs the Lean spec (`substDeclared`) vs CPython's binding."""
    from props import c11
    from props import visitlib as vl
    from rattr.analyser.util import parse_rattr_results_from_annotation
    from rattr.config.state import enter_file
    from rattr.models.symbol import Call, CallArguments, CallInterface, Func
    from rattr.results import construct_call_swaps
    from rattr.results._simplify_utils import unbind_ir_with_call_swaps

    c04 = _c04()
    impl.reset_config(target=vl.TARGET)
    _, ctx = vl.prepare(c11.CTX_SRC)
    cases = []
    while len(cases) < n:
        sig = e2e.gen_sig(rng)
        call, pb = e2e.gen_call(rng, sig, "ok")
        if call is None:
            continue
        call = {"args": [e2e.spelled(a) for a in call["args"]], "kwargs": [[k, e2e.spelled(v)] for k, v in call["kwargs"]]}
        pb = c04.python_bind(sig, call)
        roots = e2e.named(sig) + [x for x in (sig["vararg"],) if x] + rng.sample(["g", "zz", "@Tuple", "o"], rng.randint(0, 2))
        decl = {b: set() for b in BUCKETS}
        bracket_root = False
        for p in roots:
            for _ in range(rng.randint(1, 2)):
                if rng.random() < 0.02:
                    suffix = rng.choice(U_ROOT_SUFFIX)
                    bracket_root = True
                else:
                    suffix = rng.choice(U_SUFFIX)
                star = "*" if rng.random() < 0.1 else ""
                decl[rng.choice(["gets", "gets", "sets", "dels"])].add(star + p + suffix)
        kws = [(b, ("set", [("str", x) for x in sorted(decl[b])])) for b in BUCKETS if decl[b]]
        if rng.random() < 0.5:
            ps = e2e.named(sig)
            kws.append(("calls", ("list", [("tuple", [("str", "helper()"), ("tuple", [("list", [("str", x) for x in ps[:1]]), ("dict", [])])])])))
        rng.shuffle(kws)
        cases.append((sig, call, pb, decl, c11.deco_src([], kws), bracket_root))

    reqs, metas = [], []
    for sig, call, pb, decl, deco, bracket_root in cases:
        src = f"@{deco}\n" + c04.py_source(sig) + "\n"
        fn = ast.parse(src).body[0]
        d = fn.decorator_list[0]
        with impl.Tap() as tap, enter_file(vl.TARGET), contextlib.redirect_stdout(io.StringIO()):
            out = impl.outcome_of(parse_rattr_results_from_annotation, fn, context=ctx)
        case = {"stage": "declared-unbind", "source": src, "call": call}
        if out[0] != "ok":
            res.evaluations += 1
            res.violations.append({"signature": f"wellformed-annotation-rejected:unit:{out[0]}", "case": case})
            continue
        ir = out[1]
        with enter_file(vl.TARGET):
            func = Func(name="callee", interface=CallInterface(
                posonlyargs=[p["name"] for p in sig["posonly"]], args=[p["name"] for p in sig["args"]],
                vararg=sig["vararg"], kwonlyargs=[p["name"] for p in sig["kwonly"]], kwarg=sig["kwarg"]))
            c = Call(name="callee", args=CallArguments(args=call["args"], kwargs=dict(map(tuple, call["kwargs"]))))
        with impl.Tap() as tap:
            out = impl.outcome_of(lambda: unbind_ir_with_call_swaps(ir, construct_call_swaps(func, c)))
        reqs.append(("declared_unbind", {"pos": [], "kws": [[k.arg, c11.enc_lit(k.value)] for k in d.keywords], "sig": sig, "call": call}))
        metas.append((sig, call, pb, decl, case, bracket_root, out, bool(tap.events), ir))
    outs = model.batch(reqs)

    def canon(x):
        return {b: sorted(map(list, {tuple(n) for n in x[b]})) for b in BUCKETS}

    for (sig, call, pb, decl, case, bracket_root, out, diagnosed, ir), mo in zip(metas, outs):
        res.evaluations += 1
        res.nontrivial.add(common.digest(case))
        overlap = bool({a.split(".")[0].split("[")[0] for a in list(call["args"]) + [v for _, v in call["kwargs"]]} & set(e2e.named(sig)))
        res.count("U:arguments-overlap-parameter-names" if overlap else "U:arguments-disjoint-from-parameters")
        if bracket_root:
            res.count("U:declared-name-with-brackets-on-the-root")
        if out[0] != "ok":
            res.violations.append({"signature": f"declared-substitution:unit:crash:{out[1]}", "case": case})
            continue
        got = {b: sorted([x.name, x.basename] for x in out[1][b]) for b in BUCKETS}
        if out[1]["calls"] != ir["calls"]:
            res.violations.append({"signature": "declared-substitution:unit:declared-calls-changed-by-unbinding", "case": case})
        if "__error__" in mo or mo.get("parse") != "ok" or mo["model"].get("outcome") != "ok":
            res.disagreements.append({"case": case, "impl": got, "model": mo})
            continue
        if canon(mo["model"]["ir"]) != got:
            res.disagreements.append({"case": case, "impl": got, "model": canon(mo["model"]["ir"])})
        if diagnosed:
            continue                                       # an accepted call that is diagnosed is C04's business
        # ---- oracle: CPython's binding applied to the root variable of every declared spelling, all at once
        hold = e2e.holders(sig, pb)
        want, origin = {}, {}
        for b in BUCKETS:
            want[b] = set()
            for s_ in decl[b]:
                star, root, rest = py_root(s_)
                if root == sig["vararg"]:
                    new = "@Tuple"
                elif root == sig["kwarg"]:
                    new = "@Dict" if pb[3] else root
                else:
                    new = hold.get(root, root)
                want[b].add((("*" if star else "") + new + rest, new))
                # keyed by the (name, base) pair: two declared spellings may spell the same expected NAME with different bases
                origin.setdefault((b, ("*" if star else "") + new + rest, new), []).append(rest[:1] in ("[", "("))
            want[b] = sorted(map(list, want[b]))
        # the Lean spec is handed the model's swaps; it must agree with CPython wherever the swaps are CPython's binding
        spec = canon(mo["spec"]["subst"]) if mo.get("spec") else None
        if spec != want and not (sig["kwarg"] and not pb[3]):
            res.internal_errors.append({"what": "Spec.substDeclared disagrees with the CPython oracle", "case": case, "spec": spec, "python": want})
            continue
        if got == want:
            res.count("U:holds")
            continue
        bad = next(b for b in BUCKETS if got[b] != want[b])
        # WHICH declared spellings did not arrive: all of them with `[]` / `()` directly on the root variable?
        missing = [(b, x[0], x[1]) for b in BUCKETS for x in want[b] if x not in got[b]]
        only_brackets = bool(missing) and all(all(origin[m]) for m in missing)
        if only_brackets:
            sig_ = "declared-substitution:declared-name-with-subscript-or-call-on-the-root-not-substituted"
        else:
            sig_ = "declared-substitution:unit:name-not-rebound-to-exactly-its-argument:" + \
                ("argument-spelled-like-a-parameter" if overlap else "arguments-disjoint-from-parameters")
        res.count("U:verdict:" + sig_)
        res.violations.append({"signature": sig_, "case": case, "set": bad, "expected": want[bad], "got": got[bad], "python_binding": pb[1]})


# ===================================================================== replay


def replay_case(j):
    from props import pipeline2
    case = j["case"]
    if case.get("stage") == "declared-unbind":
        print(json.dumps(j, indent=1)[:4000])
        return 0
    root = Path(tempfile.mkdtemp(prefix="rattr-c11sr-")).resolve()
    try:
        pipeline2.write_project(root, case["files"])
        for rel, text in case["files"].items():
            print(f"# ---- {rel}\n{text}")
        if case.get("through") == "cli":
            run = e2e.cli_run(root, "target.py", case["follow_imports"])
        else:
            run = e2e.real_run(root, "target.py", case["follow_imports"])
    finally:
        shutil.rmtree(root, ignore_errors=True)
    print("signature:", j["signature"])
    fn = j.get("function")
    if "expected" in j:
        print("function", fn, "set", j["set"], "call", j.get("call"), "\n python binding", j.get("python_binding"),
              "\n expected", j["expected"], "\n recorded", j["got"])
        if run.get("doc") and fn in run["doc"]:
            print(" now (all names of the set)", run["doc"][fn][j["set"]])
    return 0


if __name__ == "__main__":      # development aid: python py/props/c11subst.py [seed] [n]
    import collections
    import time
    import warnings

    warnings.simplefilter("ignore")
    seed = int(sys.argv[1]) if len(sys.argv) > 1 else 0
    n = int(sys.argv[2]) if len(sys.argv) > 2 else 9
    res = common.Result("DEV")
    t0 = time.time()
    mdl = common.Model()
    unit_stage(res, random.Random(seed + 7), 400, mdl)
    t1 = time.time()
    print("unit wall", round(t1 - t0, 1))
    module_stage(res, random.Random(seed), n, mdl)
    print(json.dumps(res.distribution, indent=1, sort_keys=True))
    print("evaluations", res.evaluations, "disagreements", len(res.disagreements), "violations", len(res.violations),
          "skipped", res.skipped_outside_fragment, "wall", round(time.time() - t0, 1))
    for d in res.disagreements[:3]:
        print("=" * 80, "\nDISAGREEMENT", json.dumps(d, indent=1)[:3000])
    print(collections.Counter((v["signature"], v.get("case", {}).get("through")) for v in res.violations))
    seen = set()
    for v in res.violations:
        if v["signature"] in seen:
            continue
        seen.add(v["signature"])
        vv = {k: x for k, x in v.items() if k != "case"}
        print("=" * 80, "\nVIOLATION", json.dumps(vv, indent=1, default=str)[:2500])
        if len(seen) <= 2 and "files" in v["case"]:
            for rel, text in v["case"]["files"].items():
                print(f"# ---- {rel}\n{text}")

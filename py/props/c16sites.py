"""C16, site-directed stage: programs built from a corpus of constructs, one (or more) per
diagnostic-emitting call site of rattr, placed in the target AND in a deep followed import (six
path components below the project root, itself importing a deeper second-level module), run under
all 16 settings of -w / -H / -T and several strict / threshold settings.

* `sites()`            every `error.<level>(...)` call site of the repo under test (Tie A: the same
                        scan feeds `Generated.C16.diagSites`; theorem `C16_sites_classified`).
* `CORPUS`             constructs; each names the site it was written for (documentation only: the
                        coverage report is computed from the sites the tap REALLY saw).
* `SiteProject`        a project on disk from a list of (construct, place).
* `reach_map(...)`     construct -> set of rattr functions it executes (sys.setprofile), used when the
                        reader table has a new entry: the constructs that reach the new reader are
                        searched first and exhaustively (single-construct programs x all settings).

Nothing here is a verdict by itself: c16.py's oracle judges the runs.
"""
from __future__ import annotations

import os
import sys
import threading
from pathlib import Path

import diag_common as dc

# ------------------------------------------------------------------------------------------------
# the diagnostic call sites of the repo under test
# ------------------------------------------------------------------------------------------------


def sites():
    from tables.diagscan import diagnostic_sites
    return [s for s in diagnostic_sites() if s["file"] != "rattr/error/error.py"]


def site_id(s):
    return f"{s['file']}::{s['fn']}::{s['level']}#{s['k']}"


def site_index():
    """(absolute file, line) -> site id, for every line of every call expression."""
    from tables.diagscan import repo_root
    root = repo_root()
    ix = {}
    for s in sites():
        for ln in range(s["lineno"], s["end_lineno"] + 1):
            ix.setdefault((str(root / s["file"]), ln), site_id(s))
    return ix


# ------------------------------------------------------------------------------------------------
# corpus
# ------------------------------------------------------------------------------------------------
# kind "fn":  a snippet defining the function {p}_f{n}(a) (and whatever it needs); `entry` True
#             means a caller in the importing file calls {p}_f{n}(a) (so that result simplification
#             descends into it).
# kind "mod": a module-level snippet (no entry).
# `fatal`: the construct ends the run (one per program, last).
# `site`: the site it was written for.

def C(cid, kind, src, site, fatal=False, entry=True, only=None):
    return dict(id=cid, kind=kind, src=src, site=site, fatal=fatal, entry=entry and kind == "fn", only=only)


CORPUS = [
    # ---- rattr/analyser/function.py
    C("undefined_name", "fn", "def {p}_f{n}(a):\n    return {p}_undef{n}.x\n", "function.py get_and_verify_name warning"),
    C("class_not_stored", "fn", "class {p}_K{n}:\n    def __init__(self, v):\n        self.v = v\n\ndef {p}_f{n}(a):\n    {p}_K{n}(a)\n    return a\n",
      "function.py visit_Call warning"),
    C("lambda_in_function", "fn", "def {p}_f{n}(a):\n    g{n} = lambda q: q.z\n    return a\n", "function.py visit_LambdaAssign error"),
    C("lambda_multi_in_function", "fn", "def {p}_f{n}(a):\n    g{n}, k{n} = lambda q: q.z, 1\n    return a\n",
      "function.py visit_LambdaAssign fatal#0", fatal=True),
    C("namedtuple_multi_in_function", "fn", "from collections import namedtuple\n\ndef {p}_f{n}(a):\n    P{n}, k{n} = namedtuple('P{n}', ['x']), 1\n    return a\n",
      "function.py visit_NamedTupleAssign fatal", fatal=True),
    C("namedtuple_bad_in_function", "fn", "from collections import namedtuple\n\ndef {p}_f{n}(a):\n    P{n} = namedtuple('P{n}', a.fields)\n    return a\n",
      "function.py visit_NamedTupleAssign error"),
    C("class_assign_multi", "fn", "class {p}_K{n}:\n    def __init__(self, v):\n        self.v = v\n\ndef {p}_f{n}(a):\n    x{n}, y{n} = {p}_K{n}(a), 1\n    return a\n",
      "function.py visit_ClassAssign fatal", fatal=True),
    C("nested_def", "fn", "def {p}_f{n}(a):\n    def inner{n}():\n        pass\n    return a\n", "function.py visit_AnyFunctionDef error#0"),
    C("anonymous_lambda", "fn", "def {p}_f{n}(a):\n    return map(lambda q: q.z, a.items{n})\n", "function.py visit_AnyFunctionDef error#1"),
    C("lambda_called_in_place", "fn", "def {p}_f{n}(a):\n    return (lambda q: q.z)(a)\n", "_context.py get_call_target info#0"),
    C("nested_class", "fn", "def {p}_f{n}(a):\n    class Inner{n}:\n        pass\n    return a\n", "function.py visit_ClassDef error"),
    C("global_stmt", "fn", "def {p}_f{n}(a):\n    global G{n}\n    return a\n", "function.py visit_Global fatal", fatal=True),
    C("nonlocal_stmt", "fn", "def {p}_f{n}(a):\n    def inner{n}():\n        nonlocal a\n    return a\n", "function.py visit_Nonlocal fatal", fatal=True),
    C("local_import", "fn", "def {p}_f{n}(a):\n    import math\n    return a\n", "function.py visit_Import fatal", fatal=True),
    C("local_import_from", "fn", "def {p}_f{n}(a):\n    from math import pi\n    return a\n", "function.py visit_ImportFrom fatal", fatal=True),
    # ---- rattr/analyser/cls.py
    C("two_inits", "mod", "class {p}_K{n}:\n    def __init__(self, v):\n        self.v = v\n    def __init__(self, v, w):\n        self.w = w\n", "cls.py init_method_or_none error"),
    C("async_init", "mod", "class {p}_K{n}:\n    async def __init__(self, v):\n        self.v = v\n", "cls.py init_method_or_none fatal", fatal=True),
    # ---- rattr/analyser/file.py (module level)
    C("deleted_function", "mod", "def {p}_gone{n}(a):\n    return a.x\n\ndel {p}_gone{n}\n", "file.py visit_AnyFunctionDef error + _root_context visit_Delete warning"),
    C("module_lambda_multi", "mod", "{p}_l{n}, {p}_m{n} = lambda q: q.z, 1\n", "_root_context visit_assignment error#0 + file.py visit_LambdaAssign fatal", fatal=True),
    C("module_namedtuple_multi", "mod", "from collections import namedtuple\n{p}_P{n}, {p}_m{n} = namedtuple('{p}_P{n}', ['x']), 1\n",
      "_root_context visit_assignment error#1 + file.py visit_NamedTupleAssign fatal", fatal=True),
    C("module_namedtuple_bad", "mod", "from collections import namedtuple\n{p}_P{n} = namedtuple('{p}_P{n}', {p}_fields{n})\n",
      "_root_context visit_assignment error#2"),
    C("module_anonymous_lambda", "mod", "(lambda q: q.z)\n", "_root_context visit_Expr error#0 + file.py visit_Lambda fatal", fatal=True),
    C("module_expression", "mod", "{p}_v{n} = 1\n{p}_v{n} + 2\n", "_root_context visit_Expr error#1"),
    C("module_del", "mod", "{p}_v{n} = 1\ndel {p}_v{n}\n", "_root_context visit_Delete warning"),
    C("module_walrus", "mod", "if ({p}_w{n} := ({p}_u{n} := 1, {p}_y{n} := 2)):\n    pass\n", "_root_context visit_assignment error#3"),
    C("deleted_lambda", "mod", "{p}_l{n} = lambda q: q.z\ndel {p}_l{n}\n", "file.py visit_LambdaAssign error + _root_context visit_Delete warning"),
    C("module_lambda", "mod", "{p}_l{n} = lambda q: q.z\n", "(no diagnostic: named module-level lambda)"),
    # ---- rattr/analyser/util.py, rattr/ast/_util.py: getattr family
    C("getattr_literal", "fn", "def {p}_f{n}(a):\n    return getattr(a, 'lit{n}')\n", "(no diagnostic: literal name)"),
    C("getattr_dynamic", "fn", "def {p}_f{n}(a, k):\n    return getattr(a, k)\n", "util.py get_xattr_obj_name_pair error"),
    C("setattr_dynamic", "fn", "def {p}_f{n}(a, k):\n    setattr(a, k, 1)\n    return a.id{n}\n", "util.py get_xattr_obj_name_pair error"),
    C("hasattr_dynamic", "fn", "def {p}_f{n}(a, k):\n    return hasattr(a, k.name)\n", "util.py get_xattr_obj_name_pair error"),
    C("delattr_dynamic", "fn", "def {p}_f{n}(a, k):\n    delattr(a, 'pre' + k)\n    return a\n", "util.py get_xattr_obj_name_pair error"),
    C("getattr_nested_dynamic", "fn", "def {p}_f{n}(a, k):\n    return getattr(getattr(a, k), 'inner{n}')\n", "util.py get_xattr_obj_name_pair error (nested)"),
    C("getattr_result_dynamic", "fn", "def {p}_f{n}(a, k):\n    return getattr(a, k).x{n}\n", "(ast/_util.py, warn off: no diagnostic)"),
    C("getattr_too_few_in_name", "fn", "def {p}_f{n}(a):\n    return getattr(a).x{n}\n", "ast/_util.py get_python_attr_access_fn_obj_attr_pair fatal#0", fatal=True),
    C("getattr_on_call_in_name", "fn", "def {p}_f{n}(a):\n    return getattr(a.m{n}(), 'y').x\n", "ast/_util.py get_python_attr_access_fn_obj_attr_pair fatal#1", fatal=True),
    C("getattr_too_few", "fn", "def {p}_f{n}(a):\n    return getattr(a)\n", "util.py get_xattr_obj_name_pair fatal#0", fatal=True),
    C("getattr_on_call", "fn", "def {p}_f{n}(a):\n    return getattr(a.m{n}(), 'x')\n", "util.py get_xattr_obj_name_pair fatal#1", fatal=True),
    # ---- annotations
    C("duplicate_ignore", "fn", "from rattr.analyser.annotations import rattr_ignore\n\n@rattr_ignore\n@rattr_ignore\ndef {p}_f{n}(a):\n    return a.x\n",
      "(no diagnostic: has_annotation only)", entry=False),
    C("duplicate_results", "fn", "from rattr.analyser.annotations import rattr_results\n\n@rattr_results(gets={{'a.x'}})\n@rattr_results(gets={{'a.y'}})\ndef {p}_f{n}(a):\n    return a.x\n",
      "util.py get_annotation fatal", fatal=True, entry=False),
    C("results_ok", "fn", "from rattr.analyser.annotations import rattr_results\n\n@rattr_results(gets={{'a.given{n}'}})\ndef {p}_f{n}(a):\n    return a.x\n",
      "(no diagnostic: rattr_results honoured)"),
    C("results_dict_unpack", "fn", "from rattr.analyser.annotations import rattr_results\n\n@rattr_results(calls=[('g()', (['a'], {{**{{}}}}))])\ndef {p}_f{n}(a):\n    return a.x\n",
      "util.py safe_eval fatal#0", fatal=True, entry=False),
    C("results_not_literal", "fn", "from rattr.analyser.annotations import rattr_results\n\n@rattr_results(gets={{a_name{n}}})\ndef {p}_f{n}(a):\n    return a.x\n",
      "util.py safe_eval fatal#1", fatal=True, entry=False),
    C("results_positional", "fn", "from rattr.analyser.annotations import rattr_results\n\n@rattr_results({{'a.x'}})\ndef {p}_f{n}(a):\n    return a.x\n",
      "util.py parse_rattr_results_from_annotation_args_impl fatal#1", fatal=True, entry=False),
    C("results_unknown_kw", "fn", "from rattr.analyser.annotations import rattr_results\n\n@rattr_results(fetches={{'a.x'}})\ndef {p}_f{n}(a):\n    return a.x\n",
      "util.py parse_rattr_results_from_annotation_args_impl fatal#2", fatal=True, entry=False),
    C("results_invalid", "fn", "from rattr.analyser.annotations import rattr_results\n\n@rattr_results(gets=['a.x', 1])\ndef {p}_f{n}(a):\n    return a.x\n",
      "util.py parse_rattr_results_from_annotation fatal", fatal=True, entry=False),
    C("namedtuple_three_args", "mod", "from collections import namedtuple\n{p}_P{n} = namedtuple('{p}_P{n}', ['x'], rename=True)\n{p}_Q{n} = namedtuple('{p}_Q{n}')\n",
      "util.py get_namedtuple_attrs_from_call fatal#0", fatal=True),
    C("namedtuple_bad_second", "mod", "from collections import namedtuple\n{p}_P{n} = namedtuple('{p}_P{n}', 'x y!')\n",
      "util.py get_namedtuple_attrs_from_call fatal#1", fatal=True),
    # ---- rattr/models/symbol/_util.py
    C("starred_argument", "fn", "def {p}_g{n}(x, y):\n    return x.gx\n\ndef {p}_f{n}(a):\n    return {p}_g{n}(*a)\n", "symbol/_util.py arg_name error"),
    C("dict_unpack_argument", "fn", "def {p}_g{n}(x, y):\n    return x.gx\n\ndef {p}_f{n}(a):\n    return {p}_g{n}(**a)\n", "symbol/_util.py kwarg_name fatal", fatal=True),
    # ---- rattr/models/context/_context.py get_call_target
    C("call_on_literal", "fn", "def {p}_f{n}(a):\n    return 'sep{n}'.join(a.parts)\n", "_context.py get_call_target info#0"),
    C("call_on_subscript_member", "fn", "def {p}_f{n}(a):\n    return a[0].run{n}()\n", "_context.py get_call_target info#1"),
    C("call_on_subscript", "fn", "def {p}_f{n}(a):\n    return a[0]()\n", "_context.py get_call_target error#0"),
    C("method_call", "fn", "def {p}_f{n}(a):\n    return a.meth{n}()\n", "_context.py get_call_target info#2"),
    C("undefined_callee", "fn", "def {p}_f{n}(a):\n    return {p}_nowhere{n}(a)\n", "_context.py get_call_target warning"),
    C("method_call_on_call", "fn", "def {p}_f{n}(a):\n    return a.m{n}()()\n", "_context.py get_call_target info#2"),
    C("call_on_call", "fn", "def {p}_g{n}(x):\n    return x.gx\n\ndef {p}_f{n}(a):\n    return {p}_g{n}(a)()\n", "_context.py get_call_target error#1"),
    C("procedural_parameter", "fn", "def {p}_f{n}(a, cb):\n    return cb(a.item{n})\n", "_context.py get_call_target error#2"),
    C("call_module_constant", "fn", "{p}_CONST{n} = 1\n\ndef {p}_f{n}(a):\n    return {p}_CONST{n}(a)\n", "_context.py get_call_target error#3/#4"),
    C("call_module_member_name", "fn", "{p}_OBJ{n} = object()\n\ndef {p}_f{n}(a):\n    return {p}_OBJ{n}.go(a)\n", "_context.py get_call_target info#3"),
    C("call_local_variable", "fn", "def {p}_f{n}(a):\n    loc{n} = a.thing\n    return loc{n}(a)\n", "_context.py get_call_target error#2"),
    # ---- imports at module level (_root_context.py / file.py parse_and_analyse_imports)
    C("import_two_modules", "mod", "import os, string\n", "_root_context.py visit_Import info"),
    # (a relative import that cannot be resolved is an uncaught exception in an imported module or in
    # a target outside the module search path: C07's subject; here only where it is a diagnostic)
    C("relative_starred_missing", "mod", "from .nonexistent{n} import *\n", "_root_context.py visit_starred_relative_import error", fatal=True, only="target_in_root"),
    C("relative_missing", "mod", "from .nonexistent{n} import thing{n}\n", "_root_context.py visit_relative_import error", fatal=True, only="target_in_root"),
    C("starred_missing_module", "mod", "from nonexistent_star_{p}{n} import *\n", "_root_context.py error_starred_import_outside_init warning + make_import_symbol fatal", fatal=True),
    C("import_missing_module", "mod", "import nonexistent_module_{p}{n}\n", "_root_context.py make_import_symbol fatal", fatal=True),
    C("starred_import", "fn", "from flatmod import *\n\ndef {p}_f{n}(a):\n    return fm_leaf(a.v{n})\n", "_root_context.py error_starred_import_outside_init warning"),
    C("starred_blacklisted_missing", "mod", "from ghostmod_{p}{n} import *\n", "_context.py expand_starred_imports error#0 (+ file.py parse_and_analyse_imports error#0)"),
    C("starred_stdlib", "mod", "from math import *\n", "_context.py expand_starred_imports error#1"),
    C("import_builtin_module", "mod", "import sys\n", "file.py parse_and_analyse_imports error#2 (badness 0)"),
    # ---- result simplification: calls from one analysed function into another
    C("call_sibling", "fn", "def {p}_g{n}(x):\n    return x.sib{n}\n\ndef {p}_f{n}(a):\n    return {p}_g{n}(a.arg{n})\n", "(no diagnostic: sibling call resolved)"),
    C("call_sibling_chain", "fn", "def {p}_g{n}(x):\n    return x.leaf{n}\n\ndef {p}_m{n}(x):\n    return {p}_g{n}(x.mid{n})\n\ndef {p}_f{n}(a):\n    return {p}_m{n}(a.top{n})\n",
      "(no diagnostic: chain of sibling calls)"),
    C("call_sibling_class", "fn", "class {p}_K{n}:\n    def __init__(self, v):\n        self.v = v.w{n}\n\ndef {p}_f{n}(a):\n    k = {p}_K{n}(a)\n    return k\n",
      "(no diagnostic: sibling class initialiser resolved)"),
    C("call_deeper", "fn", "from {deeper} import d_leaf\n\ndef {p}_f{n}(a):\n    return d_leaf(a.via{n})\n", "(no diagnostic: call into the next import level)"),
    C("call_deeper_module", "fn", "import {deeper} as dm{n}\n\ndef {p}_f{n}(a):\n    return dm{n}.d_leaf(a.via{n})\n", "(no diagnostic: module-qualified call into the next import level)"),
    C("call_deeper_sibling", "fn", "from {deeper} import d_calls_sibling\n\ndef {p}_f{n}(a):\n    return d_calls_sibling(a.via{n})\n",
      "(no diagnostic: callee in the next import level calls its own sibling)"),
    C("call_deeper_class", "fn", "from {deeper} import d_Klass\n\ndef {p}_f{n}(a):\n    k = d_Klass(a)\n    return k\n", "(no diagnostic: class of the next import level)"),
    C("call_too_many_args", "fn", "def {p}_g{n}(x):\n    return x.s{n}\n\ndef {p}_f{n}(a):\n    return {p}_g{n}(a, a, a)\n", "_simplify_utils.py construct_call_swaps error#1"),
    C("call_unexpected_kw", "fn", "def {p}_g{n}(x):\n    return x.s{n}\n\ndef {p}_f{n}(a):\n    return {p}_g{n}(a, zz{n}=a)\n", "_simplify_utils.py construct_call_swaps error#2"),
    C("call_position_and_name", "fn", "def {p}_g{n}(x):\n    return x.s{n}\n\ndef {p}_f{n}(a):\n    return {p}_g{n}(a, x=a)\n", "_simplify_utils.py construct_call_swaps error#3"),
    C("call_posonly_short", "fn", "def {p}_g{n}(x, y, /):\n    return x.s{n}\n\ndef {p}_f{n}(a):\n    return {p}_g{n}(a)\n", "_simplify_utils.py construct_call_swaps error#0"),
    C("call_ignored_sibling", "fn", "from rattr.analyser.annotations import rattr_ignore\n\n@rattr_ignore\ndef {p}_g{n}(x):\n    return x.s{n}\n\ndef {p}_f{n}(a):\n    return {p}_g{n}(a)\n",
      "_find_call_target.py resolve_function error#1"),
    C("call_excluded_sibling", "fn", "def excl_{p}{n}(x):\n    return x.s{n}\n\ndef {p}_f{n}(a):\n    return excl_{p}{n}(a)\n", "_find_call_target.py resolve_function error#0"),
    C("call_sibling_member", "fn", "def {p}_g{n}(x):\n    return x.s{n}\n\ndef {p}_f{n}(a):\n    return {p}_g{n}.attr(a)\n", "_find_call_target.py resolve_function info"),
    C("call_nested_class_init", "fn", "def {p}_f{n}(a):\n    class {p}_In{n}:\n        pass\n    k = {p}_In{n}()\n    return k\n", "function.py visit_ClassDef error (+ init)"),
    C("call_stdlib", "fn", "from math import sqrt\n\ndef {p}_f{n}(a):\n    return sqrt(a.v{n})\n", "_find_call_target.py resolve_import info#2"),
    C("call_stdlib_module", "fn", "import math\n\ndef {p}_f{n}(a):\n    return math.sqrt(a.v{n})\n", "_find_call_target.py resolve_import info#2"),
    C("call_pip", "fn", "from attrs import evolve\n\ndef {p}_f{n}(a):\n    return evolve(a.v{n})\n", "_find_call_target.py resolve_import info#1"),
    C("call_deeper_ignored", "fn", "from {deeper} import d_ignored\n\ndef {p}_f{n}(a):\n    return d_ignored(a)\n", "_find_call_target.py resolve_import error#0"),
    C("call_deeper_missing", "fn", "from {deeper} import d_missing{n}\n\ndef {p}_f{n}(a):\n    return d_missing{n}(a)\n", "_find_call_target.py resolve_import error#1"),
    C("call_deeper_method", "fn", "from pkgx.la.lb.lc.ld.le import deeper as dmod{n}\n\ndef {p}_f{n}(a):\n    return dmod{n}.d_leaf.meth{n}(a)\n", "_find_call_target.py resolve_import info#3"),
    C("call_excluded_class", "fn", "class excl_K{p}{n}:\n    def __init__(self, v):\n        self.v = v\n\ndef {p}_f{n}(a):\n    k = excl_K{p}{n}(a)\n    return k\n",
      "_find_call_target.py resolve_class_init error"),
    C("call_deeper_constant", "fn", "from {deeper} import D_CONST\n\ndef {p}_f{n}(a):\n    return D_CONST(a)\n", "_find_call_target.py resolve_import error#1"),
    C("call_deeper_reexport", "fn", "from {deeper} import d_reexported\n\ndef {p}_f{n}(a):\n    return d_reexported(a.v{n})\n", "(resolve_import through an Import symbol of the imported module)"),
    C("plain", "fn", "def {p}_f{n}(a):\n    return a.attr{n}\n", "(no diagnostic)"),
]

BY_ID = {c["id"]: c for c in CORPUS}

DEEPEST_SRC = (
    "from math import floor as d_reexported\n"
    "from rattr.analyser.annotations import rattr_ignore\n\n"
    "D_CONST = 1\n\n"
    "def d_sibling(x):\n    return x.dsib\n\n"
    "def d_leaf(x):\n    return x.dleaf\n\n"
    "def d_calls_sibling(x):\n    return d_sibling(x.dmid)\n\n"
    "@rattr_ignore\ndef d_ignored(x):\n    return x.y\n\n"
    "class d_Klass:\n    def __init__(self, v):\n        self.v = v.dw\n\n"
)


EXTRA_ARGV = ["-x", "excl_.*", "-F", "ghostmod_.*"]


class SiteProject:
    """Project with three files: the target (outside the project root, absolute argument, under a
    fake $HOME), `helper` six components below the root and `deeper` seven components below it.

        $HOME/work/proj/pyproject.toml
        $HOME/work/proj/pkgx/la/lb/lc/ld/helper.py          (followed import of the target)
        $HOME/work/proj/pkgx/la/lb/lc/ld/le/deeper.py       (followed import of helper AND target)
        $HOME/src/da/db/dc/dd/target.py    or   $HOME/work/proj/tgt/ta/tb/tc/td/target.py

    items: list of (construct id, place) with place in {"target", "import"}; a construct placed in
    the import with an entry function gets a caller in the target (style per item: "name" =
    `from helper import h_fN`, "module" = `import helper as hm` + `hm.h_fN(a)`).
    """

    HELPER_MOD = "pkgx.la.lb.lc.ld.helper"
    DEEPER_MOD = "pkgx.la.lb.lc.ld.le.deeper"

    def __init__(self, base: Path, items, target_in_root=False, call_style="name", follow=None):
        self.base = base
        self.items = [tuple(i) for i in items]
        self.layout = "sites-in-root" if target_in_root else "sites"
        self.call_style = call_style
        self.target_in_root = target_in_root
        self.follow = follow
        self.argv_pre = list(EXTRA_ARGV) + (["-f", str(follow)] if follow is not None else [])
        self.home = base / "home" / "user"
        self.cwd = self.root = self.home / "work" / "proj"
        d = self.root / "pkgx"
        d.mkdir(parents=True)
        (d / "__init__.py").write_text("")
        for part in ("la", "lb", "lc", "ld", "le"):
            d = d / part
            d.mkdir()
            (d / "__init__.py").write_text("")
        self.helper_path = self.root / "pkgx" / "la" / "lb" / "lc" / "ld" / "helper.py"
        self.deeper_path = self.root / "pkgx" / "la" / "lb" / "lc" / "ld" / "le" / "deeper.py"
        if target_in_root:
            tdir = self.root / "tgt" / "ta" / "tb" / "tc" / "td"
            tdir.mkdir(parents=True)
            self.target_path = tdir / "target.py"
            self.target_arg = "tgt/ta/tb/tc/td/target.py"
        else:
            tdir = self.home / "src" / "da" / "db" / "dc" / "dd"
            tdir.mkdir(parents=True)
            self.target_path = tdir / "target.py"
            self.target_arg = str(self.target_path)
        t, h = self.render()
        self.target_path.write_text(t)
        self.helper_path.write_text(h)
        self.deeper_path.write_text("\n" * (2 * dc.IMPORT_PAD) + DEEPEST_SRC)
        (self.root / "flatmod.py").write_text("\n" * (3 * dc.IMPORT_PAD) + "def fm_leaf(x):\n    return x.fm\n")
        (self.root / "pyproject.toml").write_text("[tool.rattr]\n")

    def render(self):
        t_head, t_body, h_head, h_body, callers = [], [], [], [], []
        names = []
        for n, (cid, place) in enumerate(self.items, start=1):
            c = BY_ID[cid]
            p = "t" if place == "target" else "h"
            src = c["src"].format(p=p, n=n, deeper=self.DEEPER_MOD)
            # hoist the construct's own import lines to the head of its file
            head = [l for l in src.splitlines() if l.startswith(("from ", "import ")) and c["kind"] == "fn"]
            body = "\n".join(l for l in src.splitlines() if l not in head).strip("\n") + "\n\n"
            (t_head if place == "target" else h_head).extend(h for h in head)
            (t_body if place == "target" else h_body).append(body)
            if place == "import" and c["entry"]:
                names.append(f"h_f{n}")
                extra = ", a" if "(a, k)" in src or "(a, cb)" in src else ""
                if self.call_style == "module":
                    callers.append(f"def t_c{n}(a):\n    return hm.h_f{n}(a{extra})\n\n")
                else:
                    callers.append(f"def t_c{n}(a):\n    return h_f{n}(a{extra})\n\n")
        if self.call_style == "module":
            t_imp = [f"import {self.HELPER_MOD} as hm"]
        else:
            t_imp = [f"from {self.HELPER_MOD} import h_base" + "".join(", " + x for x in names)]
        dedup = lambda ls: list(dict.fromkeys(ls))  # noqa: E731
        target = "\n".join(dedup(t_imp + t_head)) + "\n\n" + "def t_base(x):\n    return x.tattr\n\n" + "".join(t_body) + "".join(callers)
        helper = "\n" * dc.IMPORT_PAD + "\n".join(dedup(h_head)) + "\n\n" + "def h_base(x):\n    return x.hattr\n\n" + "".join(h_body)
        return target, helper


    def describe(self):
        return {"site_items": [list(i) for i in self.items], "target_in_root": self.target_in_root,
                "call_style": self.call_style, "follow": self.follow}

    @classmethod
    def from_description(cls, base, d):
        return cls(base, d["site_items"], target_in_root=d.get("target_in_root", False),
                   call_style=d.get("call_style", "name"), follow=d.get("follow"))


def argv_for(cfg, project, output="results", follow=None):
    a = dc.argv_for(cfg, project.target_arg, output)
    pre = list(EXTRA_ARGV)
    if follow is not None:
        pre += ["-f", str(follow)]
    return pre + a


def usable(c, place, target_in_root):
    if c["only"] == "target_in_root":
        return place == "target" and target_in_root
    if c["only"] == "target":
        return place == "target"
    return True


def sink_items(place_of, target_in_root=False):
    """Every non-fatal construct, placed by `place_of(construct)`."""
    out = []
    for c in CORPUS:
        if c["fatal"]:
            continue
        pl = place_of(c)
        if usable(c, pl, target_in_root):
            out.append((c["id"], pl))
    return out


# ------------------------------------------------------------------------------------------------
# which rattr functions does a program execute? (only used for the directed search)
# ------------------------------------------------------------------------------------------------

def traced_functions(project, argv):
    """Set of (repo-relative file, qualified function name) of every rattr function entered while
    analysing `project`."""
    from tables.diagscan import repo_root
    root = str(repo_root()) + os.sep
    seen = set()

    def prof(frame, event, arg):
        if event == "call":
            co = frame.f_code
            fn = co.co_filename
            if fn.startswith(root):
                seen.add((fn[len(root):], co.co_qualname))

    sys.setprofile(prof)
    threading.setprofile(prof)
    try:
        dc.run_inprocess(project, argv)
    finally:
        sys.setprofile(None)
        threading.setprofile(None)
    return seen

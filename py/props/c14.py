"""C14 — generating results does not change the intermediate representation."""
from __future__ import annotations

import json
import random

import common
import impl
from props import resultslib as rl
from props import c03

PID = "C14"
# features of a call graph that make a second generation over the mutated IR differ
ORDER_FEATURES = ["compound-argument", "same-call-on-two-paths", "cycle"]

from rattr.models.util import serialise_irs
from rattr.results import generate_results_from_ir


def ir_doc(file_ir):
    return serialise_irs(target_name="target.py", target_ir=file_ir, import_irs={})


def run(tier, seed, build):
    res = common.Result(PID)
    res.rule = ("programs from the C03 generator + corpus; the REAL FileIr is serialised (serialise_irs) before and after "
                "the real generate_results_from_ir, results are generated twice from the same IR; the Lean model is run for "
                "two rounds over one store and must reproduce results and post-run IR of both rounds. Multi-file stage "
                "(props/c14multi.py): generated projects (target + modules + a package) whose calls reach every branch of "
                "find_call_target_and_ir / resolve_import from the target and from inside a followed import (callee ignored, "
                "excluded, undefined, a method, re-exported, a class, a static method, a lambda, a variable, in a stdlib / excluded "
                "module; 6 import forms; follow level 0/1, --exclude-import); serialise_irs over ALL FileIrs + a deep structural "
                "snapshot before / after one / after two generations, the CLI's `-o ir` on a sample; the Lean project model "
                "resolves every call itself and must reproduce resolution, results and every set of every module. "
                "non-trivial = distinct program with >= 1 resolvable call (multi-file: >= 1 call resolved across a module boundary)")
    rng = random.Random(seed)
    n = 300 if tier == "quick" else 4000
    programs = list(c03.CORPUS)
    for i in range(n):
        programs.append((f"rand{i}", rl.ProgGen(rng, clean=(i % 3 == 0)).build()[0]))
    model = common.Model()
    batch, metas = [], []
    for label, src in programs:
        res.evaluations += 1
        out = impl.outcome_of(rl.analyse_source, src)
        if out[0] != "ok":
            res.skipped_outside_fragment += 1
            continue
        file_ir = out[1]
        snap = rl.snapshot(file_ir)
        if any(not (k is None or isinstance(k, int)) for _, k in snap["resolve"]):
            res.skipped_outside_fragment += 1
            continue
        # the real thing, on the real object (a private deep copy of it)
        work = rl.copy_file_ir(file_ir)
        before = ir_doc(work)
        impl.Config().state.current_file = None
        # option combinations must not matter: a third of the programs run under a non-zero badness
        # threshold (simplification-time errors accumulate badness across generations)
        if len(metas) % 3 == 1:
            impl.Config().arguments.threshold = rng.choice([1, 5, 7, 10, 12])
            res.count("config:threshold-set")
        with impl.Tap():
            o1 = impl.outcome_of(generate_results_from_ir, target_ir=work, import_irs={})
        mid = ir_doc(work)
        with impl.Tap():
            o2 = impl.outcome_of(generate_results_from_ir, target_ir=work, import_irs={})
        after = ir_doc(work)
        im2 = rl.run_impl(file_ir, rounds=2)
        batch.append(("results", {**snap, "rounds": 2}))
        metas.append((label, src, snap, before, mid, after, o1, o2, im2))
    outs = model.batch(batch)
    for (label, src, snap, before, mid, after, o1, o2, im2), mo in zip(metas, outs):
        case = {"label": label, "source": src}
        n_res = sum(1 for _, k in snap["resolve"] if isinstance(k, int))
        if n_res:
            res.nontrivial.add(common.digest(src))
        if o1[0] != "ok" or o2[0] != "ok" or im2["outcome"] != "ok":
            res.violations.append({"signature": "result-generation-crash", "case": case})
            continue
        # correspondence (both rounds)
        pinned = True
        if "__error__" in mo or mo.get("outcome") != "ok":
            res.disagreements.append({"case": case, "model": mo})
            pinned = False
        else:
            for r in (0, 1):
                mm = rl.canon_model_round(mo["rounds"][r])
                ii = rl.strip_calls(im2["rounds"][r])
                if mm != ii:
                    res.disagreements.append({"case": case, "round": r, "impl": ii, "model": mm})
                    pinned = False
                    break
        # property oracle
        bj, mj = json.loads(before), json.loads(mid)
        if before != mid:
            kind = classify_mutation(bj, mj, n_res)
            if not pinned:
                kind = kind.replace("ir-mutated:", "ir-mutated:not-the-pinned-behaviour:", 1)
            res.count("ir:" + kind)
            res.violations.append({"signature": kind, "case": case})
        else:
            res.count("ir:unchanged" + ("" if n_res == 0 else "-despite-resolvable-calls"))
        r1 = {k: {a: sorted(b) for a, b in v.items()} for k, v in dict(o1[1]).items()}
        r2 = {k: {a: sorted(b) for a, b in v.items()} for k, v in dict(o2[1]).items()}
        if r1 != r2:
            feats = rl.other_roots_features(snap, c03.sigs_from_source(src))
            f = next((x for x in ORDER_FEATURES if x in feats), "clean-fragment")
            if not pinned:
                f = "not-the-pinned-behaviour:" + f
            res.count("second-generation-differs:" + f)
            res.violations.append({"signature": "second-generation-differs:" + f, "case": case,
                                   "first": r1, "second": r2})
        else:
            res.count("second-generation-equal")
        res.sample({"label": label, "source": src, "ir_changed": before != mid}, cap=4)
    # ---- the whole-pipeline model predicts the IR that result generation leaves behind (source text -> FileIr
    # after `generate_results_from_ir`, compared set by set with basenames), on generated whole modules
    from props import pipeline
    pipeline.run_pipeline_stage(res, random.Random(seed + 7103), 25 if tier == "quick" else 300, model,
                                cli_sample=0, curated=False)
    # ---- multi-file projects: the IR of every followed import must survive result generation as well
    from props import c14multi
    c14multi.run_stage(res, random.Random(seed + 1409), tier, model)
    res.assumptions = ["serialise_irs is the observable IR (C18 is about its canonicity)",
                       "multi-file stage: module_exists / the ladder verdicts of resolve_import / is_excluded_name / "
                       "derive_module_name_from_path are taken from the real code as data (C12, C13); the call target each Call symbol "
                       "carries is taken from the analysis (C06); the CLI's `-o ir` is compared with locations stripped (C18 finding: "
                       "the location a merged set member carries is hash-seed dependent)",
                       "pipeline stage: see C03 (follow-imports 0; hash-order dependent modules skipped)"]
    return res


def classify_mutation(bj, mj, n_res):
    """What changed in the serialised IR document. Only 'names added to gets/sets/dels of a function
    that has resolvable calls' is the known defect; anything else gets its own signature."""
    kinds = set()

    def walk(a, b, path):
        if type(a) != type(b):
            kinds.add("shape"); return
        if isinstance(a, dict):
            if a.keys() != b.keys():
                kinds.add("keys-changed:" + "/".join(path[-1:])); return
            for k in a:
                walk(a[k], b[k], path + [k])
        elif isinstance(a, list):
            if a != b:
                leaf = next((p for p in reversed(path) if p in ("gets", "sets", "dels", "calls")), "other")
                sa = [json.dumps(x, sort_keys=True) for x in a]
                sb = [json.dumps(x, sort_keys=True) for x in b]
                if leaf in ("gets", "sets", "dels") and set(sa) <= set(sb):
                    kinds.add("names-added")
                elif leaf in ("gets", "sets", "dels"):
                    kinds.add("names-removed-or-changed:" + leaf)
                else:
                    kinds.add("changed:" + leaf)
        elif a != b:
            kinds.add("scalar-changed:" + "/".join(path[-1:]))

    walk(bj, mj, [])
    if kinds == {"names-added"} and n_res > 0:
        return "ir-mutated:callee-names-added-to-caller-ir"
    return "ir-mutated:other:" + "+".join(sorted(kinds)) + ("" if n_res else ":no-resolvable-call")


def replay(path):
    """Print the failing input; a multi-file case is re-run (analysis, two generations) and what changed in which
    FileIr is printed. Exit 1 when the IR changes / the generations differ on the current tree."""
    j = json.load(open(path))
    case = j.get("case", {})
    if "files" not in case:
        print(json.dumps(j, indent=1)[:4000])
        return 0
    import tempfile
    from pathlib import Path
    from props import c14multi
    print(json.dumps({k: v for k, v in j.items() if k not in ("first", "second")}, indent=1)[:6000])
    spec = {"files": case["files"], "level": case.get("follow_imports", 1), "excluded_imports": case.get("exclude_import", []),
            "excluded_names": case.get("exclude", [])}
    d = Path(tempfile.mkdtemp(prefix="rattr-c14-replay-"))
    c14multi.write_project(d, spec["files"])
    obs = c14multi.observe(d, spec)
    if obs["analysis"] != "ok":
        print("analysis:", obs["analysis"])
        return 2
    bad = False
    for r in (0, 1):
        ch = c14multi.classify_change(obs["docs"][r], obs["docs"][r + 1], obs["snaps"][r], obs["snaps"][r + 1], lambda m, f: True)
        print(f"generation {r + 1}: {obs['outs'][r][0]}; IR changes: {ch}")
        bad = bad or any(not known for _, _, known in ch) or obs["outs"][r][0] != "ok"
    if obs["outs"][0] != obs["outs"][1]:
        print("the two generations return different results")
        bad = True
    return 1 if bad else 0

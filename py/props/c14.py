"""C14 — generating results does not change the intermediate representation."""
from __future__ import annotations

import json
import random

import common
import impl
from props import resultslib as rl
from props import c03

PID = "C14"
# features of a call graph that make a second generation over the mutated IR differ
ORDER_FEATURES = ["compound-argument", "same-call-on-two-paths", "cycle"]

from rattr.models.util import serialise_irs
from rattr.results import generate_results_from_ir


def located_fns(file_ir):
    """Per function (iteration order of the FileIr): the members of gets/sets/dels WITH their locations."""
    from props import c14multi
    return [{"name": sym.name, "file": str(sym.location.defined_in),
             "locs": {k: c14multi.located_names_of(file_ir[sym][k]) for k in ("gets", "sets", "dels")}} for sym in file_ir]


def twin_program(rng, i):
    """Single-file programs in which DIFFERENT functions write IDENTICAL accesses (same parameter name, same attribute):
    equal `Name`s (equality ignores the location) at different places, folded into callers that bind the parameter
    to equal argument names. Callees read / write / delete, call one another (chains), callers call one or two."""
    params = ["sensor", "node"]
    attrs = ["value", "x", "state"]
    n_callee = rng.randint(2, 4)
    lines = []
    callees = []
    for c in range(n_callee):
        p = rng.choice(params) if rng.random() < 0.3 else "sensor"
        body = [f"# callee {c} of twin program {i}"] if rng.random() < 0.5 else []
        for _ in range(rng.randint(1, 3)):
            a = rng.choice(attrs)
            body.append(rng.choice([f"{p}.{a}", f"{p}.{a} = 1", f"del {p}.{a}", f"print({p}.{a}.deep)"]))
        if callees and rng.random() < 0.5:
            body.append(f"{rng.choice(callees)}({p})")
        callees.append(f"read{c}")
        lines.append(f"def read{c}({p}):\n" + "\n".join("    " + b for b in body) + "\n")
    for u in range(rng.randint(2, 3)):
        q = rng.choice(["probe", "probe", "sensor"])
        picks = rng.sample(callees, rng.randint(1, min(2, len(callees))))
        body = [f"{c}({q})" for c in picks]
        if rng.random() < 0.3:
            body.insert(0, f"{q}.{rng.choice(attrs)}")
        lines.append(f"def use{u}({q}):\n" + "\n".join("    " + b for b in body) + "\n")
    if rng.random() < 0.5:
        lines.reverse()
    return "\n".join(lines)


def located_request(snap, locs0, locids):
    fns = []
    for f, lf in zip(snap["fns"], locs0):
        d = {"iface": f["iface"], "calls": f["calls"]}
        for k in ("gets", "sets", "dels"):
            d[k] = [[n, b, locids.setdefault((fl, ln, col), len(locids))] for n, b, fl, ln, col in lf["locs"][k]]
        fns.append(d)
    return {"fns": fns, "resolve": snap["resolve"], "order": snap["order"], "rounds": 2}


def judge_located(res, case, snap, locs, lmo, locids):
    if any(len({c["name"] for c in f["calls"]}) != len(f["calls"]) for f in snap["fns"]):
        res.count("located:fold-order-depends-on-set-iteration (not compared)")
        return
    if not isinstance(lmo, dict) or "__error__" in lmo or lmo.get("outcome") != "ok":
        res.disagreements.append({"case": case, "what": "located model", "model": lmo})
        return
    for r in (0, 1):
        store = lmo["rounds"][r]["store"]
        if len(store) != len(locs[r + 1]):
            res.disagreements.append({"case": case, "round": r, "what": "located store: number of functions"})
            return
        for k, (ms, lf) in enumerate(zip(store, locs[r + 1])):
            for kind in ("gets", "sets", "dels"):
                M = {(n, b, l) for n, b, l in ms[kind]}
                I = {(n, b, locids.get((fl, ln, col), -1)) for n, b, fl, ln, col in lf["locs"][kind]}
                if len({(n, b) for n, b, _ in M}) != len(M):
                    res.count("located:model-offers-two-locations-for-one-name (set comprehension order)")
                if {(n, b) for n, b, _ in M} != {(n, b) for n, b, _ in I} or not I <= M:
                    res.disagreements.append({"case": case, "round": r, "what": "LOCATED IR after generation", "function": lf["name"],
                                              "set": kind, "impl": sorted(I), "model": sorted(M)})
                    return
    res.count("located:every-location-as-the-model-predicts")


def ir_doc(file_ir):
    return serialise_irs(target_name="target.py", target_ir=file_ir, import_irs={})


def run(tier, seed, build):
    res = common.Result(PID)
    res.rule = ("programs from the C03 generator + corpus; the REAL FileIr is serialised (serialise_irs) before and after "
                "the real generate_results_from_ir, results are generated twice from the same IR; the Lean model is run for "
                "two rounds over one store and must reproduce results and post-run IR of both rounds. Multi-file stage "
                "(props/c14multi.py): generated projects (target + modules + a package) whose calls reach every branch of "
                "find_call_target_and_ir / resolve_import from the target and from inside a followed import (callee ignored, "
                "excluded, undefined, a method, re-exported, a class, a static method, a lambda, a variable, in a stdlib / excluded "
                "module; 6 import forms; follow level 0/1, --exclude-import); serialise_irs over ALL FileIrs + a deep structural "
                "snapshot before / after one / after two generations, the CLI's `-o ir` on a sample; the Lean project model "
                "resolves every call itself and must reproduce resolution, results and every set of every module. "
                "Round 4: (a) LOCATED names — every member of every set is observed WITH its location (Name equality ignores it): the "
                "Lean located engine (Provenance.generateL, op results_located) must predict the location of every member after each "
                "generation (single-file stage, incl. `twin` programs: identical accesses written in different functions), and the "
                "provenance oracle (props/c14prov.py; theorem C14_located_provenance) demands, in-process and on the CLI's `-o ir`, that "
                "a member of a set of f is located where a function reachable from f through resolvable calls wrote such an access "
                "(generated projects share un-tagged accesses across modules); (b) HISTORIES (props/c14hist.py): more analyses in the same "
                "process after the generations (same target again, a second target over the same imports; Config re-created as "
                "entry_point() does, no cache cleared) must hand result generation the IR a fresh analysis / a fresh interpreter "
                "computes, library style and main() style. "
                "non-trivial = distinct program with >= 1 resolvable call (multi-file: >= 1 call resolved across a module boundary)")
    rng = random.Random(seed)
    n = 300 if tier == "quick" else 4000
    programs = list(c03.CORPUS)
    for i in range(n):
        programs.append((f"rand{i}", rl.ProgGen(rng, clean=(i % 3 == 0)).build()[0]))
    for i in range(40 if tier == "quick" else 400):
        programs.append((f"twin{i}", twin_program(rng, i)))
    model = common.Model()
    batch, metas, lbatch, locids = [], [], [], {}
    for label, src in programs:
        res.evaluations += 1
        out = impl.outcome_of(rl.analyse_source, src)
        if out[0] != "ok":
            res.skipped_outside_fragment += 1
            continue
        file_ir = out[1]
        snap = rl.snapshot(file_ir)
        if any(not (k is None or isinstance(k, int)) for _, k in snap["resolve"]):
            res.skipped_outside_fragment += 1
            continue
        # the real thing, on the real object (a private deep copy of it)
        work = rl.copy_file_ir(file_ir)
        before = ir_doc(work)
        locs = [located_fns(work)]
        impl.Config().state.current_file = None
        # option combinations must not matter: a third of the programs run under a non-zero badness
        # threshold (simplification-time errors accumulate badness across generations)
        if len(metas) % 3 == 1:
            impl.Config().arguments.threshold = rng.choice([1, 5, 7, 10, 12])
            res.count("config:threshold-set")
        with impl.Tap():
            o1 = impl.outcome_of(generate_results_from_ir, target_ir=work, import_irs={})
        mid = ir_doc(work)
        locs.append(located_fns(work))
        with impl.Tap():
            o2 = impl.outcome_of(generate_results_from_ir, target_ir=work, import_irs={})
        after = ir_doc(work)
        locs.append(located_fns(work))
        im2 = rl.run_impl(file_ir, rounds=2)
        batch.append(("results", {**snap, "rounds": 2}))
        lbatch.append(("results_located", located_request(snap, locs[0], locids)))
        metas.append((label, src, snap, before, mid, after, o1, o2, im2, locs))
    outs = model.batch(batch)
    louts = model.batch(lbatch)
    for (label, src, snap, before, mid, after, o1, o2, im2, locs), mo, lmo in zip(metas, outs, louts):
        case = {"label": label, "source": src}
        n_res = sum(1 for _, k in snap["resolve"] if isinstance(k, int))
        if n_res:
            res.nontrivial.add(common.digest(src))
        if o1[0] != "ok" or o2[0] != "ok" or im2["outcome"] != "ok":
            res.violations.append({"signature": "result-generation-crash", "case": case})
            continue
        # correspondence (both rounds)
        pinned = True
        if "__error__" in mo or mo.get("outcome") != "ok":
            res.disagreements.append({"case": case, "model": mo})
            pinned = False
        else:
            for r in (0, 1):
                mm = rl.canon_model_round(mo["rounds"][r])
                ii = rl.strip_calls(im2["rounds"][r])
                if mm != ii:
                    res.disagreements.append({"case": case, "round": r, "impl": ii, "model": mm})
                    pinned = False
                    break
        # property oracle
        bj, mj = json.loads(before), json.loads(mid)
        if before != mid:
            kind = classify_mutation(bj, mj, n_res)
            if not pinned:
                kind = kind.replace("ir-mutated:", "ir-mutated:not-the-pinned-behaviour:", 1)
            res.count("ir:" + kind)
            res.violations.append({"signature": kind, "case": case})
        else:
            res.count("ir:unchanged" + ("" if n_res == 0 else "-despite-resolvable-calls"))
        # correspondence of the LOCATED engine (RattrModel.Provenance.generateL): WHICH location every member of every set
        # carries after each generation. Binding where the fold order is determined by the program text: no function
        # with two call records of the same callee name (their order is the iteration order of a set).
        if pinned:
            judge_located(res, case, snap, locs, lmo, locids)
        # provenance: a name folded into a function is located where a function it reaches wrote that access
        from props import c14prov
        rmap = {c: k for c, k in snap["resolve"]}
        edges = [{rmap.get(c["cid"]) for c in f["calls"] if isinstance(rmap.get(c["cid"]), int)} for f in snap["fns"]]
        for r in (1, 2):
            if [f["name"] for f in locs[r]] != [f["name"] for f in locs[0]] or len(edges) != len(locs[0]):
                break
            pv = c14prov.provenance_violations(locs[0], locs[r], edges)
            if not pv:
                res.count(f"provenance-after-generation-{r}:every-name-located-where-a-reachable-function-wrote-it")
                continue
            for cls in sorted({v["class"] for v in pv}):
                res.count(f"provenance-after-generation-{r}:{cls}")
                res.violations.append({"signature": f"ir-mutated:other:folded-name-located-{cls}", "case": case,
                                       "generation": r, "names": [v for v in pv if v["class"] == cls][:6]})
            break
        r1 = {k: {a: sorted(b) for a, b in v.items()} for k, v in dict(o1[1]).items()}
        r2 = {k: {a: sorted(b) for a, b in v.items()} for k, v in dict(o2[1]).items()}
        if r1 != r2:
            feats = rl.other_roots_features(snap, c03.sigs_from_source(src))
            f = next((x for x in ORDER_FEATURES if x in feats), "clean-fragment")
            if not pinned:
                f = "not-the-pinned-behaviour:" + f
            res.count("second-generation-differs:" + f)
            res.violations.append({"signature": "second-generation-differs:" + f, "case": case,
                                   "first": r1, "second": r2})
        else:
            res.count("second-generation-equal")
        res.sample({"label": label, "source": src, "ir_changed": before != mid}, cap=4)
    # ---- the whole-pipeline model predicts the IR that result generation leaves behind (source text -> FileIr
    # after `generate_results_from_ir`, compared set by set with basenames), on generated whole modules
    from props import pipeline
    pipeline.run_pipeline_stage(res, random.Random(seed + 7103), 25 if tier == "quick" else 300, model,
                                cli_sample=0, curated=False)
    # ---- multi-file projects: the IR of every followed import must survive result generation as well
    from props import c14multi
    c14multi.run_stage(res, random.Random(seed + 1409), tier, model)
    res.assumptions = ["serialise_irs is the observable IR (C18 is about its canonicity)",
                       "multi-file stage: module_exists / the ladder verdicts of resolve_import / is_excluded_name / "
                       "derive_module_name_from_path are taken from the real code as data (C12, C13); the call target each Call symbol "
                       "carries is taken from the analysis (C06); the CLI's `-o ir` is compared with locations stripped (C18 finding: "
                       "the location a merged set member carries is hash-seed dependent)",
                       "pipeline stage: see C03 (follow-imports 0; hash-order dependent modules skipped)",
                       "[interp] 'describes each function's own body only' over histories: the IR an analysis hands to result generation is "
                       "the IR a fresh process computes for that target (what an EARLIER generation folded into ITS IR objects must not show)",
                       "[interp] the location a folded name carries is part of what the IR document says: it must be the place where a "
                       "function the holder reaches wrote that access (which of several such places survives in a set is C18's finding)",
                       "located correspondence: programs in which a function has two call records of the same callee name are not compared "
                       "(their fold order is the iteration order of a set)"]
    return res


def classify_mutation(bj, mj, n_res):
    """What changed in the serialised IR document. Only 'names added to gets/sets/dels of a function
    that has resolvable calls' is the known defect; anything else gets its own signature."""
    kinds = set()

    def walk(a, b, path):
        if type(a) != type(b):
            kinds.add("shape"); return
        if isinstance(a, dict):
            if a.keys() != b.keys():
                kinds.add("keys-changed:" + "/".join(path[-1:])); return
            for k in a:
                walk(a[k], b[k], path + [k])
        elif isinstance(a, list):
            if a != b:
                leaf = next((p for p in reversed(path) if p in ("gets", "sets", "dels", "calls")), "other")
                sa = [json.dumps(x, sort_keys=True) for x in a]
                sb = [json.dumps(x, sort_keys=True) for x in b]
                if leaf in ("gets", "sets", "dels") and set(sa) <= set(sb):
                    kinds.add("names-added")
                elif leaf in ("gets", "sets", "dels"):
                    kinds.add("names-removed-or-changed:" + leaf)
                else:
                    kinds.add("changed:" + leaf)
        elif a != b:
            kinds.add("scalar-changed:" + "/".join(path[-1:]))

    walk(bj, mj, [])
    if kinds == {"names-added"} and n_res > 0:
        return "ir-mutated:callee-names-added-to-caller-ir"
    return "ir-mutated:other:" + "+".join(sorted(kinds)) + ("" if n_res else ":no-resolvable-call")


def replay(path):
    """Print the failing input; a multi-file case is re-run (analysis, two generations) and what changed in which
    FileIr is printed. Exit 1 when the IR changes / the generations differ on the current tree."""
    j = json.load(open(path))
    case = j.get("case", {})
    if "files" not in case:
        print(json.dumps(j, indent=1)[:4000])
        if "source" in case and "folded-name-located" in str(j.get("signature")):
            from props import c14prov
            out = impl.outcome_of(rl.analyse_source, case["source"])
            if out[0] != "ok":
                return 2
            snap = rl.snapshot(out[1])
            work = rl.copy_file_ir(out[1])
            locs = [located_fns(work)]
            impl.Config().state.current_file = None
            with impl.Tap():
                impl.outcome_of(generate_results_from_ir, target_ir=work, import_irs={})
            locs.append(located_fns(work))
            rmap = {c: k for c, k in snap["resolve"]}
            edges = [{rmap.get(c["cid"]) for c in f["calls"] if isinstance(rmap.get(c["cid"]), int)} for f in snap["fns"]]
            pv = c14prov.provenance_violations(locs[0], locs[1], edges)
            for v in pv[:8]:
                print(f"{v['function']}.{v['kind']} holds {v['name']!r} located at {v['at']}: {v['class']}")
            return 1 if pv else 0
        return 0
    import tempfile
    from pathlib import Path
    from props import c14multi
    print(json.dumps({k: v for k, v in j.items() if k not in ("first", "second")}, indent=1)[:6000])
    spec = {"files": case["files"], "level": case.get("follow_imports", 1), "excluded_imports": case.get("exclude_import", []),
            "excluded_names": case.get("exclude", [])}
    d = Path(tempfile.mkdtemp(prefix="rattr-c14-replay-"))
    c14multi.write_project(d, spec["files"])
    obs = c14multi.observe(d, spec)
    if obs["analysis"] != "ok":
        print("analysis:", obs["analysis"])
        return 2
    bad = False
    for r in (0, 1):
        ch = c14multi.classify_change(obs["docs"][r], obs["docs"][r + 1], obs["snaps"][r], obs["snaps"][r + 1], lambda m, f: True)
        print(f"generation {r + 1}: {obs['outs'][r][0]}; IR changes: {ch}")
        bad = bad or any(not known for _, _, known in ch) or obs["outs"][r][0] != "ok"
    if obs["outs"][0] != obs["outs"][1]:
        print("the two generations return different results")
        bad = True
    # provenance of the folded names (reachability from the real resolution of every call)
    from props import c14prov, c14hist
    pre_flat, sizes = c14prov.flat_of_snapshot(obs["snaps"][0])
    offs = [sum(sizes[:i]) for i in range(len(sizes))]
    edges = [set() for _ in pre_flat]
    for r in obs["resolution"]:
        a = r["answer"]
        if isinstance(a, list):
            edges[offs[r["mod"]] + r["fn"]].add(offs[a[0]] + a[1])
    for r in (0, 1):
        post_flat, _ = c14prov.flat_of_snapshot(obs["snaps"][r + 1])
        if [f["name"] for f in post_flat] != [f["name"] for f in pre_flat]:
            break
        pv = c14prov.provenance_violations(pre_flat, post_flat, edges)
        for v in pv[:8]:
            print(f"generation {r + 1}: {v['function']}.{v['kind']} holds {v['name']!r} located at {v['at']}: {v['class']}")
        bad = bad or bool(pv)
    rc, out, err = c14multi.run_cli(d, spec)
    if rc == 0:
        try:
            post_flat = c14prov.flat_of_document(json.loads(out), obs["snaps"][0])
            pv = c14prov.provenance_violations(pre_flat, post_flat, edges, root=str(d))
            for v in pv[:8]:
                print(f"-o ir: {v['function']}.{v['kind']} holds {v['name']!r} located at {v['at']}: {v['class']}")
            bad = bad or bool(pv)
        except (KeyError, TypeError, ValueError) as e:
            print("-o ir: unreadable document", e)
    # histories: more analyses in the same process (in-process, caches kept) and in fresh interpreters
    tmp_res = common.Result(PID)
    c14multi.judge_inprocess_history(tmp_res, {"label": case.get("label")}, obs)
    if (d / "target_b.py").exists():
        for style in ("library", "main"):
            runs = {k: c14hist.history_run(d, spec, h, style) for k, h in c14hist.HISTORIES.items()}
            c14hist.judge_history(tmp_res, {"label": case.get("label")}, style, runs)
    for v in tmp_res.violations:
        print("history", v.get("history"), "->", v["signature"])
        bad = True
    for e in tmp_res.internal_errors:
        print("history driver:", e)
    return 1 if bad else 0

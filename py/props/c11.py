"""C11 — rattr_ignore, rattr_results and exclusion patterns are honoured everywhere.

Stream N (identifiers, exhaustive over ASCII): the real `is_name` vs the Lean automaton `Ann.isName`; the Lean
  spec `Spec.Honoured.isIdent` vs CPython's `re` on my own transcription of the documented identifier syntax.
Stream A (annotation values, in-process): a type-directed generator over literal expressions produces
  well-formed `rattr_results(...)` argument sets and EVERY single-point mutation of them (every position replaced
  by every literal kind, elements dropped / added, keys removed / renamed / added, positional arguments, `**d`,
  `key=None`); implementation = the real `parse_rattr_results_from_annotation` on the decorated def; model = Lean
  `Ann.parseResults` (+ `Context.getCallTarget` for declared call targets); spec = Lean `WellFormed` / `declared` /
  `evaluable` / `hashClosed`, cross-checked against CPython itself (`eval` of the literal, isinstance checks, `re`).
Stream D (per-definition decision, in-process): decorated def / async def / class / static method / lambda x
  decorator lists (incl. duplicated, attribute-qualified, called, un-nameable decorators) x exclusion patterns;
  implementation = the real `FileAnalyser`; model = Lean `Ann.decisionOf`.
Stream B (end to end, real CLI in a temp project outside /verif and /repo): target.py + a followed local import,
  each with functions, a lambda, a class with __init__, a class with a static method and one caller per
  callable; all subsets (thorough: exhaustive per file and marking kind; quick: seeded sample) of callables marked
  @rattr_ignore / excluded with -x / annotated @rattr_results(...) with distinctive declared names.
Streams U and M (props/c11subst.py): "callers inline … with normal argument substitution" on inputs where the ORDER of
  the substitution matters — the call's argument names are permutations of / overlap with the annotated callee's own
  parameter names (unit level against the Lean model `Ann.inlineDeclared`, whole projects against both Lean pipeline models,
  in-process and through the CLI); oracle = CPython's binding, applied simultaneously.
"""
from __future__ import annotations

import ast
import contextlib
import io
import itertools
import json
import os
import random
import re
import shutil
import subprocess
import sys
import tempfile
import warnings
from concurrent.futures import ThreadPoolExecutor
from pathlib import Path

import common
import impl
from props import visitlib as vl

from rattr.analyser.file import FileAnalyser
from rattr.analyser.util import is_name, parse_rattr_results_from_annotation
from rattr.config.state import enter_file
from rattr.models.context import compile_root_context

PID = "C11"
TABLES = ["C11"]
FOUR = ("gets", "sets", "dels", "calls")

# ===================================================================== literal trees
# tree := ("num", text) | ("str", s) | ("bytes", s) | ("const", "None"|"True"|"False") | ("list", [t]) |
#         ("tuple", [t]) | ("set", [t]) (non-empty) | ("dict", [(k, v)]) | ("unpack",) | ("other", source text)


def src(t):
    k = t[0]
    if k == "num":
        return t[1]
    if k == "str":
        return repr(t[1])
    if k == "bytes":
        return "b" + repr(t[1])
    if k == "const":
        return t[1]
    if k == "list":
        return "[" + ", ".join(src(x) for x in t[1]) + "]"
    if k == "tuple":
        xs = [src(x) for x in t[1]]
        return "(" + ", ".join(xs) + ("," if len(xs) == 1 else "") + ")"
    if k == "set":
        assert t[1]
        return "{" + ", ".join(src(x) for x in t[1]) + "}"
    if k == "dict":
        return "{" + ", ".join(f"{src(a)}: {src(b)}" for a, b in t[1]) + "}"
    if k == "unpack":
        return "{**d}"
    if k == "other":
        return t[1]
    raise ValueError(k)


def S(s):
    return ("str", s)


def deco_src(pos, kws):
    parts = [src(p) for p in pos]
    for k, v in kws:
        parts.append(f"**{src(v)}" if k is None else f"{k}={src(v)}")
    return "rattr_results(" + ", ".join(parts) + ")"


# ---- encoder: ast -> the model's literal JSON (my reading of what safe_eval distinguishes; written against the
# CPython 3.12 ast, not against rattr's code; its fidelity is what the correspondence checks)

def enc_lit(n):
    if isinstance(n, ast.Constant):
        v = n.value
        if v is None or v is True or v is False:
            return {"k": "const", "c": repr(v)}
        if isinstance(v, (int, float, complex)):
            return {"k": "num", "r": repr(v)}
        if isinstance(v, str):
            return {"k": "str", "s": v}
        if isinstance(v, bytes):
            return {"k": "bytes", "s": v.decode("latin-1")}
        return {"k": "other"}
    if isinstance(n, ast.List):
        return {"k": "list", "xs": [enc_lit(e) for e in n.elts]}
    if isinstance(n, ast.Tuple):
        return {"k": "tuple", "xs": [enc_lit(e) for e in n.elts]}
    if isinstance(n, ast.Set):
        return {"k": "set", "xs": [enc_lit(e) for e in n.elts]}
    if isinstance(n, ast.Dict):
        if any(k is None for k in n.keys):
            return {"k": "dictUnpack"}
        return {"k": "dict", "ks": [enc_lit(k) for k in n.keys], "vs": [enc_lit(v) for v in n.values]}
    return {"k": "other"}


def lit_walk(j):
    yield j
    for key in ("xs", "ks", "vs"):
        for c in j.get(key, []):
            yield from lit_walk(c)


def in_fragment(lits):
    """ASCII strings; numbers whose equality is equality of repr and that are not 0/1 (== False/True)."""
    for j in lits:
        for x in lit_walk(j):
            if x["k"] in ("str", "bytes") and not x["s"].isascii():
                return False
            if x["k"] == "num" and x["r"] not in SAFE_NUMS:
                return False
    return True


SAFE_NUMS = {"2", "3", "7", "2.5", "1.5", "2j"}

# ===================================================================== stream A: generation

NAMEPOOL = ["a", "b.x", "*c", "@d", "a.b[]", "f()", "_u9", "*@e.f", "z.decl_g", "a.m().n", "b"]
CALLEES = ["helper", "f", "a.b", "f()", "len", "Cls", "helper()()", "*g", "q[]", "a.b[]"]

REPL = [
    ("num", "3"), ("num", "2.5"), S("q"), S("1x"), S(""), S("a b"), S("*@m.n[]()"), S("@*e"), ("bytes", "x"),
    ("const", "None"), ("const", "True"), ("list", []), ("list", [S("a")]), ("list", [("num", "3")]),
    ("tuple", []), ("tuple", [S("a")]), ("tuple", [S("a"), ("list", [S("b")])]), ("tuple", [S("a"), S("b")]),
    ("set", [S("a")]), ("set", [("list", [S("a")])]), ("set", [("tuple", [S("a"), ("list", [])])]),
    ("dict", []), ("dict", [(S("k"), S("a"))]), ("dict", [(S("k"), ("num", "3"))]), ("dict", [(("num", "3"), S("a"))]),
    ("dict", [(("list", [S("k")]), S("a"))]), ("dict", [(S("k"), ("num", "3")), (S("k"), S("a"))]),
    ("unpack",), ("other", "..."), ("other", "x"), ("other", "-1"), ("other", "set()"), ("other", "f'a'"),
    ("tuple", [S("g"), ("tuple", [("list", [S("a")]), ("list", [S("b")])])]),      # a call spec with list kwargs
    ("tuple", [S("g"), ("tuple", [("list", [S("a")]), ("dict", [])])]),            # a good call spec
]


def gen_spec(rng):
    nargs = rng.randint(0, 2)
    nkw = rng.randint(0, 2)
    return ("tuple", [S(rng.choice(CALLEES)),
                      ("tuple", [("list", [S(rng.choice(NAMEPOOL)) for _ in range(nargs)]),
                                 ("dict", [(S(rng.choice(["k", "kw2", "z"])), S(rng.choice(NAMEPOOL))) for _ in range(nkw)])])])


def gen_base(rng, full=False):
    """A well-formed argument set: list of (key, tree)."""
    kws = []
    for key in ("gets", "sets", "dels"):
        if full or rng.random() < 0.7:
            kws.append((key, ("set", [S(n) for n in rng.sample(NAMEPOOL, rng.randint(1, 3))])))
    if full or rng.random() < 0.8:
        kws.append(("calls", ("list", [gen_spec(rng) for _ in range(2 if full else rng.randint(0, 2))])))
    rng.shuffle(kws)
    return kws


def paths(t, prefix=()):
    """All positions of a tree (dict items contribute key and value positions)."""
    yield prefix
    if t[0] in ("list", "tuple", "set"):
        for i, x in enumerate(t[1]):
            yield from paths(x, prefix + (i,))
    elif t[0] == "dict":
        for i, (k, v) in enumerate(t[1]):
            yield from paths(k, prefix + (i, 0))
            yield from paths(v, prefix + (i, 1))


def replace_at(t, path, new):
    if not path:
        return new
    i = path[0]
    if t[0] in ("list", "tuple", "set"):
        xs = list(t[1])
        xs[i] = replace_at(xs[i], path[1:], new)
        return (t[0], xs)
    items = list(t[1])
    k, v = items[i]
    j = path[1]
    items[i] = (replace_at(k, path[2:], new), v) if j == 0 else (k, replace_at(v, path[2:], new))
    return ("dict", items)


def container_paths(t, prefix=()):
    if t[0] in ("list", "tuple", "set", "dict"):
        yield prefix, t
    if t[0] in ("list", "tuple", "set"):
        for i, x in enumerate(t[1]):
            yield from container_paths(x, prefix + (i,))
    elif t[0] == "dict":
        for i, (k, v) in enumerate(t[1]):
            yield from container_paths(k, prefix + (i, 0))
            yield from container_paths(v, prefix + (i, 1))


def mutations(base):
    """Every single-point mutation of a well-formed argument set. Yields (pos, kws, label)."""
    yield [], base, "base"
    for ki, (key, tree) in enumerate(base):
        for p in paths(tree):
            for r in REPL:
                new = list(base)
                new[ki] = (key, replace_at(tree, p, r))
                yield [], new, f"replace:{key}{list(p)}:{r[0]}"
        for p, c in container_paths(tree):
            n = len(c[1])
            for i in range(n):
                xs = list(c[1])
                del xs[i]
                if c[0] == "set" and not xs:
                    continue                      # no literal for the empty set
                new = list(base)
                new[ki] = (key, replace_at(tree, p, (c[0], xs)))
                yield [], new, f"drop:{key}{list(p)}[{i}]"
            extra = (S("k9"), S("q")) if c[0] == "dict" else S("q")
            new = list(base)
            new[ki] = (key, replace_at(tree, p, (c[0], list(c[1]) + [extra])))
            yield [], new, f"append:{key}{list(p)}"
            if n:
                new = list(base)
                new[ki] = (key, replace_at(tree, p, (c[0], list(c[1]) + [c[1][0]])))
                yield [], new, f"duplicate:{key}{list(p)}"
        # key level
        yield [], base[:ki] + base[ki + 1:], f"remove-key:{key}"
        yield [], base[:ki] + [("foo", tree)] + base[ki + 1:], f"rename-key:{key}"
        yield [], base[:ki] + [(None, ("dict", [(S(key), tree)]))] + base[ki + 1:], f"unpack-key:{key}"
        yield [tree], base[:ki] + base[ki + 1:], f"positional:{key}"
    yield [], base + [("foo", ("set", [S("a")]))], "extra-key"
    yield [("set", [S("a")])], base, "extra-positional"
    yield [("other", "x")], base, "positional-unevaluable"
    yield [], base + [(None, ("other", "d"))], "unpack-name"
    yield [], base + [(None, ("dict", []))], "unpack-empty"
    yield [("set", [("list", [])])], base + [("foo", S("a"))], "positional-unhashable"
    present = {k for k, _ in base}
    for key in FOUR:
        if key not in present:
            yield [], base + [(key, ("const", "None"))], f"none-for:{key}"
            if key != "calls":
                yield [], base + [(key, ("dict", []))], f"empty-dict-for:{key}"      # `{}` is a dict, not a set


# ===================================================================== stream A: python-side oracle (CPython)

IDENT_RE = re.compile(r"[A-Za-z_][A-Za-z0-9_()\[\].]*")       # my transcription of the documented identifier


def py_ident(x):
    return isinstance(x, str) and IDENT_RE.fullmatch(x.removeprefix("*").removeprefix("@")) is not None


def py_eval(node):
    """CPython's own verdict on the literal: ('ok', value) | ('unhashable',) | ('other', type)."""
    try:
        return ("ok", eval(compile(ast.Expression(node), "<literal>", "eval"), {"__builtins__": {}}, {}))
    except TypeError as e:
        return ("unhashable",) if "unhashable" in str(e) else ("other", "TypeError")
    except Exception as e:  # noqa
        return ("other", type(e).__name__)


def py_wellformed(pos, kw):
    if pos or any(k not in FOUR for k in kw):
        return False
    for key in ("gets", "sets", "dels"):
        if key in kw and not (isinstance(kw[key], set) and all(py_ident(x) for x in kw[key])):
            return False
    if "calls" in kw:
        cs = kw["calls"]
        if not isinstance(cs, list):
            return False
        for c in cs:
            if not (isinstance(c, tuple) and len(c) == 2 and py_ident(c[0]) and isinstance(c[1], tuple) and len(c[1]) == 2):
                return False
            pa, ka = c[1]
            if not (isinstance(pa, list) and all(py_ident(x) for x in pa)):
                return False
            if not (isinstance(ka, dict) and all(py_ident(k) and py_ident(v) for k, v in ka.items())):
                return False
    return True


def py_base(s):
    return re.match(r"[^.]*", s.replace("*", "")).group(0)


def py_declared(kw):
    def names(key):
        return sorted([s, py_base(s)] for s in kw.get(key, set()))
    calls = {json.dumps({"name": re.sub(r"(\(\))+$", "", c[0]), "args": list(c[1][0]),
                         "kwargs": sorted([k, v] for k, v in c[1][1].items())}, sort_keys=True)
             for c in kw.get("calls", [])}
    return {"gets": names("gets"), "sets": names("sets"), "dels": names("dels"),
            "calls": [json.loads(c) for c in sorted(calls)]}


def canon_ir(ir, with_target):
    def names(xs):
        return sorted(map(list, {tuple(x) for x in xs}))
    calls = set()
    for c in ir["calls"]:
        d = {"name": c["name"], "args": list(c["args"]), "kwargs": sorted(map(list, c["kwargs"]))}
        if with_target:
            d["target"] = c.get("target")
        calls.add(json.dumps(d, sort_keys=True))
    return {"gets": names(ir["gets"]), "sets": names(ir["sets"]), "dels": names(ir["dels"]),
            "calls": [json.loads(c) for c in sorted(calls)]}


# ===================================================================== stream A: implementation side

CTX_SRC = ("def helper(z):\n    return z.q\n\n\nclass Cls:\n    def __init__(self, z):\n        self.v = z.q\n\n\n"
           "def fn(a, b):\n    return a.body_attr\n")

FATALS = [
    ("you are likely missing a comma", "likely-missing-comma"),
    ("unexpected positional arguments to 'rattr_results'", "positional-args"),
    ("unexpected keyword arguments to 'rattr_results'", "unexpected-keywords"),
    ("expects 'calls' to be a", "expects-call-specs"),
    ("duplicated annotation 'rattr_results'", "duplicated-annotation"),
]


def fatal_id(events):
    fat = [e for e in events if e["level"] == "fatal"]
    if not fat:
        return "no-fatal-event"
    msg = fat[-1]["message"]
    m = re.search(r"expects a set\[Identifier\] for '(\w+)'", msg)
    if m:
        return "expects-set-of-names:" + m.group(1)
    for pat, tid in FATALS:
        if pat in msg:
            return tid
    return "other:" + msg[:60]


def crash_id(exc, msg):
    if exc == "TypeError" and "unhashable type" in msg:
        return "TypeError:unhashable"
    if exc == "AttributeError" and "has no attribute 'items'" in msg:
        return "AttributeError:items"
    if exc == "TypeError" and re.match(r"line \d+: ", msg):
        return "TypeError:decorator"
    return f"{exc}:other:{msg[:50]}"


def sym_target(t):
    return None if t is None else {"kind": type(t).__name__, "name": t.name}


def impl_ir(ir):
    return {"gets": [[n.name, n.basename] for n in ir["gets"]], "sets": [[n.name, n.basename] for n in ir["sets"]],
            "dels": [[n.name, n.basename] for n in ir["dels"]],
            "calls": [{"name": c.name, "args": list(c.args.args), "kwargs": [[k, v] for k, v in c.args.kwargs.items()],
                       "target": sym_target(c.target)} for c in ir["calls"]]}


def run_annotation_impl(deco, ctx):
    fn = ast.parse(f"@{deco}\ndef fn(a, b):\n    return a.body_attr\n").body[0]
    with impl.Tap() as tap, enter_file(vl.TARGET), contextlib.redirect_stdout(io.StringIO()):
        out = impl.outcome_of(parse_rattr_results_from_annotation, fn, context=ctx)
    if out[0] == "ok":
        return {"outcome": "ok", "detail": "", "ir": impl_ir(out[1])}, fn
    if out[0] == "fatal":
        return {"outcome": "fatal", "detail": fatal_id(tap.events)}, fn
    return {"outcome": "crash", "detail": crash_id(out[1], out[2]), "exc": out[1], "message": out[2]}, fn


def needed_symbols(root, lits):
    """The root-context symbols get_call_target can consult for the names occurring in this case: the dotted
    prefixes of every string (after removing `*` and trailing `()`)."""
    want = set()
    for j in lits:
        for x in lit_walk(j):
            if x["k"] == "str":
                s = re.sub(r"(\(\))+$", "", x["s"]).replace("*", "")
                parts = s.split(".")
                for i in range(1, len(parts) + 1):
                    want.add(".".join(parts[:i]))
    return [s for s in root if s["name"] in want]


# ===================================================================== stream A: judge

def judge_annotation(im, pyv, spec):
    """Property oracle on the implementation's real outcome. pyv = CPython's reading of the arguments:
    {'status': 'values'|'unevaluable'|'unhashable', 'wellformed': bool, 'declared': ir, 'none_only': bool}.
    Returns None | signature."""
    well = pyv["status"] == "values" and pyv["wellformed"]
    if im["outcome"] == "crash":
        exc = im["exc"]
        if im["detail"] == "TypeError:unhashable" and pyv["status"] == "unhashable":
            shape = "unhashable-set-element-or-dict-key"
        elif im["detail"] == "AttributeError:items" and spec is not None and spec.get("evaluated") and not spec["noCrashShape"] \
                and pyv["status"] == "values" and not pyv["wellformed"]:
            shape = "call-spec-kwargs-not-a-dict"
        else:
            shape = "other:" + im["message"][:40]
        return f"malformed-annotation-crash:{exc}:{shape}" if not well else f"wellformed-annotation-crash:{exc}:{shape}"
    if well:
        if im["outcome"] == "fatal":
            return "wellformed-annotation-rejected:" + im["detail"]
        if canon_ir(im["ir"], False) != pyv["declared"]:
            return "declared-ir-not-exact"
        return None
    # ill-formed
    if im["outcome"] == "ok":
        return "malformed-annotation-accepted:" + pyv.get("why", "?")
    if pyv.get("none_only"):
        # [interp] the decorator's own signature (rattr/analyser/annotations.py) gives every keyword the default None
        return "decorator-signature-default-none-rejected"
    return None


def why_malformed(pos, kw):
    if pos:
        return "positional-argument"
    for k in kw:
        if k not in FOUR:
            return "unknown-keyword" if k is not None else "dict-unpacking"
    for key in ("gets", "sets", "dels"):
        if key in kw and not py_wellformed([], {key: kw[key]}):
            return f"{key}-not-a-set-of-identifiers"
    return "calls-not-a-list-of-call-specs"


def python_reading(fn):
    """What CPython makes of the decorator's arguments (values via eval of each argument expression)."""
    deco = fn.decorator_list[0]
    lits = [enc_lit(a) for a in deco.args] + [enc_lit(k.value) for k in deco.keywords]
    if any(x["k"] in ("other", "dictUnpack") for j in lits for x in lit_walk(j)):
        return {"status": "unevaluable", "wellformed": False}
    pos, kw = [], {}
    for a in deco.args:
        r = py_eval(a)
        if r[0] != "ok":
            return {"status": r[0] if r[0] == "unhashable" else "unevaluable", "wellformed": False}
        pos.append(r[1])
    for k in deco.keywords:
        r = py_eval(k.value)
        if r[0] != "ok":
            return {"status": r[0] if r[0] == "unhashable" else "unevaluable", "wellformed": False}
        kw[k.arg] = r[1]
    wf = py_wellformed(pos, kw)
    out = {"status": "values", "wellformed": wf}
    if wf:
        out["declared"] = py_declared(kw)
    else:
        out["why"] = why_malformed(pos, kw)
        kw2 = {k: v for k, v in kw.items() if v is not None}
        out["none_only"] = (len(kw2) < len(kw)) and all(k in FOUR for k in kw) and py_wellformed(pos, kw2)
    return out


# ===================================================================== stream N: identifiers

def ident_strings(rng, n_random):
    out = set()
    for c in map(chr, range(128)):
        for pre in ("", "a", "*", "@", "*@", "@*", "**", "a.", "_"):
            out.add(pre + c)
        out.add("a" + c + "b")
    out.update(["", "*", "@", "*@", "a.b.c", "*a.b", "a*.b", "a.*b", "x..y", ".x", "a(", "a)(", "f()", "f()()", "a[].b()",
                "a\n", "\na", "a b", "@Tuple", "*@x.y", "a.b\n"])
    alphabet = "ab_Z09()[].*@ -\n"
    for _ in range(n_random):
        out.add("".join(rng.choice(alphabet) for _ in range(rng.randint(1, 7))))
    return sorted(out)


def stream_names(res, rng, model, tier):
    strings = ident_strings(rng, 300 if tier == "quick" else 3000)
    outs = model.batch([("is_name", {"s": s}) for s in strings])
    from rattr.analyser.util import re_rattr_name
    for s, mo in zip(strings, outs):
        res.evaluations += 1
        if "__error__" in mo:
            res.disagreements.append({"case": {"is_name": s}, "model": mo})
            continue
        im = bool(is_name(s))
        py = py_ident(s)
        real_base = s.replace("*", "").split(".")[0]
        res.count("ident:" + ("accepted" if im else "rejected"))
        if mo["spec"] != py or mo["specBase"] != py_base(s):
            res.internal_errors.append({"what": "Spec.isIdent/specBase disagrees with CPython re", "s": s, "spec": mo, "python": py})
            continue
        if mo["model"] != im or mo["base"] != real_base:
            res.disagreements.append({"case": {"is_name": s}, "impl": im, "model": mo})
        if im != py:
            # the implementation's notion of identifier differs from the documented one
            res.violations.append({"signature": "identifier-syntax:" + ("accepted" if im else "rejected") + "-contrary-to-documentation",
                                   "case": {"is_name": s}, "pattern": re_rattr_name.pattern})
        if im:
            res.nontrivial.add(common.digest(["ident", s]))
    res.extra["ident_strings"] = len(strings)


# ===================================================================== stream A: run

def stream_annotations(res, rng, model, tier):
    impl.reset_config(target=vl.TARGET)
    tree, ctx = vl.prepare(CTX_SRC)
    root = vl.root_snapshot(ctx)
    env = vl.env_json()
    env = {"prims": env["prims"], "literals": env["literals"]}

    bases = [gen_base(random.Random(1), full=True)]          # one fixed full base: the complete mutation matrix
    n_random_bases = 4 if tier == "quick" else 14
    for _ in range(n_random_bases):
        bases.append(gen_base(rng))
    seen = set()
    cases = []
    for b in bases:
        for pos, kws, label in mutations(b):
            d = deco_src(pos, kws)
            if d in seen:
                continue
            seen.add(d)
            cases.append((d, label))
    # hand-written corner cases (bare decorator, attribute-qualified, nested call, known witnesses)
    for d in ["rattr_results", "rattr_results()", "x.y.rattr_results(gets={'a'})", "rattr_results()(3)",
              "rattr_results(calls=[('f', (['a'], ['b']))])", "rattr_results(gets=None)", "rattr_results(gets={['a']})",
              "rattr_results(gets={'a', 'a'}, calls=[('helper', (['a'], {'k': 'a'})), ('helper', (['a'], {'k': 'a'}))])",
              "rattr_results(calls=[('helper', (['a'], {'k': 3, 'k': 'a'}))])"]:
        if d not in seen:
            seen.add(d)
            cases.append((d, "corner"))

    reqs, metas = [], []
    for d, label in cases:
        im, fn = run_annotation_impl(d, ctx)
        deco = fn.decorator_list[0]
        if isinstance(deco, ast.Call):
            pos = [enc_lit(a) for a in deco.args]
            kws = [[k.arg, enc_lit(k.value)] for k in deco.keywords]
        else:
            pos, kws = [], []
        lits = pos + [v for _, v in kws]
        if not in_fragment(lits):
            res.skipped_outside_fragment += 1
            continue
        if isinstance(deco, ast.Call):
            fn2 = fn
        else:
            fn2 = ast.parse("@rattr_results()\ndef fn(a, b): pass").body[0]
        pyv = python_reading(fn2)
        reqs.append(("annotation", {"pos": pos, "kws": kws, "root": needed_symbols(root, lits), "env": env}))
        metas.append((d, label, im, pyv))
    outs = model.batch(reqs)
    for (d, label, im, pyv), mo in zip(metas, outs):
        res.evaluations += 1
        case = {"decorator": d, "mutation": label}
        res.count("A:mutation:" + label.split(":")[0])
        res.count("A:impl:" + im["outcome"] + (":" + im["detail"] if im["detail"] else ""))
        res.count("A:python:" + pyv["status"] + (":wellformed" if pyv["wellformed"] else ""))
        spec = None
        if "__error__" in mo:
            res.disagreements.append({"case": case, "impl": im, "model": mo})
        else:
            spec = mo["spec"]
            # ---- self-check: Lean spec vs CPython
            bad = None
            ev_hc = spec["evaluable"] and spec["hashClosed"]
            if (pyv["status"] == "values") != ev_hc and not (pyv["status"] == "unhashable" and not spec["hashClosed"]):
                bad = "evaluable/hashClosed vs CPython eval"
            elif pyv["status"] == "unhashable" and spec["hashClosed"]:
                bad = "hashClosed vs CPython TypeError"
            elif pyv["status"] == "values":
                if not spec.get("evaluated"):
                    bad = "model could not evaluate what CPython evaluates"
                elif spec["wellFormed"] != pyv["wellformed"]:
                    bad = "WellFormed vs isinstance/re oracle"
                elif pyv["wellformed"] and canon_ir(spec["declared"], False) != pyv["declared"]:
                    bad = "Spec.declared vs python oracle"
                elif pyv["wellformed"] and not spec["noCrashShape"]:
                    bad = "WellFormed but not NoCrashShape"
            if bad:
                res.internal_errors.append({"what": "Lean spec disagrees with CPython: " + bad, "case": case, "spec": spec, "python": pyv})
                continue
            # ---- correspondence: model vs implementation
            mm = mo["model"]
            same = mm["outcome"] == im["outcome"] and mm["detail"] == im["detail"]
            if same and im["outcome"] == "ok":
                same = canon_ir(mm["ir"], True) == canon_ir(im["ir"], True)
            if not same:
                res.disagreements.append({"case": case, "impl": im, "model": mm})
        v = judge_annotation(im, pyv, spec)
        if v is None:
            res.count("A:verdict:holds")
        else:
            res.count("A:verdict:" + ":".join(v.split(":")[:2]))
            res.violations.append({"signature": v, "case": case, "impl": im, "python": {k: pyv[k] for k in pyv if k != "declared"}})
        if pyv["status"] != "values" or not pyv["wellformed"] or pyv["declared"] != {"gets": [], "sets": [], "dels": [], "calls": []}:
            res.nontrivial.add(common.digest(["A", d]))
        if label == "base" or len(res.samples) < 3:
            res.sample({"stream": "A", "case": case, "impl": im}, cap=5)
    res.extra["annotation_cases"] = len(metas)
    res.extra["annotation_bases"] = len(bases)


# ===================================================================== stream D: per-definition decisions

DECOS = [
    # (source, head, call args (pos, kws) or None, role)
    ("rattr_ignore", "rattr_ignore", None, "ignore"),
    ("rattr_ignore()", "rattr_ignore", ([], []), "ignore"),
    ("ann.rattr_ignore", "rattr_ignore", None, "ignore"),
    ("rattr_results(gets={'z.decl_fn'})", "rattr_results", None, "results"),
    ("ann.rattr_results(sets={'z.decl_fn'}, calls=[('leaf', (['z'], {}))])", "rattr_results", None, "results"),
    ("rattr_results", "rattr_results", None, "results-bare"),
    ("rattr_results(gets=None)", "rattr_results", None, "results-bad"),
    ("rattr_results(gets={['a']})", "rattr_results", None, "results-bad"),
    ("rattr_results()(gets={'a'})", "rattr_results", None, "results"),
    ("other_deco", "other_deco", None, "other"),
    ("other(3)", "other", None, "other"),
    ("my_rattr_ignore", "my_rattr_ignore", None, "other"),
    ("rattr_ignored", "rattr_ignored", None, "other"),
    ("rattr_results_v2(gets={'z.decl_fn'})", "rattr_results_v2", None, "other"),
    ("f(1)(2).g", "g", None, "other"),
    ("d[0]", None, None, "bad"),
    ("(a + b)", None, None, "bad"),
]
PATTERNS = ["fn", "f.*", "Cls", r"Cls\.sm", "sm", "leaf", ".*", "nomatch", r"Cls\..*", "(fn|Cls)",
            "f", "n", "Cl", "ls", "FN", r"Cls\.s", "s"]       # proper prefixes / suffixes / other case: must NOT exclude
KIND_LABEL = {"func": "function", "afunc": "function", "cls": "class", "static": "static-method", "lam": "lambda"}


def deco_json(source):
    node = ast.parse(source, mode="eval").body
    n = node
    head = None
    while True:
        if isinstance(n, ast.Name):
            head = n.id
            break
        if isinstance(n, ast.Attribute):
            head = n.attr
            break
        if isinstance(n, ast.Call):
            n = n.func
            continue
        break
    call = None
    if isinstance(node, ast.Call):
        call = {"pos": [enc_lit(a) for a in node.args], "kws": [[k.arg, enc_lit(k.value)] for k in node.keywords]}
    return {"head": head, "call": call}


def decision_source(kind, decos, cls_decos):
    pre = "import rattr.analyser.annotations as ann\nfrom rattr.analyser.annotations import rattr_ignore, rattr_results\n\n\n" \
          "def leaf(z):\n    return z.body_leaf\n\n\n"
    dl = "".join(f"@{d}\n" for d in decos)
    if kind == "func":
        return pre + dl + "def fn(z):\n    return z.body_fn\n", "fn"
    if kind == "afunc":
        return pre + dl + "async def fn(z):\n    return z.body_fn\n", "fn"
    if kind == "cls":
        return pre + dl + "class Cls:\n    def __init__(self, z):\n        self.v = z.body_fn\n", "Cls"
    if kind == "static":
        cl = "".join(f"@{d}\n" for d in cls_decos)
        ml = "".join(f"    @{d}\n" for d in decos)
        return pre + cl + "class Cls:\n    @staticmethod\n" + ml + "    def sm(z):\n        return z.body_fn\n", "Cls.sm"
    return pre + "fn = lambda z: z.body_fn\n", "fn"


def run_decision_impl(source, key, patterns):
    impl.reset_config(target=vl.TARGET, _excluded_names=list(patterns))
    tree = ast.parse(source)
    with impl.Tap() as tap, enter_file(vl.TARGET), contextlib.redirect_stdout(io.StringIO()):
        def go():
            ctx = compile_root_context(tree)
            return FileAnalyser(tree, ctx).analyse()
        out = impl.outcome_of(go)
    if out[0] == "fatal":
        return {"outcome": "fatal", "detail": fatal_id(tap.events)}
    if out[0] == "crash":
        return {"outcome": "crash", "detail": crash_id(out[1], out[2]), "exc": out[1], "message": out[2]}
    entry = None
    for sym, ir in out[1].items():
        if sym.name == key:
            entry = impl_ir(ir)
    if entry is None:
        return {"outcome": "ok", "decision": "skip", "keys": sorted(s.name for s in out[1])}
    body = any(n[0].endswith("body_fn") for k in ("gets", "sets", "dels") for n in entry[k])
    return {"outcome": "ok", "decision": "analyse" if body else "declared", "ir": entry}


def stream_decisions(res, rng, model, tier):
    cases = []
    singles = [[d[0]] for d in DECOS] + [[]]
    pairs = [[a[0], b[0]] for a in DECOS for b in DECOS]
    for kind in ("func", "afunc", "cls", "static", "lam"):
        if kind == "lam":
            for pats in [[], ["fn"], ["nomatch"], ["f.*", "nomatch"], [".*"]]:
                cases.append((kind, [], [], pats))
            continue
        pool = singles + (pairs if tier == "thorough" else rng.sample(pairs, 40))
        for decos in pool:
            if kind == "static" and any(d in ("d[0]", "(a + b)") for d in decos):
                continue
            pats = rng.sample(PATTERNS, rng.choice([0, 0, 1, 1, 2]))
            cls_decos = []
            if kind == "static" and rng.random() < 0.25:
                cls_decos = [rng.choice(["rattr_ignore", "other_deco", "rattr_results(gets={'a'})"])]
            cases.append((kind, decos, cls_decos, pats))
        # every single pattern against an undecorated callable
        for p in PATTERNS:
            cases.append((kind, [], [], [p]))
        if kind == "static":
            # class-level markings reach the static method
            for cd in (["rattr_ignore"], ["ann.rattr_ignore", "other_deco"], ["other_deco"], ["rattr_results(gets={'a'})"]):
                for md in ([], ["rattr_results(gets={'z.decl_fn'})"], ["rattr_ignore"]):
                    cases.append((kind, md, cd, []))
            for p in ("Cls", "Cl", r"Cls\.sm", "C.*"):
                cases.append((kind, [], [], [p]))
    reqs, metas = [], []
    for kind, decos, cls_decos, pats in cases:
        source, key = decision_source(kind, decos, cls_decos)
        im = run_decision_impl(source, key, pats)
        verdicts = [re.fullmatch(p, key) is not None for p in pats]
        cls_verdicts = [re.fullmatch(p, "Cls") is not None for p in pats]
        payload = {"kind": {"afunc": "func"}.get(kind, kind), "name": key, "decos": [deco_json(d) for d in decos],
                   "verdicts": verdicts, "cls_decos": [deco_json(d) for d in cls_decos], "cls_verdicts": cls_verdicts}
        lits = [l for d in payload["decos"] + payload["cls_decos"] if d["call"] for l in d["call"]["pos"] + [v for _, v in d["call"]["kws"]]]
        if not in_fragment(lits):
            res.skipped_outside_fragment += 1
            continue
        reqs.append(("file_decision", payload))
        metas.append((kind, decos, cls_decos, pats, source, key, im, verdicts, cls_verdicts))
    outs = model.batch(reqs)
    roles = {d[0]: d[3] for d in DECOS}
    for (kind, decos, cls_decos, pats, source, key, im, verdicts, cls_verdicts), mo in zip(metas, outs):
        res.evaluations += 1
        case = {"source": source, "exclude": pats, "key": key}
        label = KIND_LABEL[kind]
        res.count(f"D:kind:{label}")
        res.count("D:impl:" + im["outcome"] + ":" + im.get("decision", im.get("detail", "")))
        if "__error__" in mo:
            res.disagreements.append({"case": case, "impl": im, "model": mo})
        else:
            mm = mo["model"]
            same = mm["outcome"] == im["outcome"]
            if same and im["outcome"] == "ok":
                same = mm["decision"] == im["decision"]
                if same and im["decision"] == "declared":
                    same = canon_ir(mm["ir"], False) == canon_ir(im["ir"], False)
            elif same:
                same = mm["detail"] == im["detail"]
            if not same:
                res.disagreements.append({"case": case, "impl": im, "model": mm})
        # ---- property oracle (independent of the model): what the source text says
        all_roles = [roles[d] for d in decos]
        cls_ignored = any(roles.get(d) == "ignore" for d in cls_decos)
        ignored = "ignore" in all_roles or cls_ignored
        excluded = any(verdicts) or (kind == "static" and any(cls_verdicts))
        res.nontrivial.add(common.digest(["D", kind, decos, cls_decos, verdicts, cls_verdicts]))
        if im["outcome"] == "crash":
            if im["detail"] == "TypeError:decorator" and "bad" in all_roles:
                res.count("D:verdict:crash-on-unnameable-decorator(C07-K2, not judged here)")
            elif im["detail"] == "TypeError:unhashable" and "results-bad" in all_roles and not ignored and not excluded:
                res.violations.append({"signature": "malformed-annotation-crash:TypeError:unhashable-set-element-or-dict-key", "case": case, "impl": im})
            else:
                res.violations.append({"signature": f"decision-crash:{im['detail']}:{label}", "case": case, "impl": im})
            continue
        if im["outcome"] == "fatal":
            res.count("D:verdict:fatal:" + im["detail"])
            if ignored or excluded:
                if "bad" not in all_roles:
                    res.violations.append({"signature": f"ignored-or-excluded-callable-still-parsed:{label}", "case": case, "impl": im})
            continue
        if ignored or excluded:
            if im["decision"] != "skip":
                if kind == "static" and "ignore" not in all_roles and not any(verdicts):
                    label = "static-method-of-" + ("ignored" if cls_ignored else "excluded") + "-class"
                sig = ("ignored" if ignored else "excluded") + f"-callable-in-results:{label}"
                res.violations.append({"signature": sig, "case": case, "impl": im})
                res.count("D:verdict:" + sig)
            else:
                res.count("D:verdict:holds:skipped")
            continue
        n_results = sum(1 for r in all_roles if r in ("results", "results-bare", "results-bad"))
        if n_results == 1 and "results-bad" not in all_roles and kind != "lam":
            if im["decision"] != "declared":
                sig = f"annotated-callable-body-analysed:{label}" if im["decision"] == "analyse" else f"annotated-callable-missing:{label}"
                res.violations.append({"signature": sig, "case": case, "impl": im})
                res.count("D:verdict:" + sig)
            else:
                res.count("D:verdict:holds:declared")
        elif n_results == 0:
            if im["decision"] != "analyse":
                res.violations.append({"signature": f"plain-callable-not-analysed:{label}:{im['decision']}", "case": case, "impl": im})
            else:
                res.count("D:verdict:holds:analysed")
        else:
            res.violations.append({"signature": f"malformed-or-duplicated-annotation-accepted:{label}", "case": case, "impl": im})
    res.extra["decision_cases"] = len(metas)


# ===================================================================== stream R: the exclusion verdicts (round 5)
# `is_excluded_name` = any(p.fullmatch(name)) over the compiled --exclude patterns. Model: RattrModel/Regex.lean (derivative
# matcher, proved to decide the language of the pattern); oracle: CPython's `re` on the rendered pattern.

R_ALPHA = "abfn_C.1"


def r_simple_cc(rng):
    k = rng.choice(["lit", "lit", "lit", "word", "digit", "range"])
    if k == "lit":
        return {"k": "lit", "c": rng.choice(R_ALPHA)}
    if k == "range":
        lo, hi = sorted(rng.sample("abcfnz", 2))
        return {"k": "range", "lo": lo, "hi": hi}
    return {"k": k}


def r_cc(rng):
    k = rng.choice(["simple"] * 5 + ["any", "any", "union", "neg"])
    if k == "simple":
        return r_simple_cc(rng)
    if k == "any":
        return {"k": "any"}
    u = r_simple_cc(rng)
    for _ in range(rng.randint(0, 2)):
        u = {"k": "union", "a": u, "b": r_simple_cc(rng)}
    return u if k == "union" and u["k"] == "union" else ({"k": "neg", "a": u} if k == "neg" else u)


def r_re(rng, depth):
    if depth <= 0 or rng.random() < 0.3:
        return {"k": "cls", "c": r_cc(rng)} if rng.random() < 0.93 else {"k": "eps"}
    k = rng.choice(["cat", "cat", "cat", "alt", "star", "plus", "opt"])
    if k in ("cat", "alt"):
        return {"k": k, "a": r_re(rng, depth - 1), "b": r_re(rng, depth - 1)}
    return {"k": k, "a": r_re(rng, depth - 1)}


def r_word(text):
    out = {"k": "eps"}
    for c in reversed(text):
        out = {"k": "cat", "a": {"k": "cls", "c": {"k": "lit", "c": c}}, "b": out}
    return out


def r_cc_inner(c):
    k = c["k"]
    if k == "lit":
        return re.escape(c["c"])
    if k == "word":
        return r"\w"
    if k == "digit":
        return r"\d"
    if k == "range":
        return c["lo"] + "-" + c["hi"]
    if k == "union":
        return r_cc_inner(c["a"]) + r_cc_inner(c["b"])
    raise ValueError(k)


def r_cc_render(c):
    k = c["k"]
    if k == "any":
        return "."
    if k in ("lit", "word", "digit"):
        return r_cc_inner(c)
    if k == "neg":
        return "[^" + r_cc_inner(c["a"]) + "]"
    return "[" + r_cc_inner(c) + "]"


def r_render(r):
    """The `re` source of a pattern AST (every compound operand in a non-capturing group)."""
    k = r["k"]
    if k == "eps":
        return "(?:)"
    if k == "cls":
        return r_cc_render(r["c"])
    if k == "cat":
        return r_grp(r["a"], "cat") + r_grp(r["b"], "cat")
    if k == "alt":
        return r_render(r["a"]) + "|" + r_render(r["b"])
    return r_grp(r["a"], "rep") + {"star": "*", "plus": "+", "opt": "?"}[k]


def r_grp(r, where):
    if r["k"] == "cls" or (where == "cat" and r["k"] in ("cat", "eps")):
        return r_render(r)
    return "(?:" + r_render(r) + ")"


def r_cc_sample(c, rng):
    cands = [ch for ch in R_ALPHA + "cz9X" if r_cc_test(c, ch)]
    return rng.choice(cands) if cands else None


def r_cc_test(c, ch):
    k = c["k"]
    if k == "lit":
        return ch == c["c"]
    if k == "any":
        return ch != "\n"
    if k == "word":
        return ch.isascii() and (ch.isalnum() or ch == "_")
    if k == "digit":
        return ch.isascii() and ch.isdigit()
    if k == "range":
        return c["lo"] <= ch <= c["hi"]
    if k == "union":
        return r_cc_test(c["a"], ch) or r_cc_test(c["b"], ch)
    return not r_cc_test(c["a"], ch)


def r_sample(r, rng):
    """A string of the pattern's language (None when a class is empty on the alphabet)."""
    k = r["k"]
    if k == "eps":
        return ""
    if k == "cls":
        return r_cc_sample(r["c"], rng)
    if k == "cat":
        a, b = r_sample(r["a"], rng), r_sample(r["b"], rng)
        return None if a is None or b is None else a + b
    if k == "alt":
        first, second = (r["a"], r["b"]) if rng.random() < 0.5 else (r["b"], r["a"])
        x = r_sample(first, rng)
        return x if x is not None else r_sample(second, rng)
    n = {"star": rng.choice([0, 1, 2]), "plus": rng.choice([1, 2]), "opt": rng.choice([0, 1])}[k]
    parts = [r_sample(r["a"], rng) for _ in range(n)]
    return None if any(x is None for x in parts) else "".join(parts)


def r_excluded_impl(patterns, name):
    from rattr.analyser.util import is_excluded_name
    impl.reset_config(target=vl.TARGET, _excluded_names=list(patterns))
    return impl.outcome_of(is_excluded_name, name)


def stream_patterns(res, rng, model, tier):
    n_sets = 160 if tier == "quick" else 2500
    cases = []
    fixed = [([r_word("get")], ["get", "get_all", "xget", "ge", "Get", ""]),
             ([r_word("all"), r_word("fn")], ["get_all", "all", "fn", "fn1", "afn"]),
             ([{"k": "cat", "a": r_word("_"), "b": {"k": "star", "a": {"k": "cls", "c": {"k": "any"}}}}], ["_a", "a_", "_", "__init__", "a._b"]),
             ([r_word("C.f")], ["C.f", "CXf", "C.f1", "C"]),
             ([{"k": "cat", "a": r_word("C"), "b": {"k": "cat", "a": {"k": "cls", "c": {"k": "any"}}, "b": r_word("f")}}], ["C.f", "CXf", "Cf", "C.ff"]),
             ([], ["fn", ""])]
    for asts, names in fixed:
        cases.append((asts, names))
    for _ in range(n_sets):
        asts = [r_re(rng, rng.choice([1, 2, 2, 3])) for _ in range(rng.choice([1, 1, 1, 2, 3]))]
        names = set()
        for a in asts:
            for _ in range(3):
                x = r_sample(a, rng)
                if x is not None:
                    names.add(x)
                    names.add(x + rng.choice(R_ALPHA))                 # a full match followed by one more character
                    names.add(rng.choice(R_ALPHA) + x)                 # … preceded by one
                    if x:
                        names.add(x[:-1])
                        i = rng.randrange(len(x))
                        names.add(x[:i] + rng.choice(R_ALPHA) + x[i + 1:])
        for _ in range(3):
            names.add("".join(rng.choice(R_ALPHA) for _ in range(rng.randint(0, 5))))
        cases.append((asts, sorted(names)))
    outs = model.batch([("re_match", {"pats": asts, "names": names}) for asts, names in cases])
    n_file = 0
    for (asts, names), mo in zip(cases, outs):
        pats = [r_render(a) for a in asts]
        if "__error__" in mo:
            res.disagreements.append({"case": {"patterns": pats}, "model": mo})
            continue
        compiled = [re.compile(p) for p in pats]
        for name, row in zip(names, mo["rows"]):
            res.evaluations += 1
            py_full = [c.fullmatch(name) is not None for c in compiled]
            py_prefix = [c.match(name) is not None for c in compiled]
            py_search = [c.search(name) is not None for c in compiled]
            case = {"exclude": pats, "name": name}
            if row["full"] != py_full or row["prefix"] != py_prefix or row["search"] != py_search:
                res.internal_errors.append({"what": "Regex model disagrees with CPython re on the rendered pattern", "case": case,
                                            "model": row, "python": {"full": py_full, "prefix": py_prefix, "search": py_search}})
                continue
            want = any(py_full)
            kind = ("full-match" if want else "prefix-match-only" if any(py_prefix) else "infix-match-only" if any(py_search) else "no-match")
            res.count("R:name:" + kind)
            out = r_excluded_impl(pats, name)
            if out[0] != "ok":
                res.violations.append({"signature": f"exclusion-verdict:{out[0]}:{out[1] if len(out) > 1 else ''}", "case": case})
                continue
            got = bool(out[1])
            if got != row["excluded"]:
                res.disagreements.append({"case": case, "impl": {"is_excluded_name": got}, "model": row})
            if got != want:
                res.violations.append({"signature": "exclusion-verdict:" + ("excluded-on-a-" + kind if got else "full-match-not-excluded"),
                                       "case": case, "impl": {"is_excluded_name": got}})
            if want or any(py_prefix) or any(py_search):
                res.nontrivial.add(common.digest(["R", pats, name]))
            # the same verdict where it is consumed: a module-level def of that name in a file
            if name.isidentifier() and name not in ("True", "False", "None") and (kind != "no-match" or rng.random() < 0.1) \
                    and n_file < (250 if tier == "quick" else 3000):
                n_file += 1
                source = f"def {name}(a):\n    return a.body_fn\n"
                im = run_decision_impl(source, name, pats)
                res.count("R:file:" + im["outcome"] + ":" + im.get("decision", im.get("detail", "")))
                if im["outcome"] != "ok" or im["decision"] != row["decision"]:
                    res.disagreements.append({"case": {"source": source, "exclude": pats, "key": name}, "impl": im, "model": row["decision"]})
                if im["outcome"] == "ok" and (im["decision"] == "skip") != want:
                    res.violations.append({"signature": "excluded-callable-in-results:function:by-pattern" if want
                                           else "callable-excluded-without-a-full-match:function:" + kind,
                                           "case": {"source": source, "exclude": pats, "key": name}, "impl": im})
    res.extra["pattern_sets"] = len(cases)
    res.extra["pattern_file_cases"] = n_file


# ===================================================================== stream B: end to end through the CLI

HDR = "from rattr.analyser.annotations import rattr_ignore, rattr_results\n"


class Unit:
    """One markable callable of the generated project."""

    def __init__(self, uid, file, kind, name, cls=None):
        self.uid, self.file, self.kind, self.name, self.cls = uid, file, kind, name, cls

    @property
    def key(self):                      # results key / call expression
        return f"{self.cls}.{self.name}" if self.kind == "static" else self.name

    @property
    def mark(self):
        return self.key.replace(".", "_")


def units():
    return [
        Unit("tf1", "target", "func", "tf1"), Unit("tf2", "target", "afunc", "tf2"), Unit("tl", "target", "lam", "tl"),
        Unit("TC", "target", "cls", "TC"), Unit("TS.sm", "target", "static", "sm", cls="TS"), Unit("TS", "target", "holder", "TS"),
        Unit("lf1", "lib", "func", "lf1"), Unit("lf2", "lib", "func", "lf2"), Unit("LC", "lib", "cls", "LC"),
        Unit("LS.sm", "lib", "static", "sm", cls="LS"),
    ]


def applicable(u, marking):
    if u.kind == "lam":
        return marking == "exclude"
    if u.kind == "holder":
        return marking in ("ignore", "exclude")
    return True


# declared-call forms written into every annotated TARGET callable:
# (form, declared call name, positional names, keyword map, mark of the callee's distinctive attribute)
FORMS = [
    ("local-function", "t_leaf", ["z"], {}, "t_leaf"),
    ("module-member", "lib.d_mod", ["z"], {}, "d_mod"),
    ("module-alias-member", "lb.d_alias", ["z"], {}, "d_alias"),
    ("from-import-by-keyword", "d_from", [], {"w": "z"}, "d_from"),
    ("local-static-method", "TDS.sm", ["z"], {}, "TDS_sm"),
    ("local-class-constructor", "TDC", ["z", "z"], {}, "TDC"),
    ("from-imported-class-constructor", "LDC", ["z", "z"], {}, "LDC"),
    ("from-imported-class-static-method", "LDS.sm", ["z"], {}, "LDS_sm"),
    ("module-member-class-constructor", "lib.LMC", ["z", "z"], {}, "LMC"),
    ("module-member-static-method", "lib.LMS.sm", ["z"], {}, "LMS_sm"),
]
LIB_FORMS = [("local-function", "l_leaf", ["z"], {}, "l_leaf")]
# the same call forms written as REAL calls in plain functions (information only: which forms the code follows at all)
DIRECT = {"t_leaf": "t_leaf(z)", "d_mod": "lib.d_mod(z)", "d_alias": "lb.d_alias(z)", "d_from": "d_from(w=z)",
          "TDS_sm": "TDS.sm(z)", "TDC": "x = TDC(z)", "LDC": "x = LDC(z)", "LDS_sm": "LDS.sm(z)",
          "LMC": "x = lib.LMC(z)", "LMS_sm": "lib.LMS.sm(z)"}

LIB_CALLEES = """

def d_mod(w):
    return w.body_d_mod


def d_alias(w):
    return w.body_d_alias


def d_from(w):
    return w.body_d_from


class LDC:
    def __init__(self, w):
        self.v = w.body_LDC


class LDS:
    @staticmethod
    def sm(w):
        return w.body_LDS_sm


class LMC:
    def __init__(self, w):
        self.v = w.body_LMC


class LMS:
    @staticmethod
    def sm(w):
        return w.body_LMS_sm
"""
TARGET_CALLEES = """

class TDC:
    def __init__(self, w):
        self.v = w.body_TDC


class TDS:
    @staticmethod
    def sm(w):
        return w.body_TDS_sm
"""


def forms_of(u):
    return FORMS if u.file == "target" else LIB_FORMS


def annot(u):
    m = u.mark
    calls = ", ".join("(" + json.dumps(name) + ", (" + json.dumps(pos) + ", " + json.dumps(kw) + "))"
                      for _, name, pos, kw, _ in forms_of(u))
    return (f"@rattr_results(gets={{\"z.dg_{m}\"}}, sets={{\"z.ds_{m}\"}}, dels={{\"z.dd_{m}\"}}, "
            f"calls=[{calls}])\n")


def build_project(assign):
    """assign: uid -> 'ignore' | 'exclude' | 'results' (absent = unmarked). Returns (files, patterns)."""
    us = {u.uid: u for u in units()}
    patterns = [re.escape(us[uid].key) for uid, m in assign.items() if m == "exclude"]

    def decos(uid, leaf, indent=""):
        m = assign.get(uid)
        if m == "ignore":
            return indent + "@rattr_ignore\n"
        if m == "results":
            return indent + annot(us[uid])
        return ""

    def file_src(prefix, leaf, f1, f2, f2_async, lam, c, s):
        out = [HDR]
        if prefix == "t":
            out.append("import lib\nimport lib as lb\nfrom lib import lf1, lf2, LC, LS, d_from, LDC, LDS\n")
        out.append(f"\n\ndef {leaf}(z):\n    return z.body_{leaf}\n")
        out.append(TARGET_CALLEES if prefix == "t" else LIB_CALLEES)
        out.append(f"\n\n{decos(f1, leaf)}def {f1}(z):\n    return z.body_{f1}\n")
        a = "async " if f2_async else ""
        out.append(f"\n\n{decos(f2, leaf)}{a}def {f2}(z):\n    return z.body_{f2}\n")
        if lam:
            out.append(f"\n\n{lam} = lambda z: z.body_{lam}\n")
        out.append(f"\n\n{decos(c, leaf)}class {c}:\n    def __init__(self, z):\n        self.v = z.body_{c}\n")
        sm = f"{s}.sm"
        out.append(f"\n\n{decos(s, leaf)}class {s}:\n    @staticmethod\n{decos(sm, leaf, '    ')}    def sm(z):\n        return z.body_{s}_sm\n")
        return "".join(out)

    lib = file_src("l", "l_leaf", "lf1", "lf2", False, None, "LC", "LS")
    tgt = file_src("t", "t_leaf", "tf1", "tf2", True, "tl", "TC", "TS")
    callers = []
    for u in units():
        if u.kind == "holder":
            continue
        call = f"    x = {u.key}(p.q)\n" if u.kind == "cls" else f"    {u.key}(p.q)\n"
        callers.append(f"\n\ndef c_{u.mark}(p):\n{call}")
    callers.append("\n\ndef c_mod_lf1(p):\n    lib.lf1(p.q)\n")
    for cm, stmt in DIRECT.items():
        callers.append(f"\n\ndef b_{cm}(z):\n    {stmt}\n")
    tgt += "".join(callers)
    return {"target.py": tgt, "lib.py": lib}, patterns


def run_cli(project, patterns):
    cmd = [sys.executable, "-m", "rattr", "-o", "results"]
    for p in patterns:
        cmd += ["-x", p]
    cmd.append("target.py")
    env = dict(os.environ, PYTHONHASHSEED="0")
    p = subprocess.run(cmd, cwd=str(project), capture_output=True, text=True, timeout=300, env=env)
    return p.returncode, p.stdout, p.stderr


MARK_RE = re.compile(r"(body|dg|ds|dd)_([A-Za-z0-9_]+)")


def marks(entry):
    """{(set, prefix, kind, unit-mark)} for every distinctive attribute in a results entry."""
    out = set()
    for k in ("gets", "sets", "dels"):
        for n in entry.get(k, []):
            m = MARK_RE.search(n)
            if m:
                out.add((k, n[:m.start()], m.group(1), m.group(2)))
    return out


def judge_project(assign, results, inlinable):
    """Independent oracle: from the markings written into the source, what may / must appear. Yields
    (signature, detail)."""
    us = {u.uid: u for u in units()}

    def status(u):
        m = assign.get(u.uid)
        if u.kind == "static" and assign.get(u.cls) in ("ignore", "exclude"):
            return "skipped"
        if m in ("ignore", "exclude"):
            return "skipped"
        return "declared" if m == "results" else "plain"

    label = {"func": "function", "afunc": "function", "cls": "class", "static": "static-method", "lam": "lambda"}
    for u in units():
        if u.kind == "holder":
            continue
        st = status(u)
        why = assign.get(u.uid) if assign.get(u.uid) in ("ignore", "exclude") else (assign.get(u.cls) if u.kind == "static" else None)
        word = {"ignore": "ignored", "exclude": "excluded"}.get(why, "")
        leaf = "t_leaf" if u.file == "target" else "l_leaf"
        lb = label[u.kind]
        if u.kind == "static" and st == "skipped" and assign.get(u.uid) not in ("ignore", "exclude"):
            lb = f"static-method-of-{word}-class"
        where = "" if u.file == "target" else ":imported"
        # --- (i) keys
        if u.file == "target":
            if st == "skipped" and u.key in results:
                yield f"{word}-callable-in-results:{lb}", {"unit": u.uid}
            if st != "skipped" and u.key not in results:
                yield f"callable-missing-from-results:{lb}:{st}", {"unit": u.uid}
        # --- body marks anywhere
        for key, entry in results.items():
            for (k, prefix, kind, m) in marks(entry):
                if m != u.mark:
                    continue
                own = key == u.key
                caller = key == f"c_{u.mark}" or (u.uid == "lf1" and key == "c_mod_lf1")
                if kind == "body":
                    if st == "skipped" and not own:
                        yield f"{word}-callable-inlined:{lb}{where}", {"unit": u.uid, "in": key}
                    elif st == "declared":
                        yield f"annotated-callable-body-analysed:{lb}{where}", {"unit": u.uid, "in": key}
                    elif not own and not caller:
                        yield "body-attribute-in-unrelated-entry", {"unit": u.uid, "in": key}
                else:
                    if st != "declared":
                        yield "declared-name-of-unannotated-callable", {"unit": u.uid, "in": key}
                    elif not own and not caller:
                        yield "declared-name-in-unrelated-entry", {"unit": u.uid, "in": key}
        # --- (ii) declared entries: exactly the declared names, every declared call followed and substituted
        if st == "declared":
            forms = forms_of(u)

            def check(e, prefix, extra_names, who):
                """own entry / caller entry against the declaration; yields (signature, detail)"""
                got = marks(e)
                if any(m[2] == "body" and m[3] == u.mark for m in got):
                    return                        # body analysed: already reported above
                for k, kind in (("gets", "dg"), ("sets", "ds"), ("dels", "dd")):
                    if (k, prefix, kind, u.mark) not in got:
                        if any(m[0] == k and m[2] == kind and m[3] == u.mark for m in got):
                            yield f"declared-names-not-substituted:{lb}{where}", {who: e}
                        else:
                            yield f"declared-names-not-inlined:{lb}{where}", {who: e}
                for form, name, _, _, cm in forms:
                    hits = [m for m in got if m[2] == "body" and m[3] == cm]
                    if not hits:
                        yield f"declared-call-not-followed:{form}{where}", {who: e, "declared_call": name}
                    elif ("gets", prefix, "body", cm) not in hits:
                        yield f"declared-call-not-substituted:{form}{where}", {who: e, "declared_call": name}
                allowed = {(u.mark, "dg"), (u.mark, "ds"), (u.mark, "dd")} | {(f[4], "body") for f in forms}
                for m in got:
                    if (m[3], m[2]) not in allowed:
                        yield f"annotated-entry-not-exactly-declared:{lb}", {who: e, "extra": list(m)}
                for k in ("gets", "sets", "dels"):
                    for n in e.get(k, []):
                        if not MARK_RE.search(n) and n not in extra_names:
                            yield f"annotated-entry-not-exactly-declared:{lb}", {who: e, "extra": n}

            if u.file == "target" and u.key in results:
                e = results[u.key]
                yield from check(e, "z.", {"z.v"}, "entry")
                if sorted(e.get("calls", [])) != sorted(f[1] + "()" for f in forms) \
                        and not any(m[2] == "body" and m[3] == u.mark for m in marks(e)):
                    yield f"annotated-entry-not-exactly-declared:{lb}", {"entry": e, "calls": e.get("calls")}
            for ck in ([f"c_{u.mark}"] + (["c_mod_lf1"] if u.uid == "lf1" else [])):
                if ck not in inlinable:
                    continue                      # the pinned code never inlines this callee kind (not C11's business)
                e = results.get(ck)
                if e is None:
                    yield "caller-missing-from-results", {"caller": ck}
                    continue
                if u.kind == "cls" and u.file == "lib":
                    # [interp] imported classes are mis-bound by the pinned code (C06/C09 finding): presence only
                    have = {(m[0], m[2], m[3]) for m in marks(e)}
                    need = {("gets", "dg", u.mark), ("sets", "ds", u.mark), ("dels", "dd", u.mark)} | \
                           {("gets", "body", f[4]) for f in forms}
                    if not need <= have and not any(m[2] == "body" and m[3] == u.mark for m in marks(e)):
                        yield f"declared-names-not-inlined:{lb}{where}", {"caller": ck, "entry": e}
                    continue
                yield from check(e, "p.q.", {"p.q", "p.q.v", "x", "x.v"}, "caller_entry")
    # --- the callees of declared calls appear only where a declaration (or a real call) puts them
    declared_units = {u.uid for u in units() if u.kind != "holder" and status(u) == "declared"}
    for _, name, _, _, cm in FORMS:
        ok_keys = {name, "b_" + cm}
        for u in units():
            if u.uid in declared_units and u.file == "target":
                ok_keys |= {u.key, f"c_{u.mark}"}
        if cm == "t_leaf":
            continue
        for key, entry in results.items():
            if key not in ok_keys and any(m[2] == "body" and m[3] == cm for m in marks(entry)):
                yield "body-attribute-in-unrelated-entry", {"callee": name, "in": key}


def stream_cli(res, rng, tier):
    us = units()
    assigns = []
    inlinable = set()

    def add(a):
        a = {k: v for k, v in a.items() if v}
        key = json.dumps(a, sort_keys=True)
        if key not in seen:
            seen.add(key)
            assigns.append(a)

    seen = set()
    add({})
    for marking in ("ignore", "exclude", "results"):
        for file in ("target", "lib"):
            pool = [u.uid for u in us if u.file == file and applicable(u, marking)]
            subsets = [s for r in range(1, len(pool) + 1) for s in itertools.combinations(pool, r)]
            if tier == "quick":
                singles = [s for s in subsets if len(s) == 1]
                rest = [s for s in subsets if len(s) > 1]
                subsets = singles + rng.sample(rest, min(len(rest), 3))
            for s in subsets:
                add({uid: marking for uid in s})
    n_mixed = 30 if tier == "quick" else 150
    for _ in range(n_mixed):
        a = {}
        for u in us:
            m = rng.choice([None, None, "ignore", "exclude", "results"])
            if m and applicable(u, m):
                a[u.uid] = m
        add(a)
    res.extra["cli_assignments"] = len(assigns)
    res.extra["exhaustive"] = tier == "thorough"
    res.extra["exhaustive_scope"] = ("all subsets of the 6 target units and of the 4 import units, per marking kind"
                                     if tier == "thorough" else "singletons exhaustive; larger subsets sampled")

    tmp = Path(tempfile.mkdtemp(prefix="rattr-c11-"))
    try:
        jobs = []
        for i, a in enumerate(assigns):
            files, patterns = build_project(a)
            d = tmp / f"p{i}"
            d.mkdir()
            for name, text in files.items():
                (d / name).write_text(text)
            jobs.append((d, a, files, patterns))
        with ThreadPoolExecutor(max_workers=12) as ex:
            outs = list(ex.map(lambda j: run_cli(j[0], j[3]), jobs))
        for (d, a, files, patterns), (rc, out, err) in zip(jobs, outs):
            res.evaluations += 1
            case = {"assignment": a, "exclude": patterns, "files": files}
            for m in a.values():
                res.count("B:marking:" + m)
            try:
                results = json.loads(out)
            except Exception:
                results = None
            if rc != 0 or results is None:
                res.violations.append({"signature": f"cli-failed:rc={rc}", "case": case, "stderr": err[-1500:]})
                continue
            if a:
                res.nontrivial.add(common.digest(["B", a]))
            # harness sanity (non-vacuity): unmarked callees ARE inlined into their callers
            if not a:
                for u in us:
                    for ck in ([f"c_{u.mark}"] + (["c_mod_lf1"] if u.uid == "lf1" else [])):
                        if any(x[2] == "body" and x[3] == u.mark for x in marks(results.get(ck, {}))):
                            inlinable.add(ck)
                res.extra["baseline_inlined_callers"] = sorted(inlinable)
                res.extra["direct_call_forms_followed"] = {
                    f[0]: any(x[2] == "body" and x[3] == f[4] for x in marks(results.get("b_" + f[4], {}))) for f in FORMS}
                for ck in ("c_tf1", "c_tf2", "c_TC", "c_TS_sm", "c_lf1", "c_lf2", "c_tl", "c_mod_lf1", "c_LC"):
                    if ck not in inlinable:
                        res.internal_errors.append({"what": "baseline project: unmarked callee not inlined", "caller": ck})
            found = {}
            for sig, detail in judge_project(a, results, inlinable):
                found.setdefault(sig, detail)
            if not found:
                res.count("B:verdict:holds")
            for sig, detail in found.items():
                res.count("B:verdict:" + sig)
                res.violations.append({"signature": sig, "case": case, "detail": detail,
                                       "results": {k: results[k] for k in list(results)[:40]}})
            if len(a) >= 2:
                res.sample({"stream": "B", "assignment": a, "exclude": patterns}, cap=8)
    finally:
        shutil.rmtree(tmp, ignore_errors=True)


# ===================================================================== run

def run(tier, seed, build):
    warnings.simplefilter("ignore")
    res = common.Result(PID)
    res.rule = ("N: all one- and two-character ASCII contexts of every ASCII character + seeded random strings through is_name; "
                "A: a fixed full well-formed rattr_results argument set + seeded random ones, each with EVERY single-point mutation "
                "(every tree position x 35 replacement literals of every kind, element drop / append / duplicate, key removed / renamed / "
                "**-unpacked / made positional, extra key, extra positional, **d, key=None); D: {def, async def, class, static method, "
                "lambda} x decorator lists of length <= 2 over 17 decorator forms x exclusion-pattern sets; R: generated exclusion patterns of the regular "
                "fragment (as ASTs, rendered to `re` source) x names drawn from each pattern's language, one-character extensions / truncations / "
                "substitutions of those, and random names: is_excluded_name and the file analyser on a def of that name vs the Lean matcher vs CPython's re; B: generated two-file projects "
                "through the real CLI, subsets of 10 markable callables per marking kind + mixed assignments; every annotated target callable declares "
                "calls in 10 forms (local function, `lib.f`, `lb.f` through an alias, from-import by keyword, local / from-imported / module-member "
                "static method and class constructor) into the followed import, each callee with its own distinctive attribute that must show up, "
                "substituted, in the annotated entry and in its caller; U / M (props/c11subst.py): annotated callables over all parameter kinds "
                "with declared gets / sets / dels on several parameters and declared calls (to plain, annotated and nested helpers, same file and "
                "across the import boundary) whose arguments are parameters, called with arguments that are permutations of / overlap with the "
                "callee's OWN parameter names, by position and by keyword, directly and through a plain intermediate, same file / from-import / "
                "module-import, in-process and through the CLI; oracle = CPython's binding applied simultaneously. non-trivial = distinct "
                "accepted identifier (N), distinct generated case / project (U, M), distinct decorator text that is not the empty well-formed annotation (A), distinct (kind, decorators, "
                "verdicts) (D), distinct non-empty assignment (B)")
    rng = random.Random(seed)
    model = common.Model()
    stream_names(res, rng, model, tier)
    stream_annotations(res, rng, model, tier)
    stream_decisions(res, rng, model, tier)
    stream_patterns(res, random.Random(seed + 1105), model, tier)
    stream_cli(res, rng, tier)
    from props import c11subst
    c11subst.unit_stage(res, random.Random(seed + 1101), 400 if tier == "quick" else 4000, model)
    c11subst.module_stage(res, random.Random(seed + 1102), 12 if tier == "quick" else 150, model,
                          cli_sample=3 if tier == "quick" else 12)
    res.assumptions = [
        "[interp] gets=None / sets=None / dels=None / calls=None: the decorator's own signature (rattr/analyser/annotations.py) makes None the "
        "default of every keyword, the analyser-side parser demands set[Identifier]; the Lean spec counts None as ill-formed (fatal expected and "
        "observed); the harness additionally reports the rejection of the signature's own default as a finding",
        "[interp] `**{...}` in the decorator call is counted as ill-formed (documented: dictionary unpacking cannot be evaluated at compile-time)",
        "[interp] a declared call name keeps rattr's spelling of call names (trailing `()` removed)",
        "[interp] callers of an imported class annotated with rattr_results are only required to show the declared names (argument binding of "
        "imported classes is C06/C09's finding)",
        "[interp] a declared constructor call names the instance explicitly as its first positional name ((\"Cls\", ([inst, arg], {}))): no "
        "instance is synthesised for declared calls",
        "identifier fragment: ASCII; `\\w` of re_rattr_name matches non-ASCII word characters, not modelled",
        "re.fullmatch on user patterns: modelled on the regular fragment (RattrModel/Regex.lean: classes, `.`, `\\w`, `\\d`, ranges, negated classes, "
        "concatenation, `|`, `*`, `+`, `?`; ASCII names) and compared with CPython's re on every generated (pattern, name) (stream R); outside the "
        "fragment (anchors, back-references, look-around, flags, non-ASCII) the verdicts stay a parameter computed by CPython's re (stream D)",
        "a crash on a decorator get_attrname cannot name (`@d[0]`) is C07-K2's finding and is not judged by C11",
    ]
    return res


def replay(path):
    j = json.load(open(path))
    print(json.dumps({k: j[k] for k in j if k not in ("results",)}, indent=1)[:6000])
    case = j.get("case", {})
    warnings.simplefilter("ignore")
    if case.get("stage") in ("module", "declared-unbind"):
        from props import c11subst
        return c11subst.replay_case(j)
    if "decorator" in case:
        impl.reset_config(target=vl.TARGET)
        tree, ctx = vl.prepare(CTX_SRC)
        im, fn = run_annotation_impl(case["decorator"], ctx)
        print("implementation now:", json.dumps(im, default=str))
    elif "files" in case:
        tmp = Path(tempfile.mkdtemp(prefix="rattr-c11r-"))
        try:
            for name, text in case["files"].items():
                (tmp / name).write_text(text)
            rc, out, err = run_cli(tmp, case.get("exclude", []))
            print("rc", rc)
            print(out[:4000])
            print(re.sub(r"\x1b\[[0-9;]*m", "", err)[-2000:])
        finally:
            shutil.rmtree(tmp, ignore_errors=True)
    elif "source" in case:
        print("implementation now:", json.dumps(run_decision_impl(case["source"], case["key"], case.get("exclude", [])), default=str))
    return 0

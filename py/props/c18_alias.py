"""C18, import SETS whose members collide under a coarser key (the `imports` list of the cache document).

`make_cacheable_import_info` collects one `CacheableImportInfo(filepath=spec.origin, filehash=md5(content))`
per followed `Import` symbol of the target's and of every analysed file's root context into a SET and prints
`sorted(that set, key=<key>)`.  The list is a function of the analysis alone iff <key> separates the members
of the set: the pristine key is the recorded `filepath` (two members with one path are the same member), any
coarser key (the RESOLVED path, the content hash, the file name, a case-folded path, ...) leaves tied members
in the set's iteration order, i.e. in the order of `hash(str)` under PYTHONHASHSEED.

Ordinary projects never have two import infos that agree on anything.  This module provides projects that do:

  symlink-file     one module file reachable under k names through symbolic links in the project root
  symlink-dir      one package directory reachable under k names through directory links
  symlink-outside  k links in the project root to one file in a directory that is not a package
  copies           k module files with byte-identical content (equal `filehash`)
  same-basename    k packages holding a module of the same file name
  case-variants    module files whose names differ in letter case only
  subdir-on-path   a package directory that is ALSO on the module search path (PYTHONPATH): one origin under
                   two module names (the set merges them), plus a link inside it

each with the names of one group imported by the target, by a followed import (a hub), or by both, in every
import spelling; and
  * `forced_set_orders`  the deterministic in-process channel: `make_cacheable_import_info` run with the set's
                         iteration order forced to chosen permutations (hash of a member := its rank);
  * `cli_cache`          the real CLI with `-o cacheable -C <file>`: stdout AND the written cache file.

A project is {relative path: source | {"symlink": link target}}; the regular file `.c18_pythonpath` (one
project-relative directory per line) lists extra module search path entries.
"""
from __future__ import annotations

import contextlib
import os
import subprocess
import sys
from pathlib import Path

PYTHONPATH_FILE = ".c18_pythonpath"

KINDS = ["symlink-file", "symlink-dir", "symlink-outside", "copies", "same-basename", "case-variants",
         "subdir-on-path"]
FORMS = ["import", "import_as", "from_fn", "from_cls", "from_multi", "star"]
WORDS = ["amber", "birch", "cedar", "dune", "ember", "fjord", "grove", "heath", "islet", "jade", "kelp", "loam",
         "marsh", "north", "oasis", "peat", "quartz", "reef", "shale", "tarn", "umber", "vale", "wold", "yew"]


def sym(target):
    return {"symlink": target}


# ------------------------------------------------------------------ sources

def leaf_source(tag, head=()):
    src = "".join(h + "\n" for h in head) + ("\n\n" if head else "")
    src += f"def fn_{tag}(x):\n    x.seen_{tag} = x.payload_{tag}\n    return x.res_{tag}\n\n\n"
    src += f"class Cls_{tag}:\n    def __init__(self, a):\n        self.w = a.w_{tag}\n"
    return src


def import_lines(mod, tag, form, uid):
    """(import statement, calls with argument `x`) for module `mod` whose members are fn_<tag> / Cls_<tag>.
    `uid` keeps the bound names of two spellings of one file apart."""
    if "." in mod and form == "star":
        form = "from_fn"    # `from a.b import *` outside __init__.py is a known crash (C07, K1): not this property
    if tag is None:
        # no call through this name (a second name of an ORIGIN already analysed has no IR: known crash,
        # C07 `same-origin-under-another-name`); the Import symbol still enters the import set
        return {"import": f"import {mod}", "import_as": f"import {mod} as al_{uid}"}.get(form, f"import {mod}"), []
    if form == "import":
        return f"import {mod}", [f"{mod}.fn_{tag}(x)"]
    if form == "import_as":
        return f"import {mod} as al_{uid}", [f"al_{uid}.fn_{tag}(x)"]
    if form == "from_fn":
        return f"from {mod} import fn_{tag}", [f"fn_{tag}(x)"]
    if form == "from_cls":
        return f"from {mod} import Cls_{tag}", [f"Cls_{tag}(x)"]
    if form == "from_multi":
        return f"from {mod} import fn_{tag}, Cls_{tag}", [f"fn_{tag}(x)", f"Cls_{tag}(x.m_{uid})"]
    if form == "star":
        return f"from {mod} import *", [f"fn_{tag}(x)"]
    raise ValueError(form)


def user_source(fn, uses, extra_head=()):
    """A module importing `uses` = [(module, tag, form)] and calling into each from `fn`."""
    head, calls = list(extra_head), []
    for uid, (mod, tag, form) in enumerate(uses):
        line, cs = import_lines(mod, tag, form, f"{fn}{uid}")
        head.append(line)
        calls += cs
    src = "\n".join(head) + "\n\n\n"
    src += f"def {fn}(x, y):\n    x.job_{fn} = y.result\n" + "".join(f"    {c}\n" for c in calls) + f"    return x.status_{fn}\n"
    return src


# ------------------------------------------------------------------ tie groups

def make_group(kind, names, word):
    """files and the importable names of ONE group: returns (files, [(module name, tag)], pythonpath entries).
    `names`: k distinct identifiers (their sorted order is unrelated to their order here)."""
    files, mods, ppath = {}, [], []
    if kind == "symlink-file":
        real = names[0]
        files[f"{real}.py"] = leaf_source(word)
        mods.append((real, word))
        for a in names[1:]:
            files[f"{a}.py"] = sym(f"{real}.py")
            mods.append((a, word))
    elif kind == "symlink-dir":
        real = names[0]
        files[f"{real}/__init__.py"] = f"PKG_{word.upper()} = 1\n"
        files[f"{real}/inner.py"] = leaf_source(word)
        mods.append((f"{real}.inner", word))
        for a in names[1:]:
            files[a] = sym(real)
            mods.append((f"{a}.inner", word))
    elif kind == "symlink-outside":
        files[f"store_{word}/real_{word}.py"] = leaf_source(word)
        for a in names:
            files[f"{a}.py"] = sym(f"store_{word}/real_{word}.py")
            mods.append((a, word))
    elif kind == "copies":
        for a in names:
            files[f"{a}.py"] = leaf_source(word)
            mods.append((a, word))
    elif kind == "same-basename":
        for i, a in enumerate(names):
            files[f"{a}/__init__.py"] = ""
            # two of them byte-identical as well, the others differ
            files[f"{a}/util_{word}.py"] = leaf_source(word if i < 2 else f"{word}{i}")
            mods.append((f"{a}.util_{word}", word if i < 2 else f"{word}{i}"))
    elif kind == "case-variants":
        base = names[0]
        variants = [base, base.capitalize(), base.upper(), base[0] + base[1:].upper()][:len(names)]
        for i, v in enumerate(variants):
            files[f"{v}.py"] = leaf_source(f"{word}{i}")
            mods.append((v, f"{word}{i}"))
    elif kind == "subdir-on-path":
        d = names[0]
        files[f"{d}/__init__.py"] = ""
        files[f"{d}/mod_{word}.py"] = leaf_source(word)
        ppath.append(d)
        mods.append((f"{d}.mod_{word}", None))      # through the working directory
        mods.append((f"mod_{word}", None))          # through the extra search path entry: the SAME origin
        for a in names[1:]:
            files[f"{d}/{a}.py"] = sym(f"mod_{word}.py")
            mods.append((a, None))
            mods.append((f"{d}.{a}", None))
    else:
        raise ValueError(kind)
    return files, mods, ppath


def build_project(groups, placement, forms, plain=()):
    """groups: [(kind, names, word)]; placement[(g, i)] in 'target' | 'hub' | 'both' | 'hub2';
    forms[(g, i)]: import spelling.  hub = a module the target imports; hub2 = a module hub imports."""
    files, ppath = {}, []
    uses = {"target": [], "hub": [], "hub2": []}
    meta_groups = []
    for g, (kind, names, word) in enumerate(groups):
        gfiles, mods, pp = make_group(kind, names, word)
        files.update(gfiles)
        ppath += pp
        meta_groups.append({"kind": kind, "members": len(mods)})
        for i, (mod, tag) in enumerate(mods):
            where = placement.get((g, i), "target")
            form = forms.get((g, i), "import")
            for w in (("target", "hub") if where == "both" else (where,)):
                uses[w].append((mod, tag, form))
    for p in plain:
        files[f"{p}.py"] = leaf_source(p)
        uses["target"].append((p, p, "import"))
    if uses["hub2"]:
        files["hub_two.py"] = user_source("fn_hub_two", uses["hub2"])
        uses["hub"].append(("hub_two", "hub_two", "import"))
    if uses["hub"]:
        files["hub_one.py"] = user_source("fn_hub_one", [u for u in uses["hub"] if u[0] != "hub_two"],
                                          extra_head=["import hub_two"] if uses["hub2"] else [])
        if uses["hub2"]:
            files["hub_one.py"] += "\n\ndef via_two(x):\n    return hub_two.fn_hub_two(x, x.peer)\n"
        files["target.py"] = user_source("run", uses["target"], extra_head=["import hub_one"]) \
            + "\n\ndef via_hub(x):\n    return hub_one.fn_hub_one(x, x.peer)\n"
    else:
        files["target.py"] = user_source("run", uses["target"])
    files["target.py"] += "\n\ndef other(x):\n    return run(x, x.peer)\n"
    if ppath:
        files[PYTHONPATH_FILE] = "".join(p + "\n" for p in ppath)
    return files, meta_groups


def gen_alias_project(rng, idx):
    """1-2 tie groups of 3-4 names each, every name imported by the target, a followed import (depth 1 or 2)
    or both, in a random spelling, between 0-2 ordinary modules.  Returns (files, meta)."""
    words = rng.sample(WORDS, len(WORDS))
    take = iter(words)
    ngroups = rng.choice([1, 1, 2])
    kinds = rng.sample(KINDS, ngroups)
    if idx % 2 == 0 and not any(k.startswith("symlink") for k in kinds):
        kinds[0] = rng.choice(["symlink-file", "symlink-dir", "symlink-outside"])
    groups, placement, forms = [], {}, {}
    for g, kind in enumerate(kinds):
        k = rng.choice([3, 4])
        # names that interleave with each other and with the ordinary modules in sorted order
        names = [rng.choice(["", "a_", "m_", "z_"]) + next(take) + rng.choice(["", "_v", "2"]) for _ in range(k)]
        groups.append((kind, names, next(take)))
        style = rng.choice(["target", "hub", "mixed", "mixed", "both", "deep"])
        for i in range(2 * k + 2):
            placement[(g, i)] = {"target": "target", "hub": "hub", "both": "both",
                                 "mixed": rng.choice(["target", "hub", "both"]),
                                 "deep": rng.choice(["target", "hub", "hub2"])}[style]
            forms[(g, i)] = rng.choice(FORMS)
    plain = [next(take) for _ in range(rng.randint(0, 2))]
    files, mg = build_project(groups, placement, forms, plain)
    meta = {"depth": "alias", "features": sorted({"alias:" + k for k in kinds}
                                                 | {"alias:placed:" + p for p in set(placement.values())}),
            "forms": sorted(set(forms.values())), "groups": mg}
    return files, meta


def _fixed(kind, names, word, where=None, forms=None, plain=()):
    placement = {(0, i): (where[i % len(where)] if where else "target") for i in range(12)}
    fm = {(0, i): (forms[i % len(forms)] if forms else "import") for i in range(12)}
    return build_project([(kind, names, word)], placement, fm, plain)[0]


CORPUS = [
    # the reviewer's shape: one real module + three links, all imported by the target
    ("alias:symlink-file", _fixed("symlink-file", ["real_mod", "alias_one", "alias_two", "alias_three"], "real",
                                  forms=["import", "import_as", "from_fn", "star"], plain=["between"])),
    # the links are imported by a followed import only / by both
    ("alias:symlink-file:in-hub", _fixed("symlink-file", ["m_core", "a_first", "z_last", "k_mid"], "core",
                                         where=["target", "hub", "hub", "both"], forms=["from_fn", "import"])),
    ("alias:symlink-dir", _fixed("symlink-dir", ["pk_real", "pk_alias_b", "pk_alias_a", "zz_alias"], "deep",
                                 where=["target", "hub", "target", "hub2"], forms=["import", "from_fn", "from_cls"])),
    ("alias:symlink-outside", _fixed("symlink-outside", ["out_c", "out_a", "out_b"], "shared",
                                     forms=["from_multi", "import", "import_as"])),
    ("alias:copies", _fixed("copies", ["copy_b", "copy_a", "copy_d", "copy_c"], "same",
                            where=["target", "target", "hub", "hub"], forms=["import", "from_fn"])),
    ("alias:same-basename", _fixed("same-basename", ["pkg_b", "pkg_a", "pkg_c"], "leaf", forms=["import", "from_fn", "from_cls"])),
    ("alias:case-variants", _fixed("case-variants", ["delta", "x", "y"], "case", forms=["import", "from_fn", "import_as"])),
    ("alias:subdir-on-path", _fixed("subdir-on-path", ["extra_dir", "link_b", "link_a"], "inner",
                                    where=["target", "target", "hub", "both"], forms=["import", "from_fn"])),
]


# ------------------------------------------------------------------ files, search path

def write_project(root, files):
    """Like c18.write_project; a value {"symlink": t} creates a symbolic link to `t` (relative to the link)."""
    root = Path(root)
    root.mkdir(parents=True, exist_ok=True)
    links = []
    for n, s in files.items():
        p = root / n
        p.parent.mkdir(parents=True, exist_ok=True)
        if isinstance(s, dict):
            links.append((p, s["symlink"]))
        else:
            p.write_text(s)
    for p, t in links:
        if p.is_symlink() or p.exists():
            p.unlink()
        os.symlink(t, p)


def pythonpath_of(projdir):
    f = Path(projdir) / PYTHONPATH_FILE
    if not f.exists():
        return []
    return [str(Path(projdir) / l.strip()) for l in f.read_text().splitlines() if l.strip()]


@contextlib.contextmanager
def extra_sys_path(projdir):
    """The project's extra search path entries appended to sys.path (what PYTHONPATH does for the CLI)."""
    extra = pythonpath_of(projdir)
    sys.path.extend(extra)
    try:
        yield extra
    finally:
        for e in extra:
            if e in sys.path:
                sys.path.remove(e)


def cli_env(projdir, hashseed):
    env = dict(os.environ)
    env["PYTHONHASHSEED"] = str(hashseed)
    extra = pythonpath_of(projdir)
    if extra:
        # appended: the repo under test (RATTR_REPO / PYTHONPATH) keeps its precedence
        env["PYTHONPATH"] = os.pathsep.join([p for p in [env.get("PYTHONPATH", "")] if p] + extra)
    return env


def cli_cache(projdir, hashseed, tag="c"):
    """`python -m rattr -o cacheable -C <fresh file> -w none target.py` under a hash seed.
    Returns (exit status, stdout bytes, cache file bytes | None, stderr tail)."""
    cache = Path(projdir) / f".c18_cache_{tag}_{hashseed}.json"
    if cache.exists():
        cache.unlink()
    p = subprocess.run([sys.executable, "-m", "rattr", "-o", "cacheable", "-C", cache.name, "-w", "none", "target.py"],
                       cwd=str(projdir), env=cli_env(projdir, hashseed), capture_output=True, timeout=120)
    data = cache.read_bytes() if cache.exists() else None
    if cache.exists():
        cache.unlink()
    return p.returncode, p.stdout, data, p.stderr[-400:].decode("utf8", "replace")


# ------------------------------------------------------------------ forced set iteration order (in-process)

def forced_set_orders(file_ir, import_irs, orders):
    """`make_cacheable_import_info(file_ir, import_irs)` with the iteration order of its set FORCED.

    The members are created through `CacheableImportInfo.from_file`; here they are instances of a subclass
    whose hash is the member's rank in a chosen order.  A CPython set of fewer than ~19 distinct small
    non-negative hashes iterates in ascending hash order, so the set comprehension hands `sorted` the members
    in exactly that order (equal members still merge: equal path -> equal rank, `==` unchanged).

    orders: callable(list of filepath strings, sorted) -> list of permutations (lists of those strings).
    Returns {"base": [[path, hash]...], "runs": [(permutation, [[path, hash]...])], "effective": bool} or
    {"unavailable": reason}."""
    import rattr.models.results.util as U

    real = getattr(U, "CacheableImportInfo", None)
    if real is None or not hasattr(real, "from_file"):
        return {"unavailable": "rattr.models.results.util has no CacheableImportInfo.from_file"}
    enc = lambda l: [[str(i.filepath), i.filehash] for i in l]  # noqa: E731
    base = enc(U.make_cacheable_import_info(file_ir, import_irs))
    paths = sorted({p for p, _ in base})
    if len(paths) > 16:
        return {"unavailable": "more than 16 members"}
    rank = {}
    seen = []

    class Forced(real):
        def __hash__(self):
            seen.append(1)
            return rank[str(self.filepath)]

    class Shim:
        @classmethod
        def from_file(cls, filepath):
            r = real.from_file(filepath)
            return Forced(filepath=r.filepath, filehash=r.filehash)

        def __getattr__(self, name):  # pragma: no cover
            return getattr(real, name)

    runs = []
    U.CacheableImportInfo = Shim
    try:
        for perm in orders(paths):
            rank.clear()
            rank.update({p: i for i, p in enumerate(perm)})
            runs.append((list(perm), enc(U.make_cacheable_import_info(file_ir, import_irs))))
    finally:
        U.CacheableImportInfo = real
    return {"base": base, "runs": runs, "effective": bool(seen)}


def standard_orders(rng, n_random=2):
    def orders(paths):
        out = [list(paths), list(reversed(paths))]
        if len(paths) > 2:
            out.append(paths[1:] + paths[:1])
            out.append(paths[-1:] + paths[:-1])
        for _ in range(n_random):
            p = list(paths)
            rng.shuffle(p)
            out.append(p)
        return out
    return orders

"""C02 — nothing is reported that the body does not do (no phantom name, right kind)."""
from __future__ import annotations

import ast
import random
import warnings

import common
from props import accessspec as spec
from props import c02rebind
from props import classentries
from props import sigcases
from props import sigspec
from props import visitlib as vl

PID = "C02"


PLUGIN_NAMES = ("getattr", "setattr", "hasattr", "delattr", "sorted", "defaultdict")


def plugin_named_methods(rng):
    """Round 5 (seeded C02-m14): a METHOD / module member that merely is NAMED like a plug-in handled builtin
    (`store.setattr(item, 'colour', 3)`, `schema.hasattr(row, 'id')`, `xs.sorted(key=lambda i: i.k)`) on a receiver
    that is a parameter, a local, an attribute chain or an unknown global: the callee does not denote the builtin, so
    none of the plug-in derivations (target of a getattr-family call, sorted key attribute, defaultdict factory call)
    is admitted — the call is an ordinary method call."""
    receivers = ["p", "p.store", "loc", "unknown_glob", "p.items[0]", "p.make()"]
    out = []
    for k in range(3):
        body, names = [], []
        for i, plug in enumerate(PLUGIN_NAMES):
            recv = rng.choice(receivers)
            arg = rng.choice(["q", "q.item", "q.rows[0]"])
            if plug in ("getattr", "hasattr", "delattr"):
                call = f"{recv}.{plug}({arg}, 'colour')"
            elif plug == "setattr":
                call = f"{recv}.{plug}({arg}, 'colour', q.value)"
            elif plug == "sorted":
                call = f"{recv}.{plug}({arg}, key=lambda i: i.rank)"
            else:
                call = f"{recv}.{plug}(q.make)"
            stmt = rng.choice([f"{call}", f"r = {call}", f"return {call}", f"if {call}:\n        pass"])
            name = f"fn_pm{k}_{i}"
            names.append(name)
            body.append(f"def {name}(p, q):\n    loc = p.local\n    {stmt}\n")
        out.append(("\n".join(body), names))
    return out


def run(tier, seed, build):
    warnings.simplefilter("ignore")
    res = common.Result(PID)
    res.rule = ("same generated modules as C01 (every statement kind x expression kind x context) + sibling functions with "
                "overlapping identifiers in one module; per function: real FunctionAnalyser vs Lean model, then every name of "
                "the real own IR must be justified by the body (occurrence with the right kind, receiver prefix, getattr-family "
                "target/prefix, named plugin derivations). Freshness: each function is also analysed alone in a fresh context "
                "and must give the same IR. non-trivial = distinct function whose IR has >= 3 names. "
                "Class entries: generated 1-3 file projects (target + followed imports) of name families around an Enum class "
                "without __init__ (classes / variables / functions / lambdas / namedtuples / import aliases whose identifiers "
                "extend, prefix, end with or equal the enum's name, before and after it; NamedTuple classes, enums with "
                "__init__, static methods, nested classes, odd member statements); per file the real FileAnalyser vs the Lean "
                "model (op analyse_file), the real parse_and_analyse_file() snapshot (target + every followed import), the CLI "
                "(-o ir, -o results for call-free entries); EVERY FileIr entry is bounded from the source: function / lambda / "
                "__init__ / static method by its own body, the synthetic enum initialiser by {Class.m : the class body itself "
                "stores to m at class scope}, namedtuple by nothing, @rattr_results by its literals; also non-trivial = "
                "distinct justified enum / init / static / namedtuple entry with >= 1 name. "
                "Re-bound plug-in spellings (c02rebind): 1-3 file projects in which ONE spelling (dd / defaultdict / co.defaultdict / sorted / "
                "getattr-family / an alias of a builtin) is the plug-in handled callable in one function / file and a parameter, a local, a "
                "nested def, a comprehension variable or another module-level definition in another one, in both orders, in one file and "
                "across followed imports; every captured FunctionAnalyser run vs the Lean model in the context of that moment, FileAnalyser "
                "vs analyse_file, pipeline in-process, CLI; EVERY entry is bounded by the BINDING-AWARE oracle (plug-in derivations only "
                "where the callee denotes the plug-in callable by Python's scoping rules); freshness in-process (alone in a fresh root "
                "context without siblings) and across processes (CLI on the stripped file with -f 0 vs the project); also non-trivial = "
                "distinct callable with a re-bound plug-in spelling and >= 2 reported names")
    rng = random.Random(seed)
    n_modules = 60 if tier == "quick" else 900
    model = common.Model()
    cases = vl.run_batch(rng, n_modules, model, extra_sources=plugin_named_methods(rng))
    cases += vl.run_file_batch(rng, n_modules // 3, model)
    # analysed callables whose OWN SIGNATURE (defaults / annotations / decorators / class header) is non-literal:
    # capture route (judged by the loop below) + whole projects (FileAnalyser vs model, pipeline, CLI; judged inside)
    cases += sigcases.run_stage(res, random.Random(seed + 7003), tier, model)
    by_module = {}
    for c in cases:
        res.evaluations += 1
        case = {"function": c.fn_src}
        is_sig = isinstance(c, sigcases.SigCase)
        cls_, assign_ = (c.cls, c.assign) if is_sig else (None, None)
        if is_sig:
            case = {"function": c.fn_src, "file": c.file, "route": "FunctionAnalyser.analyse() as started by the real FileAnalyser (" + c.where + ")",
                    "module": c.module_src[-3000:]}
        if c.diff is not None:
            res.disagreements.append({"case": case, "diff": c.diff[:2000]})
        if c.im["outcome"] != "ok":
            res.count("outcome:" + c.im["outcome"])
            continue
        just = spec.justification_sets(c.fn)
        n_names = 0
        for kind in ("get", "set", "del"):
            for full, _base in c.im[kind + "s"]:
                n_names += 1
                rule = just[kind].get(full)
                if rule is None:
                    other = [k for k in ("get", "set", "del") if full in just[k]]
                    part = sigspec.only_in_signature(c.fn, kind, full, cls=cls_, assign=assign_)
                    if part is not None:
                        # mentioned by the definition's own signature, which is not part of its body
                        sig = f"phantom-{kind}:only-in-own-signature:{part}"
                    else:
                        sig = f"phantom-{kind}:" + ("wrong-kind-body-has-" + "+".join(other) if other else "no-such-expression")
                    res.count("verdict:" + sig)
                    res.violations.append({"signature": sig, "case": case, "name": full, "kind": kind})
                else:
                    res.count("justified:" + rule)
        for call in c.im["calls"]:
            n_names += 1
            rule = just["call"].get(call["name"])
            if rule is None:
                part = sigspec.only_in_signature(c.fn, "call", call["name"], cls=cls_, assign=assign_)
                sig = "phantom-call" if part is None else f"phantom-call:only-in-own-signature:{part}"
                res.count("verdict:" + sig)
                res.violations.append({"signature": sig, "case": case, "name": call["name"]})
            else:
                res.count("justified-call:" + rule)
        if n_names >= 3:
            res.nontrivial.add(common.digest(c.fn_src))
        if is_sig:
            # (a) what the own signature mentions and the body does not: must be absent (it is, or a violation was just filed)
            reported = {(k, n) for k in ("get", "set", "del") for n, _b in c.im[k + "s"]} | {("call", x["name"]) for x in c.im["calls"]}
            own = {(k, n) for (k, n) in sigspec.signature_names(c.fn, cls_, assign_) if n not in just[k]}
            res.count("sig:own-signature-only-names:absent", len(own - reported))
            res.count("sig:own-signature-only-names:reported", len(own & reported))
            # (b) signatures of defs / lambdas NESTED in the body: expressions of this body — admitted by the property;
            # the pinned rattr reads none of them (visit_AnyFunctionDef: parameter names and body only)
            nested = sigspec.nested_signature_names(c.fn)
            res.count("sig:nested-signature-only-names:absent(admitted-but-unread)", len(nested - reported))
            res.count("sig:nested-signature-only-names:reported(admitted)", len(nested & reported))
        if isinstance(c.fn, (ast.FunctionDef, ast.AsyncFunctionDef)) and c.name.startswith('fn'):
            by_module.setdefault(c.module_src, []).append(c)
        res.sample({"function": c.fn_src, "sets": c.im["sets"][:5], "dels": c.im["dels"][:5]}, cap=3)

    # freshness: one function analysed with the others removed from the module gives the same IR
    n_fresh = 0
    for src, cs in list(by_module.items())[: (10 if tier == "quick" else 120)]:
        tree = ast.parse(src)
        for c in cs[:3]:
            keep = [n for n in tree.body if not (isinstance(n, (ast.FunctionDef, ast.AsyncFunctionDef)) and n.name.startswith("fn") and n.name != c.name)]
            alone = ast.unparse(ast.Module(body=keep, type_ignores=[]))
            t2, ctx2 = vl.prepare(alone)
            fn2 = next(n for n in t2.body if isinstance(n, (ast.FunctionDef, ast.AsyncFunctionDef)) and n.name == c.name)
            im2, _ = vl.analyse_function(fn2, ctx2)
            n_fresh += 1
            res.evaluations += 1
            same = all(im2[k] == c.im[k] for k in ("gets", "sets", "dels")) and \
                [(x["name"], x["args"], x["kwargs"]) for x in im2["calls"]] == [(x["name"], x["args"], x["kwargs"]) for x in c.im["calls"]]
            if same:
                res.count("fresh:same")
            else:
                res.count("fresh:differs")
                res.violations.append({"signature": "ir-depends-on-sibling-functions", "case": {"function": c.fn_src},
                                       "with_siblings": {k: c.im[k] for k in ("gets", "sets", "dels")},
                                       "alone": {k: im2[k] for k in ("gets", "sets", "dels")}})
    res.extra["freshness_cases"] = n_fresh

    # class entries (and every other FileIr entry) of whole projects: target + followed imports, FileAnalyser vs the
    # Lean model (op analyse_file), the real pipeline in-process, the CLI (-o ir / -o results)
    res.extra["class_entry_verdicts"] = classentries.run_stage(
        res, random.Random(seed + 7002), 70 if tier == "quick" else 900, 14 if tier == "quick" else 80, model)
    # state that survives from one analysed callable / file to the next: the same spelling bound to a plug-in handled callable
    # here and to a parameter / local / other definition there, in both orders, same file and followed imports
    res.extra["rebind_entries_judged"] = c02rebind.run_stage(res, random.Random(seed + 7004), tier, model)
    res.assumptions = [
        "[interp] named derivations admitted beyond the property's list: sorted(xs, key=lambda x: x.k) reports xs.k; defaultdict(factory) reports a call to factory",
        "[interp] `E()` (a call result used as a name-chain link) counts as an occurrence of the expression E()",
        "[interp] heuristicInit: the synthetic initialiser of an Enum-by-heuristic class without __init__ may report gets `Class.m` "
        "for every identifier m the class body ITSELF stores to at class scope (any binding statement), and nothing else; a "
        "NamedTuple-by-heuristic class reports nothing; an @rattr_results entry reports its declared literals",
        "[interp] when one identifier has several definitions in a file the entry is judged against the last one (Python's rule); "
        "an entry completely justified by a shadowed definition is not counted against the property",
        "[interp] the analysed callable's own signature (parameter defaults, annotations, return annotation, decorators, type-parameter "
        "bounds; for __init__ / static methods also the class header; for `name: ANN = lambda` the annotation) is not part of its body: "
        "a name only the signature mentions is a phantom (`only-in-own-signature:<part>`). The signature of a def / lambda NESTED in the "
        "body is an expression of that body: admitted if reported (the pinned rattr reports none: counted under sig:nested-…)",
        "[interp] the getattr-family / sorted / defaultdict derivations are admitted for a call only where its callee DENOTES that callable "
        "by Python's scoping rules (not bound as a parameter / local / nested def / comprehension variable of an enclosing scope of the "
        "body, and bound at module level to the builtin or to an import of it, also through an alias or a project file's re-export); "
        "such a call may also be reported as the ordinary call it is (rattr does not recognise every alias). A call whose callee is "
        "bound to anything else is an ordinary call: its spelled callee and its argument expressions, nothing more",
    ]
    return res


def replay(path):
    import json
    print(json.dumps(json.load(open(path)), indent=1)[:5000])
    return 0

"""C10, stage X — names THROUGH A CALLER, as a correspondence with the Lean pipeline model.

The base name a site hands to `Name(...)` is invisible in the function's own printed results: it is
what `construct_call_swaps` / `unbind_ir_with_call_swaps` key on when the function is called from
another analysed function (`swaps.get(name.basename)`). A base that is not the parameter (`p[]` for
`setattr(p[0], 'flag', v)`) leaves the callee-local spelling in the caller.

py/props/c10sites.py judges the callers' entries with the README oracle (channels `results-caller`,
`results-import`). This stage makes the same-file half a Tie-B obligation: for every selected slot
family one module = that family's probes + their callers (every argument style of
`c10sites.ARG_STYLES`), run through the REAL `rattr.__main__.main` in-process (`-o results -f 0
-w all`, the exclusion patterns of the pipeline stage) and, for a sample, through the CLI — and the
Lean model of the whole single-file pipeline (op `pipeline`: RootCtx.compile -> FileA.analyseWith
(FnA.visit, `dynamicName` for the getattr family) -> Results.runRoot with `Swaps.construct` /
`Results.unbindIr`) must print exactly the same document, diagnostics and post-generation IR.
`Rattr.C10.C10_xattr_*` (lean/RattrProofs/Props/C10.lean) are the theorems about that path.

Selection: the getattr-family slots, `sorted` and the call slots always; of the other slot families a
seeded sample in the quick tier, all of them in the thorough tier; the module-level class-base families
(one module per family) always.
"""
from __future__ import annotations

import common
from props import c10sites as cs
from props import pipeline as pl

ALWAYS = tuple(cs.XATTR_SLOTS) + ("sorted", "call", "callarg")

# further getattr-family callees that the slot table of c10sites does not have (its probes keep the
# expression in ONE slot): the four builtins side by side on one object, nesting, a starred object,
# the documented spelling used as a plain access next to the builtin, a second level of callers
FAMILY_EXTRA = '''\
def mark(p, v):
    setattr(p[0], "flag", v)


def unmark(q):
    delattr(q[0].meta, "flag")


def plain(r, v):
    setattr(r.first, "flag", v)


def probe(p, v):
    if hasattr(p(v).m, "k"):
        return getattr(getattr(p[v], "k"), "m")
    return p[0].flag


def both(p, v):
    setattr(p[0], "flag", v)
    delattr(p[0], "flag")
    return getattr(p[0], "flag"), hasattr(p[0], "flag"), p[0].flag


def caller(x, v):
    mark(x.rows, v)
    unmark(x.cols)
    plain(x.grid, v)
    return probe(x.fn, v), both(x[v], v)


def caller_kw(y, v):
    mark(v=v, p=y)
    unmark(q=y.cols[0])
    return probe(v=v, p=y()), both(p=y.z, v=v)


def outer(z, v):
    return caller(z.inner, v), caller_kw(z[0], v)
'''


# the documented names of the two one-level callers of FAMILY_EXTRA: the callee's accessed name O.k with
# the argument's spelling in place of the parameter. `kind`: xattr-full = accessed name of a
# getattr-family call whose object's first dotted component has brackets; xattr-full-plain = without;
# plain-access = an ordinary attribute access next to it (never went through get_dynamic_name)
FAMILY_DOCUMENTED = {
    "caller": [
        ("sets", "x.rows[].flag", "xattr-full", "mark(x.rows, v): setattr(p[0], 'flag', v)"),
        ("dels", "x.cols[].meta.flag", "xattr-full", "unmark(x.cols): delattr(q[0].meta, 'flag')"),
        ("sets", "x.grid.first.flag", "xattr-full-plain", "plain(x.grid, v): setattr(r.first, 'flag', v)"),
        ("gets", "x.grid.first", "xattr-lhs-plain", "plain(x.grid, v): setattr(r.first, 'flag', v)"),
        ("gets", "x.fn().m.k", "xattr-full", "probe(x.fn, v): hasattr(p(v).m, 'k')"),
        ("gets", "x.fn[].k.m", "xattr-full", "probe(x.fn, v): getattr(getattr(p[v], 'k'), 'm')"),
        ("gets", "x.fn[].flag", "plain-access", "probe(x.fn, v): p[0].flag"),
        ("sets", "x[][].flag", "xattr-full", "both(x[v], v): setattr(p[0], 'flag', v)"),
        ("dels", "x[][].flag", "xattr-full", "both(x[v], v): delattr(p[0], 'flag')"),
        ("gets", "x[][].flag", "xattr-full", "both(x[v], v): getattr / hasattr(p[0], 'flag')"),
    ],
    "caller_kw": [
        ("sets", "y[].flag", "xattr-full", "mark(v=v, p=y): setattr(p[0], 'flag', v)"),
        ("dels", "y.cols[][].meta.flag", "xattr-full", "unmark(q=y.cols[0]): delattr(q[0].meta, 'flag')"),
        ("gets", "y()().m.k", "xattr-full", "probe(p=y()): hasattr(p(v).m, 'k')"),
        ("gets", "y()[].k.m", "xattr-full", "probe(p=y()): getattr(getattr(p[v], 'k'), 'm')"),
        ("gets", "y()[].flag", "plain-access", "probe(p=y()): p[0].flag"),
        ("sets", "y.z[].flag", "xattr-full", "both(p=y.z, v=v): setattr(p[0], 'flag', v)"),
        ("dels", "y.z[].flag", "xattr-full", "both(p=y.z, v=v): delattr(p[0], 'flag')"),
        ("gets", "y.z[].flag", "xattr-full", "both(p=y.z, v=v): getattr / hasattr(p[0], 'flag')"),
    ],
}
# callee-local full names: they are rooted at a CALLEE's parameter and must not show in a caller
FAMILY_CALLEE_FULL = {"sets": {"p[].flag", "r.first.flag"}, "dels": {"p[].flag", "q[].meta.flag"},
                      "gets": {"p().m.k", "p[].k.m", "p[].flag"}}


def judge_family(res, doc, how):
    for fn, rows in FAMILY_DOCUMENTED.items():
        ent = doc.get(fn)
        res.evaluations += 1
        res.nontrivial.add(common.digest(["callers-family", fn, how]))
        if ent is None:
            res.violations.append({"signature": "site:results-caller:xattr-family:function-not-reported",
                                   "case": {"stage": "callers", "module": FAMILY_EXTRA, "function": fn, "run": how}, "detail": {}})
            continue
        ok = True
        for sec, name, kind, why in rows:
            if name not in ent.get(sec, []):
                ok = False
                res.violations.append({
                    "signature": f"site:results-caller:xattr-family:not-substituted:{kind}",
                    "case": {"stage": "callers", "module": FAMILY_EXTRA, "function": fn, "run": how,
                             "cmd": "python -m rattr -o results target.py"},
                    "detail": {"section": sec, "documented": name, "because": why, "have": ent.get(sec, [])}})
        for sec, names in FAMILY_CALLEE_FULL.items():
            for name in sorted(names & set(ent.get(sec, []))):
                ok = False
                res.violations.append({
                    "signature": "site:results-caller:xattr-family:callee-local-accessed-name-in-caller",
                    "case": {"stage": "callers", "module": FAMILY_EXTRA, "function": fn, "run": how,
                             "cmd": "python -m rattr -o results target.py"},
                    "detail": {"section": sec, "got": name, "have": ent.get(sec, [])}})
        res.count("callers:family:" + ("holds" if ok else "violated"))


def run_stage(res, tier, rng, model, probes):
    fn = [p for p in probes if p.slot.level == "fn"]
    by = {}
    for p in fn:
        by.setdefault(p.slot.id, []).append(p)
    others = [sid for sid in by if sid not in ALWAYS]
    if tier == "quick":
        rng.shuffle(others)
        others = others[:5]
    chosen = [sid for sid in by if sid in ALWAYS or sid in others]
    extra = [("target.py", FAMILY_EXTRA)]
    for sid in chosen:
        ps = by[sid]
        extra.append(("target.py", cs.module_source(ps) + "\n\n" + cs.wrappers_source(ps, "same", cs.ARG_STYLES)))
        res.count("callers:slot-family:" + sid)
        res.count("callers:probes", len(ps))
    # round 4: the class statements of the class-base families (every expression class as a base, classes
    # with and without an initialiser, Enum / NamedTuple-looking bases): the Lean file analyser
    # (`FileA.classAnalyse` -> `FileA.baseNames`, safe naming; theorem C10_site_baseNames) must print the
    # same document as the real pipeline
    by_m = {}
    for p in probes:
        if p.slot.level == "module" and p.slot.id.startswith("class-base"):
            by_m.setdefault(p.slot.id, []).append(p)
    for sid, ps in by_m.items():
        extra.append(("target.py", cs.module_source(ps)))
        res.count("callers:slot-family:" + sid)
        res.count("callers:probes", len(ps))
        chosen.append(sid)
    n0, d0 = res.evaluations, len(res.disagreements)
    cases = pl.run_pipeline_stage(res, rng, 0, model, cli_sample=2, curated=False, extra=extra)
    res.count("callers:modules", len(cases))
    res.count("callers:modules-compared", res.evaluations - n0)
    for d in res.disagreements[d0:]:
        d["case"]["stage"] = "callers-" + str(d["case"].get("stage"))
    outside = [c.skipped for c in cases if c.skipped is not None and not str(c.skipped).startswith("tie")]
    if outside:
        # every module of this stage is built from constructs the file-stage encoder knows (a module whose
        # document depends on the hash order of equal-named calls is only counted, as in the pipeline stage)
        res.internal_errors.append({"what": "a caller module of stage X is outside the pipeline model's fragment",
                                    "skipped": outside})
    # README oracle on the curated family module (one level of substitution; `outer` is Tie B only)
    fam = next((c for c in cases if c.src == FAMILY_EXTRA), None)
    if fam is not None and fam.im is not None and fam.im.get("outcome") == "ok":
        judge_family(res, fam.im["doc"], "in-process")
    res.extra["caller_stage"] = {"slot_families": chosen, "modules": len(cases),
                                 "arg_styles": [list(s) for s in cs.ARG_STYLES]}
    return cases


def replay_case(case):
    """Re-run the module of a stage-X violation through the real CLI and print the judged entries."""
    import json
    import shutil
    import tempfile
    from pathlib import Path

    project = Path(tempfile.mkdtemp(prefix="rattr-c10callers-"))
    try:
        (project / "target.py").write_text(case["module"])
        cl = cs.cli(project, "target.py")
        out = {"cmd": "python -m rattr -o results -w none target.py", "exit": cl["exit"], "module": case["module"]}
        if cl.get("doc"):
            res = common.Result("C10")
            judge_family(res, cl["doc"], "cli")
            out["entries"] = {fn: cl["doc"].get(fn) for fn in FAMILY_DOCUMENTED}
            out["violations"] = [[v["signature"], v["case"]["function"], v["detail"]] for v in res.violations]
        print(json.dumps(out, indent=1))
    finally:
        shutil.rmtree(project, ignore_errors=True)
    return 0

"""C16 stage "repeat" (round 5, seeded C16-m14): projects in which ONE diagnostic — the same message at the same file and
line — is emitted MORE THAN ONCE in a single run, held against the property directly through the real CLI.

Why such projects: every other C16 stage uses programs whose diagnostics are pairwise distinct, so a piece of state keyed by
(message, file, line) that is written only when a line is actually PRINTED (i.e. behind the `-w` filter) and read when the
badness is counted is invisible to them. Sources of repetition in rattr as it is:

  * a module reached by `from m import *` is compiled once for the star expansion and once by the import walk;
  * a target that a followed module imports back is analysed a second time as an import;
  * two functions with the same undefined name on the same line cannot exist, but one module-level statement is visited by
    both passes above.

For each project, every `-w` level x {-H, -T off/on (sampled)} x {-o stats, -o results} x {no gate, --threshold t (t around
the observed total), --strict}: C16 demands identical stdout (badness totals included), identical exit status, the printed
lines of a lower verbosity a subsequence of a higher one, errors / fatals at every level. No model is consulted: the verdict
is the property oracle on the implementation's real output (a violation with the project and the two argvs as the replay).
"""
from __future__ import annotations

import itertools
import os
import shutil
import subprocess
import sys
from pathlib import Path

import common
import diag_common as dc

PAD = "\n" * 3

MODULE_WARNERS = {
    # module-level statements of a (star-)imported module that make the root-context builder warn / err
    "del-name": "G = 1\ndel G\n",
    "del-attr": "class K:\n    pass\nK.a = 1\ndel K.a\n",
    "nested-star": "from math import *\n",
    "global-assign-call": "H = print\nH.x = 1\n",
    "plain": "",
}

BODY = "def {p}_f(a):\n    return a.{p}_attr\n\ndef {p}_w(a):\n    return {p}_undefined.x\n"


def projects(rng, tier):
    out = []
    kinds = list(MODULE_WARNERS)
    for k in kinds:
        helper = PAD + MODULE_WARNERS[k] + BODY.format(p="h")
        # (1) star import of a module with a module-level diagnostic
        out.append((f"star:{k}", {"helper.py": helper, "target.py": "from helper import *\n\ndef t_main(a):\n    return h_f(a)\n"}))
        # (2) … and the same module ALSO imported by name (walk + star expansion + second statement)
        out.append((f"star+import:{k}", {"helper.py": helper, "target.py": "import helper\nfrom helper import *\n\ndef t_main(a):\n    return h_f(a) + helper.h_w(a)\n"}))
        # (3) star import behind a followed module
        out.append((f"star-behind:{k}", {"helper.py": helper, "mid.py": "from helper import *\n\ndef m_f(a):\n    return h_f(a)\n",
                                         "target.py": "from mid import m_f\n\ndef t_main(a):\n    return m_f(a)\n"}))
        # (4) the target imported back by a followed module: its own diagnostics are emitted on both passes
        out.append((f"back-import:{k}", {"b.py": "import target\n\ndef b_f(a):\n    return target.t_f(a)\n",
                                         "target.py": "import b\n" + MODULE_WARNERS[k] + BODY.format(p="t") + "\ndef t_main(a):\n    return b.b_f(a)\n"}))
    if tier == "quick":
        out = [p for p in out if p[0].endswith((":del-name", ":nested-star"))] + [p for p in out if p[0].endswith(":plain")][:1]
    return out


def run(cwd: Path, home: Path, argv):
    env = {k: v for k, v in os.environ.items() if k != "PYTHONHASHSEED"}
    env.update(HOME=str(home), PYTHONHASHSEED="0", PYTHONDONTWRITEBYTECODE="1")
    p = subprocess.run([sys.executable, "-m", "rattr", *argv], cwd=str(cwd), env=env, capture_output=True, text=True, timeout=180)
    lines, junk = dc.parse_stderr(p.stderr)
    return {"exit": p.returncode, "stdout": p.stdout, "lines": lines, "junk": junk, "stderr": p.stderr}


def key_of(line):
    return (line["level"], line["file"], line["line"], line["col"], line["msg"])


def stage(res, rng, tier):
    n_proj = n_runs = n_repeating = 0
    with dc.scratch_dir("rattr-c16rep-") as base:
        from concurrent.futures import ThreadPoolExecutor
        for name, files in projects(rng, tier):
            n_proj += 1
            root = base / f"p{n_proj}"
            home = root / "home"
            cwd = root / "proj"
            cwd.mkdir(parents=True)
            home.mkdir()
            for rel, text in files.items():
                (cwd / rel).write_text(text)
            # the total at full verbosity fixes the thresholds that can flip
            probe = run(cwd, home, ["-w", "all", "-o", "stats", "target.py"])
            st = dc.parse_stats(probe["stdout"])
            total = (st or {}).get("true", 0)
            gates = [[], ["--strict"]] + [["--threshold", str(t)] for t in sorted({max(total - 1, 1), max(total, 1)})]
            hts = [[], ["-H", "-T"]] if tier == "quick" else [[], ["-H"], ["-T"], ["-H", "-T"]]
            seen_keys = [key_of(l) for l in probe["lines"]]
            repeating = len(seen_keys) != len(set(seen_keys))
            n_repeating += repeating
            res.count("repeat:project:" + name.split(":")[0] + (":repeats-a-line" if repeating else ":no-repeated-line"))
            for output, gate, ht in itertools.product(["stats", "results"], gates, hts):
                argvs = [["-w", w, "-o", output, *ht, *gate, "target.py"] for w in dc.WARN]
                with ThreadPoolExecutor(max_workers=4) as ex:
                    outs = list(ex.map(lambda a: run(cwd, home, a), argvs))
                n_runs += len(outs)
                res.evaluations += 1
                case = {"stage": "repeat", "project": name, "files": files, "argv_family": argvs[-1], "levels": list(dc.WARN)}
                if repeating:
                    res.nontrivial.add(common.digest(["repeat", name, output, gate, ht]))
                ref = outs[-1]
                bad = None
                for w, o in zip(dc.WARN, outs):
                    if "Traceback (most recent call last)" in o["stderr"]:
                        res.count("repeat:crash(not judged: C07)")
                        bad = "skip"
                        break
                    # `-o stats` prints wall-clock timings: compared on its deterministic rows (as in props/c16out.py)
                    if output == "stats":
                        # both None when a gate ended the run before the table; one None = one run printed no table
                        same_out = dc.parse_stats(o["stdout"]) == dc.parse_stats(ref["stdout"])
                    else:
                        same_out = o["stdout"] == ref["stdout"]
                    if not same_out:
                        what = "badness-totals" if output == "stats" else "results"
                        bad = (f"repeat:stdout-differs:{what}:-w-{w}-vs-all", {"at": w, "stdout": o["stdout"][-600:], "at_all": ref["stdout"][-600:]})
                        break
                    if o["exit"] != ref["exit"]:
                        bad = (f"repeat:exit-differs:-w-{w}-vs-all:" + ("strict" if "--strict" in gate else "threshold" if gate else "plain"),
                               {"at": w, "exit": o["exit"], "exit_at_all": ref["exit"]})
                        break
                if bad == "skip":
                    continue
                if bad is None:
                    for (w1, o1), (w2, o2) in zip(list(zip(dc.WARN, outs))[:-1], list(zip(dc.WARN, outs))[1:]):
                        k1, k2 = [key_of(l) for l in o1["lines"]], [key_of(l) for l in o2["lines"]]
                        if not dc.is_subsequence(k1, k2):
                            bad = (f"repeat:not-a-subsequence:-w-{w1}-in-{w2}", {"lower": k1[:30], "higher": k2[:30]})
                            break
                        hard1 = [k for k in k1 if k[0] in ("error", "fatal")]
                        hard2 = [k for k in k2 if k[0] in ("error", "fatal")]
                        if hard1 != hard2:
                            bad = (f"repeat:errors-or-fatals-differ:-w-{w1}-vs-{w2}", {"lower": hard1[:30], "higher": hard2[:30]})
                            break
                if bad is None:
                    res.count("repeat:verdict:holds")
                else:
                    res.count("repeat:verdict:" + bad[0])
                    res.violations.append({"signature": bad[0], "case": case, "detail": bad[1]})
    res.extra["repeat_projects"] = n_proj
    res.extra["repeat_projects_with_a_repeated_line"] = n_repeating
    res.extra["repeat_cli_runs"] = n_runs

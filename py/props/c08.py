"""C08 — calls resolve to the callee that Python's scoping rules would pick."""
from __future__ import annotations

import ast
import json
import os
import random
import shutil
import subprocess
import sys
import tempfile
import warnings
from concurrent.futures import ThreadPoolExecutor
from pathlib import Path

import common
import impl
from props import visitlib as vl

PID = "C08"

MOD = """def imp_fn(z):
    return z.mark_imp

def mod_fn(z):
    return z.mark_mod

class Store:
    def mod_fn(self, z):
        return z.mark_method

store = Store()

def make():
    return Store()

def apply_fn(target_fn, z):
    return target_fn(z)

class Node:
    def __init__(self, z):
        self.s = z.mark_modnode

def build(z):
    n = Node(z)
    return n
"""

DEFS = {
    "fn": "def target_fn(z):\n    return z.mark_fn\n",
    "lam": "target_lam = lambda z: z.mark_lam\n",
    "cls": "class TargetCls:\n    def __init__(self, z):\n        self.s = z.mark_cls\n",
    "static": "class Holder:\n    @staticmethod\n    def sm(z):\n        return z.mark_sm\n",
    "decoy_node": "def Node(z):\n    return z.mark_wrongnode\n",
}
IMPORTS = "import mod\nimport mod as m2\nfrom mod import imp_fn\n"

# symbol kind -> (callee expression, mark the callee leaves in a caller that inlines it, is-constructor)
SYMBOLS = {
    "fn": ("target_fn", "mark_fn"),
    "lam": ("target_lam", "mark_lam"),
    "cls": ("TargetCls", "mark_cls"),
    "imp": ("imp_fn", "mark_imp"),
    "builtin": ("len", None),
    "undefined": ("nope_undefined", None),
}


def call_stmt(expr, kind):
    return f"x = {expr}(v)" if kind == "cls" else f"{expr}(v)"


def callers():
    """(name, source, expected mark or None, row description)"""
    out = []

    def add(name, src, mark, row):
        out.append((name, src, mark, row))

    for kind, (expr, mark) in SYMBOLS.items():
        # bare, unshadowed: Python picks the module-level symbol
        add(f"c_bare_{kind}", f"def c_bare_{kind}(v):\n    {call_stmt(expr, kind)}\n", mark, ("bare", kind, "none"))
        # shadowed by a parameter of the calling function
        add(f"c_param_{kind}", f"def c_param_{kind}({expr}, v):\n    {call_stmt(expr, kind)}\n", None, ("bare", kind, "function-parameter"))
        # keyword-only / vararg parameter
        add(f"c_kwparam_{kind}", f"def c_kwparam_{kind}(v, *, {expr}):\n    {call_stmt(expr, kind)}\n", None, ("bare", kind, "function-parameter"))
        # shadowed by the parameter of an enclosing lambda (lambda passed as an argument)
        add(f"c_lam_{kind}", f"def c_lam_{kind}(v, fs):\n    apply_unknown(lambda {expr}: {expr}(v), fs)\n", None, ("bare", kind, "lambda-parameter"))
        add(f"c_lamlam_{kind}", f"def c_lamlam_{kind}(v, fs):\n    apply_unknown(lambda {expr}: (lambda w: {expr}(v)), fs)\n", None, ("bare", kind, "lambda-parameter"))
        # shadowed by the parameter of a nested def
        add(f"c_nested_{kind}", f"def c_nested_{kind}(v):\n    def inner({expr}):\n        {call_stmt(expr, kind)}\n", None, ("bare", kind, "nested-def-parameter"))
        # shadowed by a comprehension target
        add(f"c_comp_{kind}", f"def c_comp_{kind}(v, fs):\n    [{expr}(v) for {expr} in fs]\n", None, ("bare", kind, "comprehension-target"))
        # method of that name on some object
        add(f"c_method_{kind}", f"def c_method_{kind}(obj, v):\n    obj.{expr}(v)\n", None, ("method-on-object", kind, "none"))
        # call on a call result / on a subscript
        add(f"c_callcall_{kind}", f"def c_callcall_{kind}(p, v):\n    {expr}(p)(v)\n",
            ("outer-args", mark) if mark else None, ("on-call-result", kind, "none"))
        add(f"c_sub_{kind}", f"def c_sub_{kind}(fs, v):\n    fs[0](v)\n    {expr}[0](v)\n", None, ("on-subscript", kind, "none"))
    # dotted forms
    add("c_mod", "def c_mod(v):\n    mod.mod_fn(v)\n", "mark_mod", ("dotted", "module-import", "none"))
    add("c_alias", "def c_alias(v):\n    m2.mod_fn(v)\n", "mark_mod", ("dotted", "module-import-alias", "none"))
    add("c_static", "def c_static(v):\n    Holder.sm(v)\n", "mark_sm", ("dotted", "static-method", "none"))
    add("c_param_mod", "def c_param_mod(mod, v):\n    mod.mod_fn(v)\n", None, ("dotted", "module-import", "function-parameter"))
    add("c_param_holder", "def c_param_holder(Holder, v):\n    Holder.sm(v)\n", None, ("dotted", "static-method", "function-parameter"))
    add("c_obj_static", "def c_obj_static(obj, v):\n    obj.sm(v)\n    obj.Holder.sm(v)\n", None, ("method-on-object", "static-method", "none"))
    add("c_mod_missing", "def c_mod_missing(v):\n    mod.no_such_member(v)\n", None, ("dotted", "module-import-missing-member", "none"))
    # across modules: same-named symbols in the other file must not be picked
    add("c_mod_attr_method", "def c_mod_attr_method(v):\n    mod.store.mod_fn(v)\n", None, ("method-on-module-attribute", "module-import", "none"))
    add("c_mod_call_method", "def c_mod_call_method(v):\n    mod.make().mod_fn(v)\n", None, ("method-on-module-call-result", "module-import", "none"))
    add("c_cross_param", "def c_cross_param(v, u, w):\n    target_fn(v)\n    mod.apply_fn(w, u)\n", ("exact", ["v.mark_fn"]),
        ("cross-module", "parameter-of-imported-function-named-like-target-function", "function-parameter"))
    add("c_cross_class", "def c_cross_class(v):\n    mod.build(v)\n", ("exact", ["v.mark_modnode"]),
        ("cross-module", "class-of-imported-module-named-like-target-function", "none"))
    return out


def build_target(rng, callers_first):
    cs = callers()
    rng.shuffle(cs)
    defs = [DEFS[k] for k in ("fn", "lam", "cls", "static", "decoy_node")]
    rng.shuffle(defs)
    body = "\n".join(c[1] for c in cs)
    if callers_first:
        src = IMPORTS + "\n" + body + "\n" + "\n".join(defs)
    else:
        src = IMPORTS + "\n" + "\n".join(defs) + "\n" + body
    return src, cs


def run_cli(project):
    p = subprocess.run([sys.executable, "-m", "rattr", "-w", "none", "-o", "results", "target.py"], cwd=str(project),
                       capture_output=True, text=True, timeout=180, env=dict(os.environ, PYTHONHASHSEED="0"))
    return p.returncode, p.stdout, p.stderr


def marks_of(entry):
    return sorted({n for k in ("gets", "sets", "dels") for n in entry[k] if "mark_" in n})


def run(tier, seed, build):
    warnings.simplefilter("ignore")
    res = common.Result(PID)
    res.rule = ("complete matrix: symbol kind {function, lambda, class, from-import, builtin, undefined} x call form {bare, "
                "method on object, on call result, on subscript} x shadowing {none, function parameter (positional / "
                "keyword-only), lambda parameter (1 and 2 deep), nested-def parameter, comprehension target} + dotted forms "
                "(module import, alias, static method, their shadowed / missing variants) x definition order (callers before / "
                "after the definitions) x shuffles; one project per variant run through the real CLI (-o results); the callee's "
                "distinctive attribute appears in the caller's entry iff the callee was inlined. Each caller is also analysed "
                "in-process and compared with the Lean model (call targets, diagnostics). non-trivial = distinct (caller row, order)")
    rng = random.Random(seed)
    n_variants = 4 if tier == "quick" else 24
    tmp = Path(tempfile.mkdtemp(prefix="rattr-c08-"))
    model = common.Model()
    try:
        variants = []
        for i in range(n_variants):
            callers_first = (i % 2 == 1)
            src, cs = build_target(rng, callers_first)
            d = tmp / f"v{i}"
            d.mkdir()
            (d / "mod.py").write_text(MOD)
            (d / "target.py").write_text(src)
            variants.append((d, src, cs, callers_first))
        with ThreadPoolExecutor(max_workers=8) as ex:
            outs = list(ex.map(lambda v: run_cli(v[0]), variants))
        exhaustive_rows = set()
        for (d, src, cs, callers_first), (rc, out, err) in zip(variants, outs):
            order = "callers-first" if callers_first else "definitions-first"
            if rc != 0:
                res.violations.append({"signature": f"cli-failed:rc={rc}", "case": {"source": src, "stderr": err[-800:]}})
                continue
            results = json.loads(out)
            for name, csrc, expect, row in cs:
                res.evaluations += 1
                res.nontrivial.add(common.digest([row, order, name]))
                exhaustive_rows.add((row, order))
                entry = results.get(name)
                case = {"caller": csrc, "order": order, "row": list(row)}
                if entry is None:
                    res.violations.append({"signature": "caller-missing-from-results", "case": case})
                    continue
                got = marks_of(entry)
                res.count(f"row:{row[0]}|{row[2]}")
                if expect is None:
                    want = []
                elif isinstance(expect, tuple):
                    want = []          # call on a call result: Python's rule says do not inline
                else:
                    want = [f"x.{expect}" if False else None]
                    want = None
                if isinstance(expect, tuple) and expect[0] == "exact":
                    if got == sorted(expect[1]):
                        res.count("verdict:holds:exact")
                    else:
                        sig = f"wrong-callee-across-modules:{row[1]}"
                        res.count("verdict:" + sig)
                        res.violations.append({"signature": sig, "case": case, "marks": got, "expected": expect[1]})
                elif expect is None or isinstance(expect, tuple):
                    if got:
                        if row[0] == "on-call-result":
                            sig = "inlined-through-call-on-call-result"
                        elif row[2] != "none":
                            form = "bare" if row[0] == "bare" else f"{row[0]}-{row[1]}"
                            sig = f"inlined-although-shadowed-by-{row[2]}:{form}"
                        else:
                            sig = f"inlined-though-unresolvable:{row[0]}:{row[1]}"
                        res.count("verdict:" + sig)
                        res.violations.append({"signature": sig, "case": case, "marks": got})
                    else:
                        res.count("verdict:holds:not-inlined")
                else:
                    ok = any(g.endswith("." + expect) for g in got)
                    extra = [g for g in got if not g.endswith("." + expect)]
                    if ok and not extra:
                        res.count("verdict:holds:inlined")
                    elif not ok:
                        sig = f"not-inlined-though-python-resolves-it:{row[0]}:{row[1]}:{order}"
                        res.count("verdict:" + sig)
                        res.violations.append({"signature": sig, "case": case, "marks": got})
                    else:
                        res.violations.append({"signature": "inlined-wrong-callee", "case": case, "marks": got})
            res.sample({"order": order, "callers": [c[0] for c in cs[:5]]}, cap=2)
        res.extra["exhaustive"] = True
        res.extra["matrix_rows_x_orders"] = len(exhaustive_rows)

        # ---- correspondence: every caller of the first two variants through the Lean model
        reqs, metas = [], []
        for d, src, cs, callers_first in variants[:2]:
            with impl.in_dir(d):
                for name, csrc, expect, row in cs:
                    tree, ctx = vl.prepare(src)
                    # definitions earlier in the file matter for static methods: use the real FileAnalyser order by
                    # analysing classes defined before this caller first
                    fn = next(n for n in tree.body if isinstance(n, ast.FunctionDef) and n.name == name)
                    reqs.append(vl.model_request(fn, ctx))
                    im, _ = vl.analyse_function(fn, ctx)
                    metas.append((csrc, im))
        for (csrc, im), mo in zip(metas, model.batch(reqs)):
            res.evaluations += 1
            d = "model error: " + str(mo["__error__"]) if "__error__" in mo else vl.compare(im, mo)
            if d is not None:
                res.disagreements.append({"case": {"caller": csrc}, "diff": d[:1500]})
    finally:
        shutil.rmtree(tmp, ignore_errors=True)
    res.assumptions = [
        "[interp] comprehension targets and nested-def parameters shadow like parameters (Python's scoping rules)",
        "flow-sensitive rebinding (f = other; f()) is not claimed by the property and not generated",
        "the in-process correspondence analyses each caller against the root context only (static methods registered during the class visit are exercised by the CLI runs)",
    ]
    return res


def replay(path):
    print(json.dumps(json.load(open(path)), indent=1)[:5000])
    return 0

"""C08 — calls resolve to the callee that Python's scoping rules would pick."""
from __future__ import annotations

import ast
import json
import os
import random
import shutil
import subprocess
import sys
import tempfile
import warnings
from concurrent.futures import ThreadPoolExecutor
from pathlib import Path

import common
import impl
from props import visitlib as vl
from props import c08cross as cx
from props import c08layouts as ly
from props import c08rebind as rb
from props import c08shapes as sh
from props import pipeline as pl

PID = "C08"

PKG_FILES = {
    "pk/__init__.py": "",
    "pk/sub.py": "def dfn(z):\n    return z.mark_sub\n",
    "pk/deep/__init__.py": "",
    "pk/deep/leaf.py": "def lfn(z):\n    return z.mark_leaf\n",
    "qk/__init__.py": "",
    "qk/sub.py": "def qfn(z):\n    return z.mark_qsub\n",
}
# un-aliased dotted module imports (`import a.b` binds the name `a`; rattr stores the key `a.b`), the same with the
# parent package imported too, and the aliased / from-import spellings of the same modules
DOTTED_IMPORTS = ("import pk.sub\nimport pk.deep.leaf\nimport qk\nimport qk.sub\nimport pk.sub as ps\n"
                  "from pk import sub\nfrom pk.deep import leaf as lf\n")

# flavour -> (callee expression, first component, mark)
DOTTED = {
    "unaliased-import-a.b": ("pk.sub.dfn", "pk", "mark_sub"),
    "unaliased-import-a.b.c": ("pk.deep.leaf.lfn", "pk", "mark_leaf"),
    "unaliased-import-a.b-and-import-a": ("qk.sub.qfn", "qk", "mark_qsub"),
}
ALIASED = {
    "import-a.b-as-x": ("ps.dfn", "ps", "mark_sub"),
    "from-a-import-b": ("sub.dfn", "sub", "mark_sub"),
    "from-a.b-import-c-as-x": ("lf.lfn", "lf", "mark_leaf"),
}

MOD_DOTTED_FUNCS = """
def m_dplain(u, v):
    return pk.sub.dfn(v)

def m_dparam(pk, v):
    return pk.sub.dfn(v)

def m_dparam3(pk, v):
    return pk.deep.leaf.lfn(v)

def m_dqparam(qk, v):
    return qk.sub.qfn(v)

def m_dkwparam(v, *, pk):
    return pk.sub.dfn(v)

def m_dlam(fs, v):
    return apply_unknown(lambda pk: pk.sub.dfn(v), fs)

def m_dnested(u, v):
    def inner(pk):
        return pk.sub.dfn(v)

def m_alias(u, v):
    return ps.dfn(v)

def m_alias_param(ps, v):
    return ps.dfn(v)

def m_from_param(sub, v):
    return sub.dfn(v)
"""

MOD = DOTTED_IMPORTS + """
def imp_fn(z):
    return z.mark_imp

def mod_fn(z):
    return z.mark_mod

class Store:
    def mod_fn(self, z):
        return z.mark_method

store = Store()

def make():
    return Store()

def apply_fn(target_fn, z):
    return target_fn(z)

class Node:
    def __init__(self, z):
        self.s = z.mark_modnode

def build(z):
    n = Node(z)
    return n
""" + MOD_DOTTED_FUNCS

DEFS = {
    "fn": "def target_fn(z):\n    return z.mark_fn\n",
    "lam": "target_lam = lambda z: z.mark_lam\n",
    "cls": "class TargetCls:\n    def __init__(self, z):\n        self.s = z.mark_cls\n",
    "static": "class Holder:\n    @staticmethod\n    def sm(z):\n        return z.mark_sm\n",
    "decoy_node": "def Node(z):\n    return z.mark_wrongnode\n",
}
IMPORTS = "import mod\nimport mod as m2\nfrom mod import imp_fn\n" + DOTTED_IMPORTS

# symbol kind -> (callee expression, mark the callee leaves in a caller that inlines it, is-constructor)
SYMBOLS = {
    "fn": ("target_fn", "mark_fn"),
    "lam": ("target_lam", "mark_lam"),
    "cls": ("TargetCls", "mark_cls"),
    "imp": ("imp_fn", "mark_imp"),
    "builtin": ("len", None),
    "undefined": ("nope_undefined", None),
}


def call_stmt(expr, kind):
    return f"x = {expr}(v)" if kind == "cls" else f"{expr}(v)"


def callers():
    """(name, source, expected mark or None, row description)"""
    out = []

    def add(name, src, mark, row):
        out.append((name, src, mark, row))

    for kind, (expr, mark) in SYMBOLS.items():
        # bare, unshadowed: Python picks the module-level symbol
        add(f"c_bare_{kind}", f"def c_bare_{kind}(v):\n    {call_stmt(expr, kind)}\n", mark, ("bare", kind, "none"))
        # shadowed by a parameter of the calling function
        add(f"c_param_{kind}", f"def c_param_{kind}({expr}, v):\n    {call_stmt(expr, kind)}\n", None, ("bare", kind, "function-parameter"))
        # keyword-only / vararg parameter
        add(f"c_kwparam_{kind}", f"def c_kwparam_{kind}(v, *, {expr}):\n    {call_stmt(expr, kind)}\n", None, ("bare", kind, "function-parameter"))
        # shadowed by the parameter of an enclosing lambda (lambda passed as an argument)
        add(f"c_lam_{kind}", f"def c_lam_{kind}(v, fs):\n    apply_unknown(lambda {expr}: {expr}(v), fs)\n", None, ("bare", kind, "lambda-parameter"))
        add(f"c_lamlam_{kind}", f"def c_lamlam_{kind}(v, fs):\n    apply_unknown(lambda {expr}: (lambda w: {expr}(v)), fs)\n", None, ("bare", kind, "lambda-parameter"))
        # shadowed by the parameter of a nested def
        add(f"c_nested_{kind}", f"def c_nested_{kind}(v):\n    def inner({expr}):\n        {call_stmt(expr, kind)}\n", None, ("bare", kind, "nested-def-parameter"))
        # shadowed by a comprehension target
        add(f"c_comp_{kind}", f"def c_comp_{kind}(v, fs):\n    [{expr}(v) for {expr} in fs]\n", None, ("bare", kind, "comprehension-target"))
        # method of that name on some object
        add(f"c_method_{kind}", f"def c_method_{kind}(obj, v):\n    obj.{expr}(v)\n", None, ("method-on-object", kind, "none"))
        # call on a call result / on a subscript
        add(f"c_callcall_{kind}", f"def c_callcall_{kind}(p, v):\n    {expr}(p)(v)\n",
            ("outer-args", mark) if mark else None, ("on-call-result", kind, "none"))
        add(f"c_sub_{kind}", f"def c_sub_{kind}(fs, v):\n    fs[0](v)\n    {expr}[0](v)\n", None, ("on-subscript", kind, "none"))
    # dotted forms
    add("c_mod", "def c_mod(v):\n    mod.mod_fn(v)\n", "mark_mod", ("dotted", "module-import", "none"))
    add("c_alias", "def c_alias(v):\n    m2.mod_fn(v)\n", "mark_mod", ("dotted", "module-import-alias", "none"))
    add("c_static", "def c_static(v):\n    Holder.sm(v)\n", "mark_sm", ("dotted", "static-method", "none"))
    add("c_param_mod", "def c_param_mod(mod, v):\n    mod.mod_fn(v)\n", None, ("dotted", "module-import", "function-parameter"))
    add("c_param_holder", "def c_param_holder(Holder, v):\n    Holder.sm(v)\n", None, ("dotted", "static-method", "function-parameter"))
    add("c_obj_static", "def c_obj_static(obj, v):\n    obj.sm(v)\n    obj.Holder.sm(v)\n", None, ("method-on-object", "static-method", "none"))
    add("c_mod_missing", "def c_mod_missing(v):\n    mod.no_such_member(v)\n", None, ("dotted", "module-import-missing-member", "none"))
    # across modules: same-named symbols in the other file must not be picked
    add("c_mod_attr_method", "def c_mod_attr_method(v):\n    mod.store.mod_fn(v)\n", None, ("method-on-module-attribute", "module-import", "none"))
    add("c_mod_call_method", "def c_mod_call_method(v):\n    mod.make().mod_fn(v)\n", None, ("method-on-module-call-result", "module-import", "none"))
    add("c_cross_param", "def c_cross_param(v, u, w):\n    target_fn(v)\n    mod.apply_fn(w, u)\n", ("exact", ["v.mark_fn"]),
        ("cross-module", "parameter-of-imported-function-named-like-target-function", "function-parameter"))
    add("c_cross_class", "def c_cross_class(v):\n    mod.build(v)\n", ("exact", ["v.mark_modnode"]),
        ("cross-module", "class-of-imported-module-named-like-target-function", "none"))
    # ---- dotted module imports x shadowing of the FIRST component
    for flav, (expr, first, mark) in {**DOTTED, **ALIASED}.items():
        tag = "".join(ch if ch.isalnum() else "_" for ch in flav)
        unaliased = flav in DOTTED
        # `import a.b; a.b.f()` is not resolved by rattr (a C06 finding); the property only says "only when", so the
        # un-aliased spelling MAY be inlined (from the right module) or not; the aliased spellings must be
        plain = ("may", mark) if unaliased else mark
        kind = flav

        def drow(shadow):
            return ("dotted", kind, shadow)

        add(f"c_d_{tag}_plain", f"def c_d_{tag}_plain(v):\n    {expr}(v)\n", plain, drow("none"))
        add(f"c_d_{tag}_param", f"def c_d_{tag}_param({first}, v):\n    {expr}(v)\n", None, drow("function-parameter"))
        add(f"c_d_{tag}_posonly", f"def c_d_{tag}_posonly({first}, /, v):\n    {expr}(v)\n", None, drow("function-parameter"))
        add(f"c_d_{tag}_kwparam", f"def c_d_{tag}_kwparam(v, *, {first}):\n    {expr}(v)\n", None, drow("function-parameter"))
        add(f"c_d_{tag}_vararg", f"def c_d_{tag}_vararg(v, *{first}):\n    {expr}(v)\n", None, drow("function-parameter"))
        add(f"c_d_{tag}_kwarg", f"def c_d_{tag}_kwarg(v, **{first}):\n    {expr}(v)\n", None, drow("function-parameter"))
        add(f"c_d_{tag}_lam", f"def c_d_{tag}_lam(v, fs):\n    apply_unknown(lambda {first}: {expr}(v), fs)\n", None,
            drow("lambda-parameter"))
        add(f"c_d_{tag}_lamlam", f"def c_d_{tag}_lamlam(v, fs):\n    apply_unknown(lambda {first}: (lambda w: {expr}(v)), fs)\n",
            None, drow("lambda-parameter"))
        add(f"c_d_{tag}_lamkw", f"def c_d_{tag}_lamkw(v, fs):\n    apply_unknown(lambda w, *, {first}=None: {expr}(v), fs)\n",
            None, drow("lambda-parameter"))
        add(f"c_d_{tag}_nested", f"def c_d_{tag}_nested(v):\n    def inner({first}):\n        {expr}(v)\n", None,
            drow("nested-def-parameter"))
        add(f"c_d_{tag}_nested2", f"def c_d_{tag}_nested2({first}, v):\n    def inner(w):\n        {expr}(v)\n", None,
            drow("nested-def-parameter"))
        add(f"c_d_{tag}_comp", f"def c_d_{tag}_comp(v, fs):\n    [{expr}(v) for {first} in fs]\n", None,
            drow("comprehension-target"))
        if unaliased:
            # a parameter named like an INNER component shadows nothing
            inner = expr.split(".")[1]
            add(f"c_d_{tag}_innerparam", f"def c_d_{tag}_innerparam({inner}, v):\n    {expr}(v)\n", ("may", mark),
                ("dotted", kind + ":parameter-named-like-second-component", "none"))
        # a method of that dotted spelling on some other object
        add(f"c_d_{tag}_onobj", f"def c_d_{tag}_onobj(obj, v):\n    obj.{expr}(v)\n", None, ("method-on-object", kind, "none"))
    # ---- the same inside a followed import (mod.py), reached through `mod.<fn>(u, v)`
    for fn, expect, row in (
        ("m_dplain", ("may", "mark_sub"), ("dotted-in-followed-import", "unaliased-import-a.b", "none")),
        ("m_dparam", None, ("dotted-in-followed-import", "unaliased-import-a.b", "function-parameter")),
        ("m_dparam3", None, ("dotted-in-followed-import", "unaliased-import-a.b.c", "function-parameter")),
        ("m_dqparam", None, ("dotted-in-followed-import", "unaliased-import-a.b-and-import-a", "function-parameter")),
        ("m_dkwparam", None, ("dotted-in-followed-import", "unaliased-import-a.b", "function-parameter")),
        ("m_dlam", None, ("dotted-in-followed-import", "unaliased-import-a.b", "lambda-parameter")),
        ("m_dnested", None, ("dotted-in-followed-import", "unaliased-import-a.b", "nested-def-parameter")),
        ("m_alias", "mark_sub", ("dotted-in-followed-import", "import-a.b-as-x", "none")),
        ("m_alias_param", None, ("dotted-in-followed-import", "import-a.b-as-x", "function-parameter")),
        ("m_from_param", None, ("dotted-in-followed-import", "from-a-import-b", "function-parameter")),
    ):
        call = f"mod.{fn}(v, pk=u)" if fn == "m_dkwparam" else f"mod.{fn}(u, v)"
        add(f"c_x_{fn}", f"def c_x_{fn}(u, v):\n    {call}\n", expect, row)
    return out


def build_target(rng, callers_first):
    cs = callers()
    rng.shuffle(cs)
    defs = [DEFS[k] for k in ("fn", "lam", "cls", "static", "decoy_node")]
    rng.shuffle(defs)
    body = "\n".join(c[1] for c in cs)
    if callers_first:
        src = IMPORTS + "\n" + body + "\n" + "\n".join(defs)
    else:
        src = IMPORTS + "\n" + "\n".join(defs) + "\n" + body
    return src, cs


def run_cli(project, extra_path=None, target="target.py"):
    env = dict(os.environ, PYTHONHASHSEED="0")
    if extra_path is not None:
        # a further search-path entry AFTER whatever selects the rattr under test
        env["PYTHONPATH"] = os.pathsep.join(x for x in (env.get("PYTHONPATH"), str(extra_path)) if x)
    p = subprocess.run([sys.executable, "-m", "rattr", "-w", "none", "-o", "results", target], cwd=str(project),
                       capture_output=True, text=True, timeout=180, env=env)
    return p.returncode, p.stdout, p.stderr


def marks_of(entry):
    return sorted({n for k in ("gets", "sets", "dels") for n in entry[k] if "mark_" in n})


def write_project(d, files):
    for rel, src in files.items():
        f = d / rel
        f.parent.mkdir(parents=True, exist_ok=True)
        f.write_text(src)


def judge_matrix(res, results, cs, src, order):
    """family A: one caller = one matrix row; the callee's mark is in the caller's entry iff it was inlined."""
    rows = set()
    for name, csrc, expect, row in cs:
        res.evaluations += 1
        res.nontrivial.add(common.digest([row, order, name]))
        rows.add((row, order))
        entry = results.get(name)
        case = {"caller": csrc, "order": order, "row": list(row)}
        if name.startswith(("c_d_", "c_x_")):
            # self-contained replay: target.py = imports + caller; the packages; the followed import
            case["target.py imports"] = DOTTED_IMPORTS + ("import mod\n" if name.startswith("c_x_") else "")
            case["files"] = dict(PKG_FILES, **({"mod.py": DOTTED_IMPORTS + MOD_DOTTED_FUNCS} if name.startswith("c_x_") else {}))
        if entry is None:
            res.violations.append({"signature": "caller-missing-from-results", "case": case})
            continue
        got = marks_of(entry)
        res.count(f"row:{row[0]}|{row[2]}")
        if isinstance(expect, tuple) and expect[0] == "exact":
            if got == sorted(expect[1]):
                res.count("verdict:holds:exact")
            else:
                sig = f"wrong-callee-across-modules:{row[1]}"
                res.count("verdict:" + sig)
                res.violations.append({"signature": sig, "case": case, "marks": got, "expected": expect[1]})
        elif isinstance(expect, tuple) and expect[0] == "may":
            # Python resolves it, the property does not oblige rattr to: nothing, or exactly the right callee
            wrong = [g for g in got if not g.endswith("." + expect[1])]
            if wrong:
                sig = f"inlined-wrong-callee:{row[0]}:{row[1]}"
                res.count("verdict:" + sig)
                res.violations.append({"signature": sig, "case": case, "marks": got})
            else:
                res.count("verdict:holds:optional:" + ("inlined" if got else "not-inlined"))
        elif expect is None or isinstance(expect, tuple):
            # (a tuple here = call on a call result: Python's rule says do not inline)
            if got:
                if row[0] == "on-call-result":
                    sig = "inlined-through-call-on-call-result"
                elif row[2] != "none":
                    form = "bare" if row[0] == "bare" else f"{row[0]}-{row[1]}"
                    sig = f"inlined-although-shadowed-by-{row[2]}:{form}"
                else:
                    sig = f"inlined-though-unresolvable:{row[0]}:{row[1]}"
                res.count("verdict:" + sig)
                res.violations.append({"signature": sig, "case": case, "marks": got})
            else:
                res.count("verdict:holds:not-inlined")
        else:
            ok = any(g.endswith("." + expect) for g in got)
            extra = [g for g in got if not g.endswith("." + expect)]
            if ok and not extra:
                res.count("verdict:holds:inlined")
            elif not ok:
                sig = f"not-inlined-though-python-resolves-it:{row[0]}:{row[1]}:{order}"
                res.count("verdict:" + sig)
                res.violations.append({"signature": sig, "case": case, "marks": got})
            else:
                res.violations.append({"signature": "inlined-wrong-callee", "case": case, "marks": got})
    return rows


def judge_cross(res, results, files, rows, imports_t):
    """family X (props/c08cross.py): same-named symbols in the target and in followed imports."""
    seen = set()
    for r in rows:
        res.evaluations += 1
        res.nontrivial.add(common.digest(["x", r["name"]]))
        seen.add(r["row"])
        res.count(f"row:cross-module|{r['row'][2]}")
        entry = results.get(r["name"])
        if entry is None:
            res.violations.append({"signature": "caller-missing-from-results", "case": {"caller": r["src"]}})
            continue
        got = cx.marks_of(entry)
        if got == r["expect"]:
            res.count("verdict:holds:cross:" + ("inlined-own" if got else "nothing-to-inline"))
        else:
            case = {"caller": r["src"], "row": list(r["row"]), "target-imports": "".join(imports_t),
                    "definitions": cx_definitions(files, r)}
            res.count("verdict:" + r["sig"])
            res.violations.append({"signature": r["sig"], "case": case, "marks": got, "expected": r["expect"]})
    return seen


_PARSED = {}


def cx_definitions(files, r):
    """the definitions and import-side callers one cross row depends on (for a self-contained replay)."""
    n = cx.sym_name(r["kind"], tuple(r["cfg"]))
    out = {}
    for rel, src in files.items():
        keep = []
        key = (rel, hash(src))
        if key not in _PARSED:
            _PARSED[key] = ast.parse(src)
        for node in _PARSED[key].body:
            nm = getattr(node, "name", None) or (node.targets[0].id if isinstance(node, ast.Assign) and
                                                   isinstance(node.targets[0], ast.Name) else None)
            if nm is not None and rel != "target.py" and nm in (n, f"use_{n}", f"useb_{n}", f"used_{n}", f"deep_{n}"):
                keep.append(ast.unparse(node))
            elif nm == n:
                keep.append(ast.unparse(node))
            elif isinstance(node, (ast.Import, ast.ImportFrom)) and rel != "target.py":
                keep.append(ast.unparse(node))
        out[rel] = "\n".join(keep)
    return out



# ------------------------------------------------------------------ family S: binder x parameter-list shape x call form


def shape_head():
    defs = "\n".join(DEFS[k] for k in ("fn", "lam", "cls", "static", "decoy_node"))
    return IMPORTS + sh.SHAPE_EXTRA_IMPORTS + sh.SHAPE_EXTRA_DEFS + defs + "\n"


def shape_case(r):
    """self-contained replay: target.py = prelude + caller, next to `files`"""
    return {"caller": r["src"], "binder": r["binder"], "parameter-list": r["params"], "shape": r["shape"],
            "shadowing-parameter": None if r["control"] else r["x"], "form": r["form"],
            "row": [r["fclass"], r["fkind"], "none" if r["control"] else r["shadow"]],
            "target.py prelude": shape_head(), "files": dict(PKG_FILES, **{"mod.py": MOD})}


def judge_shapes(res, results, rows, viol):
    """`viol`: the violations found, with a simplicity key (the caller reports the SIMPLEST row of a signature first)"""
    seen = set()

    def violation(r, v):
        viol.append(((len(r["params"]), list(sh.BINDERS).index(r["binder"]) if r["binder"] in sh.BINDERS else 99, int(r["name"][1:])), v))

    for r in rows:
        res.evaluations += 1
        res.nontrivial.add(common.digest(["s", r["binder"], r["shape"], r["form"]]))
        seen.add((r["binder"], r["shape"], r["form"]))
        sd = r["shape_detail"]
        res.count("shape-row:binder:" + r["binder"])
        res.count("shape-row:parameter:" + ("control(no shadowing parameter)" if r["control"] else
                                            sh.KIND_TEXT[sd["xkind"]] + (":ast-args-empty" if sh.args_empty(sd) else "")))
        entry = results.get(r["key"])
        if entry is None:
            violation(r, {"signature": "caller-missing-from-results", "case": shape_case(r)})
            continue
        got = marks_of(entry)
        exp = r["expect"]
        if exp is None:
            if got:
                sig = sh.signature(r, False)
                res.count("verdict:" + sig)
                violation(r, {"signature": sig, "case": shape_case(r), "marks": got})
            else:
                res.count("verdict:holds:shape:not-inlined")
            continue
        want = exp[1] if isinstance(exp, tuple) else exp
        wrong = [g for g in got if not g.endswith("." + want)]
        if wrong:
            sig = sh.signature(r, True)
            res.count("verdict:" + sig)
            violation(r, {"signature": sig, "case": shape_case(r), "marks": got})
        elif not got and not isinstance(exp, tuple):
            sig = sh.signature(r, False)
            res.count("verdict:" + sig)
            violation(r, {"signature": sig, "case": shape_case(r), "marks": got})
        else:
            res.count("verdict:holds:shape:control:" + ("inlined" if got else "optional-not-inlined"))
    return seen


def shapes_correspondence(res, model, project, rows):
    """Tie B for the shape family: the real FunctionAnalyser on every marked caller (def / async def / the lambda of a
    module-level `name = lambda …` / the method of the class binders) against the Lean model `FnA.analyse` (op
    `analyse_fn`), in mini-modules of 40 callers (the root context is part of every request)."""
    head = shape_head()
    reqs, metas = [], []
    with impl.in_dir(project):
        for i in range(0, len(rows), 40):
            grp = rows[i:i + 40]
            tree, ctx = vl.prepare(head + "\n".join(r["src"] for r in grp))
            snap = vl.root_snapshot(ctx)
            snap0 = common.canon(snap)
            by_name = {}
            for n in tree.body:
                nm = getattr(n, "name", None) or (n.targets[0].id if isinstance(n, ast.Assign) and
                                                   isinstance(n.targets[0], ast.Name) else None)
                if nm is not None:
                    by_name[nm] = n
            for r in grp:
                node = by_name[r["name"]]
                if isinstance(node, ast.ClassDef):
                    node = next(n for n in node.body if isinstance(n, ast.FunctionDef))
                elif isinstance(node, ast.Assign):
                    node = node.value
                body = node.body if not isinstance(node, ast.Lambda) else [node.body]
                reqs.append(("analyse_fn", {"env": vl.env_json(), "root": snap, "module": "target",
                                            "params": vl.params_json(node.args), "body": [vl.enc(b) for b in body]}))
                im, _ = vl.analyse_function(node, ctx)
                metas.append((r, im))
            if snap0 != common.canon(vl.root_snapshot(ctx)):
                res.internal_errors.append({"what": "analysing a function changed the shared root context", "group": i})
    chunks = [reqs[i:i + 400] for i in range(0, len(reqs), 400)]
    with ThreadPoolExecutor(max_workers=6) as ex:
        outs = [o for chunk in ex.map(model.batch, chunks) for o in chunk]
    for (r, im), mo in zip(metas, outs):
        res.evaluations += 1
        res.count("in-process:shape-row")
        d = "model error: " + str(mo["__error__"]) if "__error__" in mo else vl.compare(im, mo)
        if d is not None:
            res.disagreements.append({"case": {"caller": r["src"], "binder": r["binder"], "shape": r["shape"]}, "diff": d[:1500]})


# ------------------------------------------------------------------ family L: the file-system layout behind `m`


def layout_case(layout, depth, files, r):
    return {"layout": layout, "module": "lp.lm" if depth else "lm", "spelling": r["spelling"], "call-made-in": r["where"],
            "files": ly.single_row_project(layout, depth, r)}


def judge_layout(res, layout, depth, files, rows, d, rc, out, err):
    bound = ly.python_binds(d, depth)
    want = ly.expected_mark(files, bound)
    res.count(f"layout:{layout}:python-binds-{bound[0]}")
    results = json.loads(out) if rc == 0 else None
    for r in rows:
        res.evaluations += 1
        res.nontrivial.add(common.digest(["l", layout, depth, r["spelling"], r["where"]]))
        res.count("layout-row:" + r["where"])
        case = layout_case(layout, depth, files, r)
        case["python binds"] = list(bound)
        if results is None:
            if layout in ly.HAS_PLAIN_DIR:
                # no results at all: nothing was inlined.  (the C13 finding `module-shadowed-by-non-package-directory`)
                last = (err.strip().splitlines() or [""])[-1]
                res.count("verdict:holds:layout:no-results:" + ("fatal-unable-to-find-module" if "unable to find module" in last
                                                                 else "crash:" + last.split(":")[0][:40]))
            else:
                res.violations.append({"signature": f"cli-failed:layout:{layout}:rc={rc}", "case": case, "stderr": err[-800:]})
            continue
        entry = results.get(r["name"])
        if entry is None:
            res.violations.append({"signature": "caller-missing-from-results", "case": case})
            continue
        got = marks_of(entry)
        wrong = [g for g in got if want is None or not g.endswith("." + want)]
        optional = layout in ly.HAS_PLAIN_DIR or r["spelling"].endswith("-as-g")
        if wrong:
            sig = f"inlined-from-a-file-python-does-not-bind:{layout}:{r['fclass']}"
            res.count("verdict:" + sig)
            res.violations.append({"signature": sig, "case": case, "marks": got, "expected": want})
        elif want is not None and not got and not optional:
            sig = f"not-inlined-though-python-resolves-it:layout:{layout}:{r['spelling']}"
            res.count("verdict:" + sig)
            res.violations.append({"signature": sig, "case": case, "marks": got, "expected": want})
        else:
            res.count("verdict:holds:layout:" + ("nothing-to-inline" if want is None else "inlined-from-the-bound-file" if got
                                                 else "optional-not-inlined"))


def judge_two_roots(res, l0, l1, files0, files1, rows, d, rc, out, err):
    bound = ly.python_binds_two_roots(d / "proj", d / "r1")
    want = ly.expected_mark_two_roots(files0, files1, bound)
    combo = f"{l0 or 'absent'}-before-{l1}"
    res.count(f"layout:two-roots:{combo}:python-binds-{bound[0]}-of-entry-{bound[1]}")
    results = json.loads(out) if rc == 0 else None
    for r in rows:
        res.evaluations += 1
        res.nontrivial.add(common.digest(["l2", l0, l1, r["spelling"]]))
        res.count("layout-row:two-path-entries")
        case = {"layout": {"project directory (first path entry)": l0, "second path entry (PYTHONPATH)": l1},
                "spelling": r["spelling"], "files": {"proj/" + k: v for k, v in files0.items()} |
                {"r1/" + k: v for k, v in files1.items()}, "python binds": list(bound)}
        if results is None:
            if l0 in ly.HAS_PLAIN_DIR:
                res.count("verdict:holds:layout:no-results:two-path-entries")
            else:
                res.violations.append({"signature": f"cli-failed:layout:two-roots:{combo}:rc={rc}", "case": case, "stderr": err[-800:]})
            continue
        entry = results.get(r["name"])
        if entry is None:
            res.violations.append({"signature": "caller-missing-from-results", "case": case})
            continue
        got = marks_of(entry)
        wrong = [g for g in got if want is None or not g.endswith("." + want)]
        if wrong:
            sig = f"inlined-from-a-file-python-does-not-bind:two-roots:{combo}:{r['fclass']}"
            res.count("verdict:" + sig)
            res.violations.append({"signature": sig, "case": case, "marks": got, "expected": want})
        elif want is not None and not got and l0 not in ly.HAS_PLAIN_DIR:
            sig = f"not-inlined-though-python-resolves-it:layout:two-roots:{combo}:{r['spelling']}"
            res.count("verdict:" + sig)
            res.violations.append({"signature": sig, "case": case, "marks": got, "expected": want})
        else:
            res.count("verdict:holds:layout:" + ("nothing-to-inline" if want is None else "inlined-from-the-bound-file" if got
                                                 else "optional-not-inlined"))


def layouts_correspondence(res, model, projects):
    """Tie B for the layouts: the real `find_module_name_and_spec` in the project directory against the Lean model of the
    locator (op `locator`, RattrModel/Locator.lean), and the Lean SPEC of Python's precedence (`Spec.firstMatch`: first path
    entry with a package, then a module file; a directory without __init__.py has no file) against CPython's finders.
    `projects`: (label, depth, [(root directory, its files)], what CPython binds as a relative file of root i)."""
    from rattr.module_locator import util as U

    reqs, metas = [], []
    for label, depth, roots, bound in projects:
        mod = ["lp", "lm"] if depth else ["lm"]
        queries = [mod + ["f"], mod, mod + ["helper", "f"], mod + ["f", "f"]]
        trees = [sorted(rel.split("/") for rel in files) for _, files in roots]
        dirs = [Path(d).resolve() for d, _ in roots]
        old_path = list(sys.path)
        with impl.in_dir(str(roots[0][0])):
            sys.path[1:1] = [str(d) for d in dirs[1:]]
            try:
                impl.clear_caches_fast()
                im = []
                for q in queries:
                    name, spec = U.find_module_name_and_spec(".".join(q))
                    if name is None:
                        im.append(None)
                        continue
                    o = Path(spec.origin).resolve()
                    origin = {"ext": str(o)}
                    for i, d in enumerate(dirs):
                        if d in o.parents:
                            origin = {"file": [i, list(o.relative_to(d).parts)]}
                            break
                    im.append({"module": name.split("."), "spec": {"name": spec.name.split("."), "origin": origin}})
            finally:
                sys.path[:] = old_path
                impl.clear_caches_fast()
        reqs.append(("locator", {"roots": trees, "stdlib": [], "ops": [{"k": "find", "q": q} for q in queries]}))
        metas.append((label, queries, im, bound))
    for (label, queries, im, bound), mo in zip(metas, model.batch(reqs)):
        if "__error__" in mo:
            res.disagreements.append({"case": {"layout": label}, "diff": "model error: " + str(mo["__error__"])[:400]})
            continue
        for q, i, m in zip(queries, im, mo):
            res.evaluations += 1
            res.count("in-process:layout-locate:" + ("found" if i else "not-found"))
            if i != m["found"]:
                res.disagreements.append({"case": {"layout": label, "module": ".".join(q)},
                                          "diff": f"find_module_name_and_spec: impl={i} model={m['found']}"})
        # the Lean spec of "what Python binds" vs CPython (query 1 = the module itself)
        sf = mo[1]["specFirst"] if mo[1]["specLongest"] == queries[1] else None
        spec_file = None if sf is None else [sf[0], "/".join(sf[1])]
        if spec_file != bound:
            res.internal_errors.append({"what": "Lean Spec.firstMatch disagrees with CPython's finders", "layout": label,
                                        "spec": spec_file, "cpython": bound})


# ------------------------------------------------------------------ Tie B for the cross-module resolution


def fsym_json(s):
    return {"kind": type(s).__name__, "name": s.name, "iface": vl.iface_json(s.interface),
            "file": str(s.location.defined_in)}


def cross_correspondence(res, model, project):
    """The real `__resolve_target_and_ir` on the REAL environment of `project` (target IR + the IRs of every followed
    import) against the Lean model `Cross.resolve` (op `cross_resolve`), for every call of every IR whose target is a
    Func / Class symbol."""
    import rattr.results._find_call_target as fct
    from rattr.analyser.file import parse_and_analyse_file
    from rattr.cli import parse_arguments
    from rattr.config import Config, State
    from rattr.models.symbol import Class, Func
    from rattr.module_locator.util import derive_module_name_from_path
    from rattr.results import IrCall, IrEnvironment

    real = getattr(fct, "__resolve_target_and_ir")
    with impl.in_dir(str(project)):
        pl._drop_config()
        impl.clear_caches_fast()
        try:
            with impl.Tap():
                args = parse_arguments(sys_args=["-o", "results", "-w", "all", "target.py"])
                Config(arguments=args, state=State())
                out = impl.outcome_of(parse_and_analyse_file)
            if out[0] != "ok":
                res.internal_errors.append({"what": "in-process analysis of the cross-module project failed", "out": str(out)[:300]})
                return
            target_ir, import_irs, _ = out[1]
            env = IrEnvironment(target_ir=target_ir, import_irs=import_irs)
            irs = [("<target>", target_ir)] + list(import_irs.items())
            files = sorted({str(k.location.defined_in) for _, ir in irs for k in ir} |
                           {str(c.target.location.defined_in) for _, ir in irs for f in ir.values() for c in f["calls"]
                            if isinstance(c.target, (Func, Class))})
            module_of = [[f, m] for f in files if (m := derive_module_name_from_path(f)) is not None]
            queries, impl_out, meta = [], [], []
            for where, ir in irs:
                for caller, fir in ir.items():
                    for c in sorted(fir["calls"], key=lambda c: (c.id, str(c.args))):
                        if not isinstance(c.target, (Func, Class)):
                            continue
                        queries.append(fsym_json(c.target))
                        meta.append({"call": c.id, "in": f"{where}:{caller.name}", "target": fsym_json(c.target)})
                        with impl.Tap():
                            try:
                                t = real(IrCall(caller=caller, symbol=c), environment=env)
                            except ModuleNotFoundError:
                                impl_out.append({"k": "ModuleNotFoundError"})
                                continue
                            except ImportError:
                                impl_out.append({"k": "ImportError"})
                                continue
                        hit = [(w, i) for w, ir2 in irs for i, k in enumerate(ir2) if ir2[k] is t.ir]
                        if len(hit) != 1:
                            res.internal_errors.append({"what": "returned FunctionIr is not exactly one IR entry", "meta": meta[-1]})
                            impl_out.append({"k": "?"})
                            continue
                        impl_out.append({"k": "found", "where": hit[0][0], "idx": hit[0][1]})
        finally:
            pl._drop_config()
    payload = {"target": [fsym_json(k) for k in target_ir],
               "imports": [[m, [fsym_json(k) for k in ir]] for m, ir in import_irs.items()],
               "moduleOf": module_of, "queries": queries}
    mo = model.batch([("cross_resolve", payload), ("cross_resolve", dict(payload, rule="pre-2103117")),
                      ("cross_resolve", dict(payload, rule="pre-bb30ccd"))])
    if "__error__" in mo[0]:
        res.disagreements.append({"case": {"project": "cross-module"}, "diff": "model error: " + str(mo[0]["__error__"])[:600]})
        return
    res.count("cross-resolve:environment-well-formed" if mo[0]["wf"] else "cross-resolve:environment-NOT-well-formed")
    if not mo[0]["wf"]:
        # the theorems' hypothesis fails on a real environment: that is a finding about the model's reach
        res.disagreements.append({"case": {"project": "cross-module"}, "diff": "real environment fails Cross.wfCheck"})
    n_old_differs = n_fb_differs = 0
    for q, im, m, mold, mfb in zip(meta, impl_out, mo[0]["results"], mo[1]["results"], mo[2]["results"]):
        res.evaluations += 1
        res.nontrivial.add(common.digest(["xr", q]))
        res.count("cross-resolve:" + im["k"] + (":target" if im.get("where") == "<target>" else ":import" if im["k"] == "found" else ""))
        if im != m:
            like = " (= the rule before 2103117 / 8b74e12)" if im == mold else " (= the rule before bb30ccd)" if im == mfb else ""
            res.disagreements.append({"case": q, "diff": f"impl={im} model={m}" + like})
        n_old_differs += (m != mold)
        n_fb_differs += (m != mfb)
    res.extra["cross_resolve_queries"] = res.extra.get("cross_resolve_queries", 0) + len(meta)
    res.extra["cross_resolve_queries_where_the_pre_2103117_rule_differs"] = \
        res.extra.get("cross_resolve_queries_where_the_pre_2103117_rule_differs", 0) + n_old_differs
    res.extra["cross_resolve_queries_where_the_pre_bb30ccd_rule_differs"] = \
        res.extra.get("cross_resolve_queries_where_the_pre_bb30ccd_rule_differs", 0) + n_fb_differs


def rebind_file_correspondence(res, model, cases):
    """Tie B for the redefinition / order families: the real `compile_root_context` + `FileAnalyser(...).analyse()` on whole
    modules (a name bound several times; the real and the parameter uses of a plugin-handled name in both orders) against
    the Lean model of the root context and of the file walk (ops `root_context`, `analyse_file`: `FileA.visitFuncDef` stores
    every visited definition under the symbol the context holds — `Dict.set`, the LAST analysis stays — and the custom
    analyser of a call is a function of the symbol found in the CURRENT scope chain only).
    `cases`: (label, project directory, file relative to it, row count)."""
    from props import filelib

    live = []
    for label, project, rel, src in cases:
        try:
            c = filelib.run_case(Path(project), rel, src)
        except SyntaxError as e:
            res.internal_errors.append({"what": "generated module does not parse", "label": label, "error": str(e)})
            continue
        if c.skipped is not None:
            res.skipped_outside_fragment += 1
            res.count("in-process:file-model:skipped:" + c.skipped[:40])
            continue
        live.append((label, c))
    pl._drop_config()
    reqs = []
    for _, c in live:
        reqs.append(("root_context", c.payload))
        reqs.append(("analyse_file", c.payload))
    outs = model.batch(reqs)
    for i, (label, c) in enumerate(live):
        c.root_mo, c.file_mo = outs[2 * i], outs[2 * i + 1]
        res.evaluations += 1
        res.count("in-process:file-model:" + label.split("|")[0])
        d = filelib.compare_root(c.root_im, c.root_mo)
        if d is None and c.file_im is not None:
            d = filelib.compare_file(c.file_im, c.file_mo)
            if c.file_im["outcome"] == "ok":
                res.count("in-process:file-model:FileIr-keys", len(c.file_im["keys"]))
        if d is not None:
            res.disagreements.append({"case": {"stage": "root-context/file-analyser", "family": label, "file": c.target,
                                               "module": c.src if len(c.src) < 4000 else c.src[:4000] + "…"}, "diff": d[:2000]})


def run(tier, seed, build):
    warnings.simplefilter("ignore")
    res = common.Result(PID)
    res.rule = ("complete matrix: symbol kind {function, lambda, class, from-import, builtin, undefined} x call form {bare, "
                "method on object, on call result, on subscript} x shadowing {none, function parameter (positional / "
                "positional-only / keyword-only / *args / **kwargs), lambda parameter (1 and 2 deep, keyword-only), nested-def "
                "parameter (own / enclosing), comprehension target} + dotted forms (module import, alias, static method, "
                "UN-ALIASED DOTTED module imports `import a.b` / `import a.b.c` / `import a` + `import a.b`, `import a.b as x`, "
                "`from a import b`, each x the shadowing of the FIRST component; the same inside a followed import) x "
                "definition order x shuffles; + cross-module cube: for function / lambda / class / static method, every "
                "assignment of {absent, defined, defined with another signature | class without __init__} to (target, "
                "import 1, import 2), called from the target, from inside each import, from an import of an import, "
                "directly through the module, and own-call + import-call spelled alike in one caller. One project per "
                "variant run through the real CLI (-o results); the callee's distinctive attribute appears in the caller's "
                "entry iff the callee was inlined. In-process: every caller (target and followed import) against the Lean "
                "model of the call-target ladder; every Func/Class call of the cross-module project's real environment "
                "against the Lean model of __resolve_target_and_ir. SHAPE FAMILY (props/c08shapes.py), exhaustive in both "
                "tiers: binder {def, async def, def enclosing a nested def / a lambda, nested def (1, 2 deep, async), lambda at "
                "depth 1, at depth 2 (outer / inner binds), inside / around an argument-less thunk, around a lambda with a "
                "default, named module-level lambda, lambda in a nested def / returned / in an initialiser / in a static "
                "method / in a comprehension / as keyword argument / assigned to a local name, the factory lambda of "
                "collections.defaultdict (2 spellings), the key lambda of sorted} x parameter-list SHAPE {the shadowing name "
                "positional-only / regular / keyword-only / *args / **kwargs, with and without default, alone or next to one "
                "parameter of each other kind or of all kinds, before / after a parameter of its own kind — 34 of the 66 "
                "shapes have an EMPTY ast.arguments.args} x call form {bare function / lambda / class / from-import, dotted "
                "module import / alias / from a import b / import a.b as x / from a.b import c as x / un-aliased import a.b "
                "(+ import a) / static method}, plus controls (the same binders with parameter lists of every kind WITHOUT "
                "the name: the callee must be inlined); a seed-rotating selection (every binder x shape pair) also goes "
                "through the Lean model of the function analyser. LAYOUT FAMILY (props/c08layouts.py): the name m as module "
                "file / regular package / both / package without f or empty / plain directory (data, .py inside, __pycache__ "
                "only) next to the module file / plain directory only / f only in a submodule, at top level and inside a "
                "package, x import spelling x call made in the target / a followed import / a followed import with a relative "
                "import; and 10 combinations over TWO search-path entries; expected callee = the file CPython's FileFinder "
                "binds. ROUND 4 (props/c08rebind.py), exhaustive in both tiers: U) the callee Python picks has NO IR of its own "
                "{nested def, nested async def, lambda bound to a local name, nested class, @rattr_ignore'd module-level function "
                "/ class} x every placement {absent, function same / other signature, lambda | class with init} of a same-named "
                "module-level symbol in the followed import, an import of the import and the target x the call made in the "
                "target / inside the followed import / directly through the module: only the call itself may be contributed; R) "
                "REDEFINITION: one module-level name bound two or three times, every ordered pair of {def, async def, lambda, "
                "class with / without __init__, from-import, @rattr_ignore'd def} (minus the 5 pairs that crash rattr), other "
                "parameter name / extra parameter, if-else branches, conditional redefinition, try / except, caller written "
                "before / between / after, in the target / a followed import / directly through the module: the LAST binding "
                "(either one for the conditional forms) is the callee; O) ORDER / STATE: sorted, getattr, setattr, hasattr, "
                "delattr, defaultdict, collections.defaultdict (+ controls len, a module-level function) used as the real "
                "thing in one function and as a PARAMETER (positional, keyword-only, nested def, lambda) in another, 10 layouts "
                "(alone / both orders in one file / in a followed import / across the two files): a function's entry is the same "
                "in every layout and the parameter call is reported and never treated as the real callee. Whole modules of R and "
                "O go through the Lean model of the root context + file walk, the real environments of U and R through the Lean "
                "model of __resolve_target_and_ir. non-trivial = distinct (caller row, order) / (binder, shape, form) / (layout, "
                "depth, spelling, site) / (family row)")
    rng = random.Random(seed)
    import time as _time
    _t = [_time.time()]
    stages = {}

    def stage(name):
        now = _time.time()
        stages[name] = round(now - _t[0], 2)
        _t[0] = now

    n_variants = 4 if tier == "quick" else 24
    n_cross = 3 if tier == "quick" else 8
    tmp = Path(tempfile.mkdtemp(prefix="rattr-c08-"))
    model = common.Model()
    try:
        variants = []
        for i in range(n_variants):
            callers_first = (i % 2 == 1)
            src, cs = build_target(rng, callers_first)
            d = tmp / f"v{i}"
            d.mkdir()
            write_project(d, {**PKG_FILES, "mod.py": MOD, "target.py": src})
            variants.append((d, src, cs, callers_first))
        xvariants = []
        for i in range(n_cross):
            # x0: definitions first everywhere, x1: callers first everywhere, then random mixes; every third project keeps the
            # two imports in packages under EQUAL file names (pa/shared.py, pb/shared.py)
            order = (False,) * 3 if i == 0 else (True,) * 3 if i == 1 else tuple(rng.random() < 0.5 for _ in range(3))
            layout = "packages" if i % 3 == 2 else "flat"
            files, rows, imports_t = cx.build(rng, order, layout)
            d = tmp / f"x{i}"
            d.mkdir()
            write_project(d, files)
            xvariants.append((d, files, rows, imports_t))
        # ---- family S: the full product binder x parameter-list shape x call form, split over several projects
        srows = sh.build(seed, tier)
        rng.shuffle(srows)
        n_parts = 10
        sparts = []
        for i in range(n_parts):
            part = srows[i::n_parts]
            d = tmp / f"s{i}"
            d.mkdir()
            write_project(d, {**PKG_FILES, "mod.py": MOD, "target.py": shape_head() + "\n".join(r["src"] for r in part)})
            sparts.append((d, part))
        # ---- family L: one project per (layout, depth) (per row where a plain directory may stop rattr)
        lprojs = []
        for i, (layout, depth, files, rows) in enumerate(ly.all_projects()):
            d = tmp / f"l{i}"
            d.mkdir()
            write_project(d, files)
            lprojs.append((d, layout, depth, files, rows))
        stage('generate')
        # two search-path entries: the project directory and one more (PYTHONPATH)
        l2projs = []
        for i, (l0, l1) in enumerate(ly.TWO_ROOTS):
            d = tmp / f"r{i}"
            (d / "proj").mkdir(parents=True)
            (d / "r1").mkdir()
            files0, files1, rows = ly.build_two_roots(l0, l1)
            write_project(d / "proj", files0)
            write_project(d / "r1", files1)
            l2projs.append((d, l0, l1, files0, files1, rows))
        # ---- families U / R / O (props/c08rebind.py): callees without an IR x homonyms elsewhere; redefinition; order / state
        urows, rrows = rb.u_rows(), rb.r_rows()
        oprojs, ogroups = rb.o_projects(rng)
        ufiles, rfiles = rb.assemble(rb.U_HEAD, urows, rng), rb.assemble(rb.R_HEAD, rrows, rng)
        rbprojs, rbjobs = [], []
        for i, (files, outside) in enumerate([(ufiles, False), (rfiles, False)] + [(p["files"], p["outside"]) for p in oprojs]):
            d = tmp / f"rb{i}"
            d.mkdir()
            if outside:
                # the target lies OUTSIDE the module search path: cwd (= sys.path[0]) is a sibling directory
                write_project(d / "files", files)
                (d / "cwd").mkdir()
                rbjobs.append((d / "cwd", None, "../files/target.py"))
            else:
                write_project(d, files)
                rbjobs.append((d, None))
            rbprojs.append(d)
        jobs = [(v[0], None) for v in variants + xvariants] + [(p[0], None) for p in sparts] + [(p[0], None) for p in lprojs] + \
            [(p[0] / "proj", p[0] / "r1") for p in l2projs] + rbjobs
        with ThreadPoolExecutor(max_workers=14) as ex:
            outs = list(ex.map(lambda j: run_cli(*j), jobs))
        n0 = len(variants) + len(xvariants)
        souts = outs[n0:n0 + len(sparts)]
        louts = outs[n0 + len(sparts):n0 + len(sparts) + len(lprojs)]
        l2outs = outs[n0 + len(sparts) + len(lprojs):n0 + len(sparts) + len(lprojs) + len(l2projs)]
        rbouts = outs[n0 + len(sparts) + len(lprojs) + len(l2projs):]
        outs = outs[:n0]
        stage('cli-runs')
        exhaustive_rows = set()
        for (d, src, cs, callers_first), (rc, out, err) in zip(variants, outs):
            order = "callers-first" if callers_first else "definitions-first"
            if rc != 0:
                res.violations.append({"signature": f"cli-failed:rc={rc}", "case": {"source": src, "stderr": err[-800:]}})
                continue
            exhaustive_rows |= judge_matrix(res, json.loads(out), cs, src, order)
            res.sample({"order": order, "callers": [c[0] for c in cs[:5]]}, cap=2)
        cross_rows = set()
        for (d, files, rows, imports_t), (rc, out, err) in zip(xvariants, outs[len(variants):]):
            if rc != 0:
                res.violations.append({"signature": f"cli-failed:rc={rc}", "case": {"files": files, "stderr": err[-800:]}})
                continue
            cross_rows |= judge_cross(res, json.loads(out), files, rows, imports_t)
            res.sample({"cross-module": [r["name"] for r in rows[:5]]}, cap=3)
        shape_rows, sviol = set(), []
        for (d, part), (rc, out, err) in zip(sparts, souts):
            if rc != 0:
                res.violations.append({"signature": f"cli-failed:shape-family:rc={rc}", "case": {"stderr": err[-800:]}})
                continue
            shape_rows |= judge_shapes(res, json.loads(out), part, sviol)
        res.violations.extend(v for _, v in sorted(sviol, key=lambda kv: kv[0]))
        res.sample({"shape-family": [[r["binder"], r["params"], r["form"]] for r in srows[:6]]}, cap=4)
        for (d, layout, depth, files, rows), (rc, out, err) in zip(lprojs, louts):
            judge_layout(res, layout, depth, files, rows, d, rc, out, err)
        for (d, l0, l1, files0, files1, rows), (rc, out, err) in zip(l2projs, l2outs):
            judge_two_roots(res, l0, l1, files0, files1, rows, d, rc, out, err)
        res.sample({"layout-family": sorted(ly.LAYOUTS), "two-path-entries": [list(map(str, c)) for c in ly.TWO_ROOTS]}, cap=5)
        # ---- families U / R / O
        rb_rows = set()
        for label, (rc, out, err), files in zip(["callee-without-ir", "redefinition"] + [p["layout"] for p in oprojs], rbouts,
                                                [ufiles, rfiles] + [p["files"] for p in oprojs]):
            if rc != 0:
                res.violations.append({"signature": f"cli-failed:{label.split(':')[0]}:rc={rc}",
                                       "case": {"family": label, "files": files, "stderr": err[-800:]}})
        if rbouts[0][0] == 0:
            rb_rows |= rb.judge_u(res, json.loads(rbouts[0][1]), urows, common)
        if rbouts[1][0] == 0:
            rb_rows |= rb.judge_r(res, json.loads(rbouts[1][1]), rrows, common)
        rb_rows |= rb.judge_o(res, oprojs, [json.loads(o[1]) if o[0] == 0 else None for o in rbouts[2:]], ogroups, common)
        res.sample({"callee-without-ir": [r["name"] for r in urows[:4]], "redefinition": [r["name"] for r in rrows[:4]],
                    "order-layouts": list(rb.O_LAYOUTS)}, cap=6)
        res.extra["rebind_families"] = {"callee_without_ir_rows": len(urows), "redefinition_rows": len(rrows),
                                        "order_layouts": len(oprojs), "order_functions": sum(len(p["functions"]) for p in oprojs),
                                        "redefinition_pairs_left_out (ClassAnalyser raises ValueError: a crash, C07's)":
                                        sorted("-then-".join(p) for p in rb.R_CRASHES)}
        res.extra["rebind_rows"] = len(rb_rows)
        res.extra["exhaustive"] = True
        res.extra["matrix_rows_x_orders"] = len(exhaustive_rows)
        res.extra["cross_module_rows"] = len(cross_rows)
        res.extra["shape_family_rows"] = len(shape_rows)
        res.extra["shape_family"] = {"binders": len(sh.BINDERS) + len(sh.BINDERS_NEVER), "shapes": len(sh.shapes()),
                                     "shapes_with_empty_ast_args": sum(1 for _, x in sh.shapes() if sh.args_empty(x)),
                                     "forms": len(sh.FORMS)}
        res.extra["layout_family"] = {"layouts": len(ly.LAYOUTS), "projects": len(lprojs), "two_path_entry_projects": len(l2projs)}

        stage('judge')
        # ---- correspondence: every caller of the first variant (thorough: two), and every function of the followed import,
        # through the Lean model of the ladder
        reqs, metas = [], []
        for d, src, cs, callers_first in variants[:1 if tier == "quick" else 2]:
            with impl.in_dir(d):
                for name, csrc, expect, row in cs:
                    tree, ctx = vl.prepare(src)
                    # definitions earlier in the file matter for static methods: use the real FileAnalyser order by
                    # analysing classes defined before this caller first
                    fn = next(n for n in tree.body if isinstance(n, ast.FunctionDef) and n.name == name)
                    reqs.append(vl.model_request(fn, ctx))
                    im, _ = vl.analyse_function(fn, ctx)
                    metas.append((csrc, im))
        with impl.in_dir(variants[0][0]):
            for name in [n.name for n in ast.parse(MOD).body if isinstance(n, ast.FunctionDef)]:
                tree, ctx = vl.prepare(MOD)
                fn = next(n for n in tree.body if isinstance(n, ast.FunctionDef) and n.name == name)
                reqs.append(vl.model_request(fn, ctx))
                im, _ = vl.analyse_function(fn, ctx)
                metas.append(("mod.py: " + ast.unparse(fn), im))
                res.count("in-process:followed-import-function")
        for (csrc, im), mo in zip(metas, model.batch(reqs)):
            res.evaluations += 1
            d = "model error: " + str(mo["__error__"]) if "__error__" in mo else vl.compare(im, mo)
            if d is not None:
                res.disagreements.append({"case": {"caller": csrc}, "diff": d[:1500]})
        stage('in-process:matrix')
        # ---- correspondence: the shape family through the Lean model of the function analyser; the layouts through the
        # Lean model of the locator
        shapes_correspondence(res, model, sparts[0][0], sorted((r for r in srows if r["inproc"]), key=lambda r: int(r["name"][1:])))
        stage('in-process:shapes')
        firsts = {}
        for d, layout, depth, files, rows in lprojs:
            b = ly.python_binds(d, depth)
            firsts.setdefault((layout, depth), (f"{layout}@depth{depth}", depth, [(d, files)], None if b[1] is None else [0, b[1]]))
        two = []
        for d, l0, l1, files0, files1, rows in l2projs:
            b = ly.python_binds_two_roots(d / "proj", d / "r1")
            two.append((f"two-roots:{l0}|{l1}", 0, [(d / "proj", files0), (d / "r1", files1)], None if b[2] is None else [b[1], b[2]]))
        layouts_correspondence(res, model, list(firsts.values()) + two)
        stage('in-process:layouts')
        # ---- correspondence: cross-module resolution on the real environment
        for d, files, rows, imports_t in xvariants[:3 if tier == "quick" else 6]:
            cross_correspondence(res, model, d)
        cross_correspondence(res, model, rbprojs[0])
        cross_correspondence(res, model, rbprojs[1])
        stage('in-process:cross')
        fcases = [("callee-without-ir|target", rbprojs[0], "target.py", ufiles["target.py"]),
                  ("callee-without-ir|import", rbprojs[0], "uimp1.py", ufiles["uimp1.py"]),
                  ("redefinition|target", rbprojs[1], "target.py", rfiles["target.py"]),
                  ("redefinition|import", rbprojs[1], "rimp.py", rfiles["rimp.py"])]
        for dproj, p in zip(rbprojs[2:], oprojs):
            if p["layout"].startswith("same-file"):
                fcases.append(("order|" + p["layout"], dproj, "target.py", p["files"]["target.py"]))
            elif p["layout"].startswith("followed-import:") and "alone" not in p["layout"]:
                fcases.append(("order|" + p["layout"], dproj, "olib.py", p["files"]["olib.py"]))
        rebind_file_correspondence(res, model, fcases)
        stage('in-process:rebind-files')
        res.extra['stage_wall_s (informative only)'] = stages
    finally:
        shutil.rmtree(tmp, ignore_errors=True)
    res.assumptions = [
        "[interp] comprehension targets and nested-def parameters shadow like parameters (Python's scoping rules)",
        "flow-sensitive rebinding (f = other; f()) is not claimed by the property and not generated",
        "the in-process correspondence analyses each caller against the root context only (static methods registered during the class visit are exercised by the CLI runs)",
        "[interp] `import a.b; a.b.f()`: Python resolves it, rattr does not (a C06 finding); the property says a dotted call is "
        "inlined ONLY when the left-most name is an imported module, so for this spelling the oracle accepts 'not inlined' and "
        "'inlined from a.b', and nothing when `a` is shadowed",
        "[interp] a bare call made inside a followed import refers to that module's own global (Python's scoping rules); the "
        "oracle compares WHICH module's distinctive attribute was inlined, not the spelling of the base name (argument binding "
        "across an imported class is C06's)",
        "Cross.resolve takes derive_module_name_from_path and the import_irs keys as per-case data; Cross.wfCheck (the "
        "hypothesis of the cross-module theorems) is evaluated on every real environment compared",
        "shape family: `sorted(xs, key=lambda …)` rows exist only for key lambdas with exactly ONE regular parameter (the "
        "custom analyser raises SyntaxError otherwise: a crash, C07's subject); a lambda assigned to a local name is never "
        "visited, so its rows expect nothing with and without shadowing",
        "[interp] layout family: which file is 'module m' is what CPython's path finder binds (regular package > module file "
        "> namespace portion, per search-path entry; a namespace portion loses to a regular module of a later entry). Where a "
        "directory without __init__.py shares the name, rattr reports 'unable to find module' (the C13 finding "
        "module-shadowed-by-non-package-directory) or crashes on a relative import (AssertionError in "
        "visit_relative_import): no results, hence nothing inlined — the property ('inlined ONLY when') holds; 'inlined from "
        "the file Python binds' is demanded for the layouts without such a directory. `from m import f as g` is not followed "
        "(C06 finding import-form-not-followed:from-as): for that spelling 'not inlined' is accepted, a wrong file never",
        "[interp] redefinition: 'the module-level function, lambda or class of that name' is the binding Python's module "
        "namespace holds when the call runs, i.e. the LAST binding in module order wherever the caller is written (calls made "
        "while the module is still being imported are not modelled); for bindings in if/else, `if …:` after a first binding and "
        "try/except either binding is accepted. Only WHICH binding's distinctive attribute is inlined is compared — the first "
        "binding's call interface being kept for the last body (argument binding) is outside this property (DESIGN §12.9)",
        "redefinition pairs whose last binding is a class WITH __init__ after a def / lambda / import / ignored def are not "
        "generated: ClassAnalyser raises ValueError('class … is not in the current context') — no results at all (a crash, "
        "C07's subject)",
        "[interp] order family: `getattr(xs, 'k')` (setattr / hasattr / delattr) is NAMED `xs.k` by rattr's namer whatever "
        "`getattr` is bound to, so a call through a parameter called getattr is reported as `xs.k()`: accepted as 'reported' "
        "(naming is another property's); what must not happen is the plugin's treatment (`xs.k` among gets/sets/dels, no call)",
        "callee-without-IR family: an EXCLUDED function (--exclude pattern) is not generated — exclusion is by NAME, so every "
        "same-named function of every followed import is excluded as well and resolve_function stops before any lookup",
    ]
    return res


def replay(path):
    print(json.dumps(json.load(open(path)), indent=1)[:5000])
    return 0

"""C08 — calls resolve to the callee that Python's scoping rules would pick."""
from __future__ import annotations

import ast
import json
import os
import random
import shutil
import subprocess
import sys
import tempfile
import warnings
from concurrent.futures import ThreadPoolExecutor
from pathlib import Path

import common
import impl
from props import visitlib as vl
from props import c08cross as cx
from props import pipeline as pl

PID = "C08"

PKG_FILES = {
    "pk/__init__.py": "",
    "pk/sub.py": "def dfn(z):\n    return z.mark_sub\n",
    "pk/deep/__init__.py": "",
    "pk/deep/leaf.py": "def lfn(z):\n    return z.mark_leaf\n",
    "qk/__init__.py": "",
    "qk/sub.py": "def qfn(z):\n    return z.mark_qsub\n",
}
# un-aliased dotted module imports (`import a.b` binds the name `a`; rattr stores the key `a.b`), the same with the
# parent package imported too, and the aliased / from-import spellings of the same modules
DOTTED_IMPORTS = ("import pk.sub\nimport pk.deep.leaf\nimport qk\nimport qk.sub\nimport pk.sub as ps\n"
                  "from pk import sub\nfrom pk.deep import leaf as lf\n")

# flavour -> (callee expression, first component, mark)
DOTTED = {
    "unaliased-import-a.b": ("pk.sub.dfn", "pk", "mark_sub"),
    "unaliased-import-a.b.c": ("pk.deep.leaf.lfn", "pk", "mark_leaf"),
    "unaliased-import-a.b-and-import-a": ("qk.sub.qfn", "qk", "mark_qsub"),
}
ALIASED = {
    "import-a.b-as-x": ("ps.dfn", "ps", "mark_sub"),
    "from-a-import-b": ("sub.dfn", "sub", "mark_sub"),
    "from-a.b-import-c-as-x": ("lf.lfn", "lf", "mark_leaf"),
}

MOD_DOTTED_FUNCS = """
def m_dplain(u, v):
    return pk.sub.dfn(v)

def m_dparam(pk, v):
    return pk.sub.dfn(v)

def m_dparam3(pk, v):
    return pk.deep.leaf.lfn(v)

def m_dqparam(qk, v):
    return qk.sub.qfn(v)

def m_dkwparam(v, *, pk):
    return pk.sub.dfn(v)

def m_dlam(fs, v):
    return apply_unknown(lambda pk: pk.sub.dfn(v), fs)

def m_dnested(u, v):
    def inner(pk):
        return pk.sub.dfn(v)

def m_alias(u, v):
    return ps.dfn(v)

def m_alias_param(ps, v):
    return ps.dfn(v)

def m_from_param(sub, v):
    return sub.dfn(v)
"""

MOD = DOTTED_IMPORTS + """
def imp_fn(z):
    return z.mark_imp

def mod_fn(z):
    return z.mark_mod

class Store:
    def mod_fn(self, z):
        return z.mark_method

store = Store()

def make():
    return Store()

def apply_fn(target_fn, z):
    return target_fn(z)

class Node:
    def __init__(self, z):
        self.s = z.mark_modnode

def build(z):
    n = Node(z)
    return n
""" + MOD_DOTTED_FUNCS

DEFS = {
    "fn": "def target_fn(z):\n    return z.mark_fn\n",
    "lam": "target_lam = lambda z: z.mark_lam\n",
    "cls": "class TargetCls:\n    def __init__(self, z):\n        self.s = z.mark_cls\n",
    "static": "class Holder:\n    @staticmethod\n    def sm(z):\n        return z.mark_sm\n",
    "decoy_node": "def Node(z):\n    return z.mark_wrongnode\n",
}
IMPORTS = "import mod\nimport mod as m2\nfrom mod import imp_fn\n" + DOTTED_IMPORTS

# symbol kind -> (callee expression, mark the callee leaves in a caller that inlines it, is-constructor)
SYMBOLS = {
    "fn": ("target_fn", "mark_fn"),
    "lam": ("target_lam", "mark_lam"),
    "cls": ("TargetCls", "mark_cls"),
    "imp": ("imp_fn", "mark_imp"),
    "builtin": ("len", None),
    "undefined": ("nope_undefined", None),
}


def call_stmt(expr, kind):
    return f"x = {expr}(v)" if kind == "cls" else f"{expr}(v)"


def callers():
    """(name, source, expected mark or None, row description)"""
    out = []

    def add(name, src, mark, row):
        out.append((name, src, mark, row))

    for kind, (expr, mark) in SYMBOLS.items():
        # bare, unshadowed: Python picks the module-level symbol
        add(f"c_bare_{kind}", f"def c_bare_{kind}(v):\n    {call_stmt(expr, kind)}\n", mark, ("bare", kind, "none"))
        # shadowed by a parameter of the calling function
        add(f"c_param_{kind}", f"def c_param_{kind}({expr}, v):\n    {call_stmt(expr, kind)}\n", None, ("bare", kind, "function-parameter"))
        # keyword-only / vararg parameter
        add(f"c_kwparam_{kind}", f"def c_kwparam_{kind}(v, *, {expr}):\n    {call_stmt(expr, kind)}\n", None, ("bare", kind, "function-parameter"))
        # shadowed by the parameter of an enclosing lambda (lambda passed as an argument)
        add(f"c_lam_{kind}", f"def c_lam_{kind}(v, fs):\n    apply_unknown(lambda {expr}: {expr}(v), fs)\n", None, ("bare", kind, "lambda-parameter"))
        add(f"c_lamlam_{kind}", f"def c_lamlam_{kind}(v, fs):\n    apply_unknown(lambda {expr}: (lambda w: {expr}(v)), fs)\n", None, ("bare", kind, "lambda-parameter"))
        # shadowed by the parameter of a nested def
        add(f"c_nested_{kind}", f"def c_nested_{kind}(v):\n    def inner({expr}):\n        {call_stmt(expr, kind)}\n", None, ("bare", kind, "nested-def-parameter"))
        # shadowed by a comprehension target
        add(f"c_comp_{kind}", f"def c_comp_{kind}(v, fs):\n    [{expr}(v) for {expr} in fs]\n", None, ("bare", kind, "comprehension-target"))
        # method of that name on some object
        add(f"c_method_{kind}", f"def c_method_{kind}(obj, v):\n    obj.{expr}(v)\n", None, ("method-on-object", kind, "none"))
        # call on a call result / on a subscript
        add(f"c_callcall_{kind}", f"def c_callcall_{kind}(p, v):\n    {expr}(p)(v)\n",
            ("outer-args", mark) if mark else None, ("on-call-result", kind, "none"))
        add(f"c_sub_{kind}", f"def c_sub_{kind}(fs, v):\n    fs[0](v)\n    {expr}[0](v)\n", None, ("on-subscript", kind, "none"))
    # dotted forms
    add("c_mod", "def c_mod(v):\n    mod.mod_fn(v)\n", "mark_mod", ("dotted", "module-import", "none"))
    add("c_alias", "def c_alias(v):\n    m2.mod_fn(v)\n", "mark_mod", ("dotted", "module-import-alias", "none"))
    add("c_static", "def c_static(v):\n    Holder.sm(v)\n", "mark_sm", ("dotted", "static-method", "none"))
    add("c_param_mod", "def c_param_mod(mod, v):\n    mod.mod_fn(v)\n", None, ("dotted", "module-import", "function-parameter"))
    add("c_param_holder", "def c_param_holder(Holder, v):\n    Holder.sm(v)\n", None, ("dotted", "static-method", "function-parameter"))
    add("c_obj_static", "def c_obj_static(obj, v):\n    obj.sm(v)\n    obj.Holder.sm(v)\n", None, ("method-on-object", "static-method", "none"))
    add("c_mod_missing", "def c_mod_missing(v):\n    mod.no_such_member(v)\n", None, ("dotted", "module-import-missing-member", "none"))
    # across modules: same-named symbols in the other file must not be picked
    add("c_mod_attr_method", "def c_mod_attr_method(v):\n    mod.store.mod_fn(v)\n", None, ("method-on-module-attribute", "module-import", "none"))
    add("c_mod_call_method", "def c_mod_call_method(v):\n    mod.make().mod_fn(v)\n", None, ("method-on-module-call-result", "module-import", "none"))
    add("c_cross_param", "def c_cross_param(v, u, w):\n    target_fn(v)\n    mod.apply_fn(w, u)\n", ("exact", ["v.mark_fn"]),
        ("cross-module", "parameter-of-imported-function-named-like-target-function", "function-parameter"))
    add("c_cross_class", "def c_cross_class(v):\n    mod.build(v)\n", ("exact", ["v.mark_modnode"]),
        ("cross-module", "class-of-imported-module-named-like-target-function", "none"))
    # ---- dotted module imports x shadowing of the FIRST component
    for flav, (expr, first, mark) in {**DOTTED, **ALIASED}.items():
        tag = "".join(ch if ch.isalnum() else "_" for ch in flav)
        unaliased = flav in DOTTED
        # `import a.b; a.b.f()` is not resolved by rattr (a C06 finding); the property only says "only when", so the
        # un-aliased spelling MAY be inlined (from the right module) or not; the aliased spellings must be
        plain = ("may", mark) if unaliased else mark
        kind = flav

        def drow(shadow):
            return ("dotted", kind, shadow)

        add(f"c_d_{tag}_plain", f"def c_d_{tag}_plain(v):\n    {expr}(v)\n", plain, drow("none"))
        add(f"c_d_{tag}_param", f"def c_d_{tag}_param({first}, v):\n    {expr}(v)\n", None, drow("function-parameter"))
        add(f"c_d_{tag}_posonly", f"def c_d_{tag}_posonly({first}, /, v):\n    {expr}(v)\n", None, drow("function-parameter"))
        add(f"c_d_{tag}_kwparam", f"def c_d_{tag}_kwparam(v, *, {first}):\n    {expr}(v)\n", None, drow("function-parameter"))
        add(f"c_d_{tag}_vararg", f"def c_d_{tag}_vararg(v, *{first}):\n    {expr}(v)\n", None, drow("function-parameter"))
        add(f"c_d_{tag}_kwarg", f"def c_d_{tag}_kwarg(v, **{first}):\n    {expr}(v)\n", None, drow("function-parameter"))
        add(f"c_d_{tag}_lam", f"def c_d_{tag}_lam(v, fs):\n    apply_unknown(lambda {first}: {expr}(v), fs)\n", None,
            drow("lambda-parameter"))
        add(f"c_d_{tag}_lamlam", f"def c_d_{tag}_lamlam(v, fs):\n    apply_unknown(lambda {first}: (lambda w: {expr}(v)), fs)\n",
            None, drow("lambda-parameter"))
        add(f"c_d_{tag}_lamkw", f"def c_d_{tag}_lamkw(v, fs):\n    apply_unknown(lambda w, *, {first}=None: {expr}(v), fs)\n",
            None, drow("lambda-parameter"))
        add(f"c_d_{tag}_nested", f"def c_d_{tag}_nested(v):\n    def inner({first}):\n        {expr}(v)\n", None,
            drow("nested-def-parameter"))
        add(f"c_d_{tag}_nested2", f"def c_d_{tag}_nested2({first}, v):\n    def inner(w):\n        {expr}(v)\n", None,
            drow("nested-def-parameter"))
        add(f"c_d_{tag}_comp", f"def c_d_{tag}_comp(v, fs):\n    [{expr}(v) for {first} in fs]\n", None,
            drow("comprehension-target"))
        if unaliased:
            # a parameter named like an INNER component shadows nothing
            inner = expr.split(".")[1]
            add(f"c_d_{tag}_innerparam", f"def c_d_{tag}_innerparam({inner}, v):\n    {expr}(v)\n", ("may", mark),
                ("dotted", kind + ":parameter-named-like-second-component", "none"))
        # a method of that dotted spelling on some other object
        add(f"c_d_{tag}_onobj", f"def c_d_{tag}_onobj(obj, v):\n    obj.{expr}(v)\n", None, ("method-on-object", kind, "none"))
    # ---- the same inside a followed import (mod.py), reached through `mod.<fn>(u, v)`
    for fn, expect, row in (
        ("m_dplain", ("may", "mark_sub"), ("dotted-in-followed-import", "unaliased-import-a.b", "none")),
        ("m_dparam", None, ("dotted-in-followed-import", "unaliased-import-a.b", "function-parameter")),
        ("m_dparam3", None, ("dotted-in-followed-import", "unaliased-import-a.b.c", "function-parameter")),
        ("m_dqparam", None, ("dotted-in-followed-import", "unaliased-import-a.b-and-import-a", "function-parameter")),
        ("m_dkwparam", None, ("dotted-in-followed-import", "unaliased-import-a.b", "function-parameter")),
        ("m_dlam", None, ("dotted-in-followed-import", "unaliased-import-a.b", "lambda-parameter")),
        ("m_dnested", None, ("dotted-in-followed-import", "unaliased-import-a.b", "nested-def-parameter")),
        ("m_alias", "mark_sub", ("dotted-in-followed-import", "import-a.b-as-x", "none")),
        ("m_alias_param", None, ("dotted-in-followed-import", "import-a.b-as-x", "function-parameter")),
        ("m_from_param", None, ("dotted-in-followed-import", "from-a-import-b", "function-parameter")),
    ):
        call = f"mod.{fn}(v, pk=u)" if fn == "m_dkwparam" else f"mod.{fn}(u, v)"
        add(f"c_x_{fn}", f"def c_x_{fn}(u, v):\n    {call}\n", expect, row)
    return out


def build_target(rng, callers_first):
    cs = callers()
    rng.shuffle(cs)
    defs = [DEFS[k] for k in ("fn", "lam", "cls", "static", "decoy_node")]
    rng.shuffle(defs)
    body = "\n".join(c[1] for c in cs)
    if callers_first:
        src = IMPORTS + "\n" + body + "\n" + "\n".join(defs)
    else:
        src = IMPORTS + "\n" + "\n".join(defs) + "\n" + body
    return src, cs


def run_cli(project):
    p = subprocess.run([sys.executable, "-m", "rattr", "-w", "none", "-o", "results", "target.py"], cwd=str(project),
                       capture_output=True, text=True, timeout=180, env=dict(os.environ, PYTHONHASHSEED="0"))
    return p.returncode, p.stdout, p.stderr


def marks_of(entry):
    return sorted({n for k in ("gets", "sets", "dels") for n in entry[k] if "mark_" in n})


def write_project(d, files):
    for rel, src in files.items():
        f = d / rel
        f.parent.mkdir(parents=True, exist_ok=True)
        f.write_text(src)


def judge_matrix(res, results, cs, src, order):
    """family A: one caller = one matrix row; the callee's mark is in the caller's entry iff it was inlined."""
    rows = set()
    for name, csrc, expect, row in cs:
        res.evaluations += 1
        res.nontrivial.add(common.digest([row, order, name]))
        rows.add((row, order))
        entry = results.get(name)
        case = {"caller": csrc, "order": order, "row": list(row)}
        if name.startswith(("c_d_", "c_x_")):
            # self-contained replay: target.py = imports + caller; the packages; the followed import
            case["target.py imports"] = DOTTED_IMPORTS + ("import mod\n" if name.startswith("c_x_") else "")
            case["files"] = dict(PKG_FILES, **({"mod.py": DOTTED_IMPORTS + MOD_DOTTED_FUNCS} if name.startswith("c_x_") else {}))
        if entry is None:
            res.violations.append({"signature": "caller-missing-from-results", "case": case})
            continue
        got = marks_of(entry)
        res.count(f"row:{row[0]}|{row[2]}")
        if isinstance(expect, tuple) and expect[0] == "exact":
            if got == sorted(expect[1]):
                res.count("verdict:holds:exact")
            else:
                sig = f"wrong-callee-across-modules:{row[1]}"
                res.count("verdict:" + sig)
                res.violations.append({"signature": sig, "case": case, "marks": got, "expected": expect[1]})
        elif isinstance(expect, tuple) and expect[0] == "may":
            # Python resolves it, the property does not oblige rattr to: nothing, or exactly the right callee
            wrong = [g for g in got if not g.endswith("." + expect[1])]
            if wrong:
                sig = f"inlined-wrong-callee:{row[0]}:{row[1]}"
                res.count("verdict:" + sig)
                res.violations.append({"signature": sig, "case": case, "marks": got})
            else:
                res.count("verdict:holds:optional:" + ("inlined" if got else "not-inlined"))
        elif expect is None or isinstance(expect, tuple):
            # (a tuple here = call on a call result: Python's rule says do not inline)
            if got:
                if row[0] == "on-call-result":
                    sig = "inlined-through-call-on-call-result"
                elif row[2] != "none":
                    form = "bare" if row[0] == "bare" else f"{row[0]}-{row[1]}"
                    sig = f"inlined-although-shadowed-by-{row[2]}:{form}"
                else:
                    sig = f"inlined-though-unresolvable:{row[0]}:{row[1]}"
                res.count("verdict:" + sig)
                res.violations.append({"signature": sig, "case": case, "marks": got})
            else:
                res.count("verdict:holds:not-inlined")
        else:
            ok = any(g.endswith("." + expect) for g in got)
            extra = [g for g in got if not g.endswith("." + expect)]
            if ok and not extra:
                res.count("verdict:holds:inlined")
            elif not ok:
                sig = f"not-inlined-though-python-resolves-it:{row[0]}:{row[1]}:{order}"
                res.count("verdict:" + sig)
                res.violations.append({"signature": sig, "case": case, "marks": got})
            else:
                res.violations.append({"signature": "inlined-wrong-callee", "case": case, "marks": got})
    return rows


def judge_cross(res, results, files, rows, imports_t):
    """family X (props/c08cross.py): same-named symbols in the target and in followed imports."""
    seen = set()
    for r in rows:
        res.evaluations += 1
        res.nontrivial.add(common.digest(["x", r["name"]]))
        seen.add(r["row"])
        res.count(f"row:cross-module|{r['row'][2]}")
        entry = results.get(r["name"])
        if entry is None:
            res.violations.append({"signature": "caller-missing-from-results", "case": {"caller": r["src"]}})
            continue
        got = cx.marks_of(entry)
        if got == r["expect"]:
            res.count("verdict:holds:cross:" + ("inlined-own" if got else "nothing-to-inline"))
        else:
            case = {"caller": r["src"], "row": list(r["row"]), "target-imports": "".join(imports_t),
                    "definitions": cx_definitions(files, r)}
            res.count("verdict:" + r["sig"])
            res.violations.append({"signature": r["sig"], "case": case, "marks": got, "expected": r["expect"]})
    return seen


_PARSED = {}


def cx_definitions(files, r):
    """the definitions and import-side callers one cross row depends on (for a self-contained replay)."""
    n = cx.sym_name(r["kind"], tuple(r["cfg"]))
    out = {}
    for rel, src in files.items():
        keep = []
        key = (rel, hash(src))
        if key not in _PARSED:
            _PARSED[key] = ast.parse(src)
        for node in _PARSED[key].body:
            nm = getattr(node, "name", None) or (node.targets[0].id if isinstance(node, ast.Assign) and
                                                   isinstance(node.targets[0], ast.Name) else None)
            if nm is not None and rel != "target.py" and nm in (n, f"use_{n}", f"useb_{n}", f"used_{n}", f"deep_{n}"):
                keep.append(ast.unparse(node))
            elif nm == n:
                keep.append(ast.unparse(node))
            elif isinstance(node, (ast.Import, ast.ImportFrom)) and rel != "target.py":
                keep.append(ast.unparse(node))
        out[rel] = "\n".join(keep)
    return out


# ------------------------------------------------------------------ Tie B for the cross-module resolution


def fsym_json(s):
    return {"kind": type(s).__name__, "name": s.name, "iface": vl.iface_json(s.interface),
            "file": str(s.location.defined_in)}


def cross_correspondence(res, model, project):
    """The real `__resolve_target_and_ir` on the REAL environment of `project` (target IR + the IRs of every followed
    import) against the Lean model `Cross.resolve` (op `cross_resolve`), for every call of every IR whose target is a
    Func / Class symbol."""
    import rattr.results._find_call_target as fct
    from rattr.analyser.file import parse_and_analyse_file
    from rattr.cli import parse_arguments
    from rattr.config import Config, State
    from rattr.models.symbol import Class, Func
    from rattr.module_locator.util import derive_module_name_from_path
    from rattr.results import IrCall, IrEnvironment

    real = getattr(fct, "__resolve_target_and_ir")
    with impl.in_dir(str(project)):
        pl._drop_config()
        impl.clear_caches_fast()
        try:
            with impl.Tap():
                args = parse_arguments(sys_args=["-o", "results", "-w", "all", "target.py"])
                Config(arguments=args, state=State())
                out = impl.outcome_of(parse_and_analyse_file)
            if out[0] != "ok":
                res.internal_errors.append({"what": "in-process analysis of the cross-module project failed", "out": str(out)[:300]})
                return
            target_ir, import_irs, _ = out[1]
            env = IrEnvironment(target_ir=target_ir, import_irs=import_irs)
            irs = [("<target>", target_ir)] + list(import_irs.items())
            files = sorted({str(k.location.defined_in) for _, ir in irs for k in ir} |
                           {str(c.target.location.defined_in) for _, ir in irs for f in ir.values() for c in f["calls"]
                            if isinstance(c.target, (Func, Class))})
            module_of = [[f, m] for f in files if (m := derive_module_name_from_path(f)) is not None]
            queries, impl_out, meta = [], [], []
            for where, ir in irs:
                for caller, fir in ir.items():
                    for c in sorted(fir["calls"], key=lambda c: (c.id, str(c.args))):
                        if not isinstance(c.target, (Func, Class)):
                            continue
                        queries.append(fsym_json(c.target))
                        meta.append({"call": c.id, "in": f"{where}:{caller.name}", "target": fsym_json(c.target)})
                        with impl.Tap():
                            try:
                                t = real(IrCall(caller=caller, symbol=c), environment=env)
                            except ModuleNotFoundError:
                                impl_out.append({"k": "ModuleNotFoundError"})
                                continue
                            except ImportError:
                                impl_out.append({"k": "ImportError"})
                                continue
                        hit = [(w, i) for w, ir2 in irs for i, k in enumerate(ir2) if ir2[k] is t.ir]
                        if len(hit) != 1:
                            res.internal_errors.append({"what": "returned FunctionIr is not exactly one IR entry", "meta": meta[-1]})
                            impl_out.append({"k": "?"})
                            continue
                        impl_out.append({"k": "found", "where": hit[0][0], "idx": hit[0][1]})
        finally:
            pl._drop_config()
    payload = {"target": [fsym_json(k) for k in target_ir],
               "imports": [[m, [fsym_json(k) for k in ir]] for m, ir in import_irs.items()],
               "moduleOf": module_of, "queries": queries}
    mo = model.batch([("cross_resolve", payload), ("cross_resolve", dict(payload, rule="pre-2103117")),
                      ("cross_resolve", dict(payload, rule="pre-bb30ccd"))])
    if "__error__" in mo[0]:
        res.disagreements.append({"case": {"project": "cross-module"}, "diff": "model error: " + str(mo[0]["__error__"])[:600]})
        return
    res.count("cross-resolve:environment-well-formed" if mo[0]["wf"] else "cross-resolve:environment-NOT-well-formed")
    if not mo[0]["wf"]:
        # the theorems' hypothesis fails on a real environment: that is a finding about the model's reach
        res.disagreements.append({"case": {"project": "cross-module"}, "diff": "real environment fails Cross.wfCheck"})
    n_old_differs = n_fb_differs = 0
    for q, im, m, mold, mfb in zip(meta, impl_out, mo[0]["results"], mo[1]["results"], mo[2]["results"]):
        res.evaluations += 1
        res.nontrivial.add(common.digest(["xr", q]))
        res.count("cross-resolve:" + im["k"] + (":target" if im.get("where") == "<target>" else ":import" if im["k"] == "found" else ""))
        if im != m:
            like = " (= the rule before 2103117 / 8b74e12)" if im == mold else " (= the rule before bb30ccd)" if im == mfb else ""
            res.disagreements.append({"case": q, "diff": f"impl={im} model={m}" + like})
        n_old_differs += (m != mold)
        n_fb_differs += (m != mfb)
    res.extra["cross_resolve_queries"] = res.extra.get("cross_resolve_queries", 0) + len(meta)
    res.extra["cross_resolve_queries_where_the_pre_2103117_rule_differs"] = \
        res.extra.get("cross_resolve_queries_where_the_pre_2103117_rule_differs", 0) + n_old_differs
    res.extra["cross_resolve_queries_where_the_pre_bb30ccd_rule_differs"] = \
        res.extra.get("cross_resolve_queries_where_the_pre_bb30ccd_rule_differs", 0) + n_fb_differs


def run(tier, seed, build):
    warnings.simplefilter("ignore")
    res = common.Result(PID)
    res.rule = ("complete matrix: symbol kind {function, lambda, class, from-import, builtin, undefined} x call form {bare, "
                "method on object, on call result, on subscript} x shadowing {none, function parameter (positional / "
                "positional-only / keyword-only / *args / **kwargs), lambda parameter (1 and 2 deep, keyword-only), nested-def "
                "parameter (own / enclosing), comprehension target} + dotted forms (module import, alias, static method, "
                "UN-ALIASED DOTTED module imports `import a.b` / `import a.b.c` / `import a` + `import a.b`, `import a.b as x`, "
                "`from a import b`, each x the shadowing of the FIRST component; the same inside a followed import) x "
                "definition order x shuffles; + cross-module cube: for function / lambda / class / static method, every "
                "assignment of {absent, defined, defined with another signature | class without __init__} to (target, "
                "import 1, import 2), called from the target, from inside each import, from an import of an import, "
                "directly through the module, and own-call + import-call spelled alike in one caller. One project per "
                "variant run through the real CLI (-o results); the callee's distinctive attribute appears in the caller's "
                "entry iff the callee was inlined. In-process: every caller (target and followed import) against the Lean "
                "model of the call-target ladder; every Func/Class call of the cross-module project's real environment "
                "against the Lean model of __resolve_target_and_ir. non-trivial = distinct (caller row, order)")
    rng = random.Random(seed)
    n_variants = 4 if tier == "quick" else 24
    n_cross = 3 if tier == "quick" else 8
    tmp = Path(tempfile.mkdtemp(prefix="rattr-c08-"))
    model = common.Model()
    try:
        variants = []
        for i in range(n_variants):
            callers_first = (i % 2 == 1)
            src, cs = build_target(rng, callers_first)
            d = tmp / f"v{i}"
            d.mkdir()
            write_project(d, {**PKG_FILES, "mod.py": MOD, "target.py": src})
            variants.append((d, src, cs, callers_first))
        xvariants = []
        for i in range(n_cross):
            # x0: definitions first everywhere, x1: callers first everywhere, then random mixes; every third project keeps the
            # two imports in packages under EQUAL file names (pa/shared.py, pb/shared.py)
            order = (False,) * 3 if i == 0 else (True,) * 3 if i == 1 else tuple(rng.random() < 0.5 for _ in range(3))
            layout = "packages" if i % 3 == 2 else "flat"
            files, rows, imports_t = cx.build(rng, order, layout)
            d = tmp / f"x{i}"
            d.mkdir()
            write_project(d, files)
            xvariants.append((d, files, rows, imports_t))
        with ThreadPoolExecutor(max_workers=8) as ex:
            outs = list(ex.map(lambda v: run_cli(v[0]), variants + xvariants))
        exhaustive_rows = set()
        for (d, src, cs, callers_first), (rc, out, err) in zip(variants, outs):
            order = "callers-first" if callers_first else "definitions-first"
            if rc != 0:
                res.violations.append({"signature": f"cli-failed:rc={rc}", "case": {"source": src, "stderr": err[-800:]}})
                continue
            exhaustive_rows |= judge_matrix(res, json.loads(out), cs, src, order)
            res.sample({"order": order, "callers": [c[0] for c in cs[:5]]}, cap=2)
        cross_rows = set()
        for (d, files, rows, imports_t), (rc, out, err) in zip(xvariants, outs[len(variants):]):
            if rc != 0:
                res.violations.append({"signature": f"cli-failed:rc={rc}", "case": {"files": files, "stderr": err[-800:]}})
                continue
            cross_rows |= judge_cross(res, json.loads(out), files, rows, imports_t)
            res.sample({"cross-module": [r["name"] for r in rows[:5]]}, cap=3)
        res.extra["exhaustive"] = True
        res.extra["matrix_rows_x_orders"] = len(exhaustive_rows)
        res.extra["cross_module_rows"] = len(cross_rows)

        # ---- correspondence: every caller of the first variant (thorough: two), and every function of the followed import,
        # through the Lean model of the ladder
        reqs, metas = [], []
        for d, src, cs, callers_first in variants[:1 if tier == "quick" else 2]:
            with impl.in_dir(d):
                for name, csrc, expect, row in cs:
                    tree, ctx = vl.prepare(src)
                    # definitions earlier in the file matter for static methods: use the real FileAnalyser order by
                    # analysing classes defined before this caller first
                    fn = next(n for n in tree.body if isinstance(n, ast.FunctionDef) and n.name == name)
                    reqs.append(vl.model_request(fn, ctx))
                    im, _ = vl.analyse_function(fn, ctx)
                    metas.append((csrc, im))
        with impl.in_dir(variants[0][0]):
            for name in [n.name for n in ast.parse(MOD).body if isinstance(n, ast.FunctionDef)]:
                tree, ctx = vl.prepare(MOD)
                fn = next(n for n in tree.body if isinstance(n, ast.FunctionDef) and n.name == name)
                reqs.append(vl.model_request(fn, ctx))
                im, _ = vl.analyse_function(fn, ctx)
                metas.append(("mod.py: " + ast.unparse(fn), im))
                res.count("in-process:followed-import-function")
        for (csrc, im), mo in zip(metas, model.batch(reqs)):
            res.evaluations += 1
            d = "model error: " + str(mo["__error__"]) if "__error__" in mo else vl.compare(im, mo)
            if d is not None:
                res.disagreements.append({"case": {"caller": csrc}, "diff": d[:1500]})
        # ---- correspondence: cross-module resolution on the real environment
        for d, files, rows, imports_t in xvariants[:3 if tier == "quick" else 6]:
            cross_correspondence(res, model, d)
    finally:
        shutil.rmtree(tmp, ignore_errors=True)
    res.assumptions = [
        "[interp] comprehension targets and nested-def parameters shadow like parameters (Python's scoping rules)",
        "flow-sensitive rebinding (f = other; f()) is not claimed by the property and not generated",
        "the in-process correspondence analyses each caller against the root context only (static methods registered during the class visit are exercised by the CLI runs)",
        "[interp] `import a.b; a.b.f()`: Python resolves it, rattr does not (a C06 finding); the property says a dotted call is "
        "inlined ONLY when the left-most name is an imported module, so for this spelling the oracle accepts 'not inlined' and "
        "'inlined from a.b', and nothing when `a` is shadowed",
        "[interp] a bare call made inside a followed import refers to that module's own global (Python's scoping rules); the "
        "oracle compares WHICH module's distinctive attribute was inlined, not the spelling of the base name (argument binding "
        "across an imported class is C06's)",
        "Cross.resolve takes derive_module_name_from_path and the import_irs keys as per-case data; Cross.wfCheck (the "
        "hypothesis of the cross-module theorems) is evaluated on every real environment compared",
    ]
    return res


def replay(path):
    print(json.dumps(json.load(open(path)), indent=1)[:5000])
    return 0

"""C05 — unrelated definitions whose NAME equals a name a function binds LOCALLY.

"Adding or removing functions it does not transitively call": under Python's scoping a function that
binds a name N itself — as a parameter of any kind, a lambda / nested-def parameter, a comprehension
target, a `for` / `with` / `except` / walrus / match-capture target, a local assignment, a nested
`def` / `class` — and then CALLS through N does not call the module-level N, whatever that is. So a
module-level definition named N (function, async function, class, class with a static method, lambda,
import of a followed module / of one of its functions, variable) is UNRELATED code for that function:
adding or removing it, before or after the function, in the target or in the followed import the
function lives in (or reaching the target through `from lib import *`), must leave the function's
results as they are.

  * `HOSTS`: the catalogue of binding constructs (every way Python binds a name) x what is done with
    the bound name (bare call, call with keyword, dotted call, call in a nested scope).
  * `binder_class(source, fn, N)`: the SYNTACTIC class of the construct that binds N — computed from
    the AST of the generated source, never from the catalogue label, and never from what rattr says.
  * oracle 1 (CPython's own `symtable`): in the variant N is NOT a global of the scope the call is in
    (so the added definition really is unrelated; a host for which CPython says "global" is an
    internal error of this generator).
  * oracle 2 (the property): the host function's results are the same with and without the definition.
  * the single-file cases also go through the Lean whole-pipeline model (op `pipeline`): the model
    must reproduce base and variant; a deviation is a KNOWN finding only when the model of the pinned
    code predicts it and its binder class is listed.
"""
from __future__ import annotations

import ast
import random
import symtable

BASE_SIG = "results-depend-on-definition-order-or-unrelated-code"

NAMES = ["cb", "visit", "handler", "emit", "pick", "route", "fold", "probe"]

# ------------------------------------------------------------------ hosts
# {N} the locally bound name, {F} the host's name, {U} what is done with the bound name
#     ({U} is an expression statement / expression using N and the host's parameter `v`)

PARAM_HOSTS = {
    # ---- parameters of the function itself, every kind
    "param": "def {F}({N}, v):\n    return {U}\n",
    "param-default": "def {F}(v, {N}=None):\n    return {U}\n",
    "posonly": "def {F}({N}, /, v):\n    return {U}\n",
    "posonly-second": "def {F}(v, {N}, /):\n    return {U}\n",
    "posonly-default": "def {F}(v, {N}=None, /):\n    return {U}\n",
    "posonly-then-kwonly": "def {F}({N}, /, *, v):\n    return {U}\n",
    "kwonly": "def {F}(v, *, {N}):\n    return {U}\n",
    "kwonly-default": "def {F}(v, *, {N}=None):\n    return {U}\n",
    "kwonly-after-vararg": "def {F}(v, *rest, {N}):\n    return {U}\n",
    "vararg": "def {F}(v, *{N}):\n    return {U}\n",
    "kwarg": "def {F}(v, **{N}):\n    return {U}\n",
    "async-posonly": "async def {F}({N}, /, v):\n    return {U}\n",
    "async-param": "async def {F}({N}, v):\n    return {U}\n",
    "method-like-posonly": "def {F}(self, {N}, /, v):\n    return {U}\n",
    # ---- parameters of a lambda passed as an argument
    "lambda": "def {F}(v, fs):\n    return fs.apply(lambda {N}: {U})\n",
    "lambda-posonly": "def {F}(v, fs):\n    return fs.apply(lambda {N}, /: {U})\n",
    "lambda-posonly-second": "def {F}(v, fs):\n    return fs.apply(lambda w, {N}, /, z: {U})\n",
    "lambda-kwonly": "def {F}(v, fs):\n    return fs.apply(lambda *, {N}: {U})\n",
    "lambda-default": "def {F}(v, fs):\n    return fs.apply(lambda {N}=None: {U})\n",
    "lambda-vararg": "def {F}(v, fs):\n    return fs.apply(lambda *{N}: {U})\n",
    "lambda-kwarg": "def {F}(v, fs):\n    return fs.apply(lambda **{N}: {U})\n",
    # ---- a module-level lambda (a callable of the file in its own right)
    "named-lambda": "{F} = lambda {N}, v: {U}\n",
    "named-lambda-posonly": "{F} = lambda {N}, /, v: {U}\n",
    "named-lambda-kwonly": "{F} = lambda v, *, {N}: {U}\n",
    "named-lambda-vararg": "{F} = lambda v, *{N}: {U}\n",
    # ---- parameters of a nested def
    "nested-def-param": "def {F}(v):\n    def inner({N}):\n        return {U}\n    return inner\n",
    "nested-def-posonly": "def {F}(v):\n    def inner({N}, /):\n        return {U}\n    return inner\n",
    "nested-def-kwonly": "def {F}(v):\n    def inner(*, {N}):\n        return {U}\n    return inner\n",
    "nested-def-vararg": "def {F}(v):\n    def inner(*{N}):\n        return {U}\n    return inner\n",
    "nested-def-kwarg": "def {F}(v):\n    def inner(**{N}):\n        return {U}\n    return inner\n",
    # ---- the parameter is used from an inner scope (closure over the parameter)
    "posonly-used-in-lambda": "def {F}({N}, /, v, fs):\n    return fs.apply(lambda w: {U})\n",
    "posonly-used-in-comprehension": "def {F}({N}, /, v, fs):\n    return [{U} for w in fs]\n",
    "posonly-used-in-nested-def": "def {F}({N}, /, v):\n    def inner(w):\n        return {U}\n    return inner\n",
    "kwonly-used-in-lambda": "def {F}(v, fs, *, {N}):\n    return fs.apply(lambda w: {U})\n",
    # ---- initialiser of a class (the callable reported under the class's name)
    "init-posonly": "class {F}:\n    def __init__(self, {N}, /, v):\n        self.kept = {U}\n",
    "init-kwonly": "class {F}:\n    def __init__(self, v, *, {N}):\n        self.kept = {U}\n",
    # ---- static method
    "static-posonly": "class Holder_{F}:\n    @staticmethod\n    def sm({N}, /, v):\n        return {U}\n\n"
                      "def {F}(q, v):\n    return Holder_{F}.sm(q, v)\n",
}

TARGET_HOSTS = {
    # ---- comprehension targets
    "listcomp": "def {F}(v, fs):\n    return [{U} for {N} in fs]\n",
    "setcomp": "def {F}(v, fs):\n    return {{{U} for {N} in fs}}\n",
    "dictcomp": "def {F}(v, fs):\n    return {{1: {U} for {N} in fs}}\n",
    "genexp": "def {F}(v, fs):\n    return list({U} for {N} in fs)\n",
    "listcomp-tuple": "def {F}(v, fs):\n    return [{U} for i, {N} in fs]\n",
    # ---- loops, context managers, handlers
    "for": "def {F}(v, fs):\n    for {N} in fs:\n        {U}\n",
    "for-tuple": "def {F}(v, fs):\n    for i, {N} in fs:\n        {U}\n",
    "async-for": "async def {F}(v, fs):\n    async for {N} in fs:\n        {U}\n",
    "with": "def {F}(v, fs):\n    with fs.open() as {N}:\n        {U}\n",
    "async-with": "async def {F}(v, fs):\n    async with fs.open() as {N}:\n        {U}\n",
    "except": "def {F}(v, fs):\n    try:\n        fs.go\n    except fs.Err as {N}:\n        {U}\n",
    # ---- assignments
    "walrus": "def {F}(v, fs):\n    if ({N} := fs.pick):\n        {U}\n",
    "assign": "def {F}(v, fs):\n    {N} = fs.pick\n    return {U}\n",
    "annassign": "def {F}(v, fs):\n    {N}: int = fs.pick\n    return {U}\n",
    "augassign": "def {F}(v, fs):\n    {N} += fs.pick\n    return {U}\n",
    "tuple-assign": "def {F}(v, fs):\n    {N}, other = fs.pick\n    return {U}\n",
    "star-assign": "def {F}(v, fs):\n    first, *{N} = fs.pick\n    return {U}\n",
    "assign-after-use": "def {F}(v, fs):\n    {U}\n    {N} = fs.pick\n",
    # ---- structural pattern matching
    "match-capture": "def {F}(v, fs):\n    match fs.pick:\n        case {N}:\n            {U}\n",
    "match-as": "def {F}(v, fs):\n    match fs.pick:\n        case [1, 2] as {N}:\n            {U}\n",
    "match-star": "def {F}(v, fs):\n    match fs.pick:\n        case [1, *{N}]:\n            {U}\n",
    "match-mapping-rest": "def {F}(v, fs):\n    match fs.pick:\n        case {{1: 2, **{N}}}:\n            {U}\n",
    "match-class-kw": "def {F}(v, fs):\n    match fs.pick:\n        case fs.K(x={N}):\n            {U}\n",
    # ---- nested definitions
    "nested-def-name": "def {F}(v):\n    def {N}(z):\n        return z.local_only\n    return {U}\n",
    "nested-class-name": "def {F}(v):\n    class {N}:\n        pass\n    return {U}\n",
}

HOSTS = {**PARAM_HOSTS, **TARGET_HOSTS}

# what is done with the bound name
USES = {
    "call": "{N}(v)",
    "call-attr-arg": "{N}(v.part)",
    "call-keyword": "{N}(r=v)",
    "dotted-call": "{N}.go(v)",
}

# ------------------------------------------------------------------ unrelated definitions named N
# every one of them reads attributes of its parameter that no host mentions, so inlining it shows

UNRELATED = {
    "function": "def {N}(r):\n    r.hits = r.hits + 1\n    return r.secret\n",
    "function-other-parameters": "def {N}(first, r=None, *more):\n    del first.gone\n    return r.secret\n",
    "async-function": "async def {N}(r):\n    return r.secret\n",
    "class": "class {N}:\n    def __init__(self, r):\n        self.s = r.secret\n",
    "class-with-static-method": "class {N}:\n    @staticmethod\n    def go(r):\n        return r.secret\n",
    "lambda": "{N} = lambda r: r.secret\n",
    "variable": "{N} = 3\n",
    "import-stdlib": "from os.path import join as {N}\n",
    # the two below need the module `c05helpers` next to the file (a followed import)
    "import-followed-function": "from c05helpers import {N}\n",
    "import-followed-module": "import c05helpers as {N}\n",
}
IMPORT_KINDS = {"import-stdlib", "import-followed-function", "import-followed-module"}
HELPERS_NAME = "c05helpers.py"


def helpers_source(name):
    """the followed module: a function named N (for `from c05helpers import N`) and `go` (for `N.go(v)` with
    `import c05helpers as N`)."""
    return f"def {name}(r):\n    r.hits = 1\n    return r.secret\n\ndef go(r):\n    return r.secret\n"

# a definition of this kind is something a CALL through N can be resolved to (inlined from)
INLINABLE = {
    "call": {"function", "function-other-parameters", "async-function", "class", "lambda", "import-followed-function"},
    "dotted-call": {"class-with-static-method", "import-followed-module"},
}
INLINABLE["call-attr-arg"] = INLINABLE["call"]
INLINABLE["call-keyword"] = INLINABLE["call"]


def host_source(form, fname, name, use):
    return HOSTS[form].format(F=fname, N=name, U=USES[use].format(N=name))


def unrelated_source(kind, name):
    return UNRELATED[kind].format(N=name)


def reported_name(form, fname):
    """the key of the results document the host's effects are reported under."""
    return fname


# ------------------------------------------------------------------ syntactic class of the binder


class _Binder(ast.NodeVisitor):
    """Finds the construct(s) that bind `name` inside one top-level statement."""

    def __init__(self, name):
        self.name = name
        self.found = []
        self.stack = []     # enclosing scopes: ("function" | "lambda" | "nested-def" | "class", node)

    # ---- parameters
    def _params(self, args: ast.arguments, owner):
        for kind, lst in (("positional-only", args.posonlyargs), ("positional-or-keyword", args.args),
                          ("keyword-only", args.kwonlyargs)):
            for a in lst:
                if a.arg == self.name:
                    self.found.append(f"{owner}-parameter:{kind}")
        if args.vararg is not None and args.vararg.arg == self.name:
            self.found.append(f"{owner}-parameter:var-positional")
        if args.kwarg is not None and args.kwarg.arg == self.name:
            self.found.append(f"{owner}-parameter:var-keyword")

    def _func(self, node):
        nested = any(k in ("function", "nested-def", "lambda") for k, _ in self.stack)
        in_class = bool(self.stack) and self.stack[-1][0] == "class"
        if nested and node.name == self.name:
            self.found.append("nested-def-name")
        owner = "nested-def" if nested else ("method" if in_class else "function")
        self._params(node.args, owner)
        self.stack.append(("nested-def" if nested else "function", node))
        for d in node.args.defaults + [d for d in node.args.kw_defaults if d is not None]:
            self.visit(d)
        for st in node.body:
            self.visit(st)
        self.stack.pop()

    visit_FunctionDef = _func
    visit_AsyncFunctionDef = _func

    def visit_Lambda(self, node):
        self._params(node.args, "lambda")
        self.stack.append(("lambda", node))
        self.visit(node.body)
        self.stack.pop()

    def visit_ClassDef(self, node):
        if any(k in ("function", "nested-def", "lambda") for k, _ in self.stack) and node.name == self.name:
            self.found.append("nested-class-name")
        self.stack.append(("class", node))
        for st in node.body:
            self.visit(st)
        self.stack.pop()

    # ---- targets
    def _names(self, target):
        return [n.id for n in ast.walk(target) if isinstance(n, ast.Name)]

    def visit_comprehension(self, node):
        if self.name in self._names(node.target):
            self.found.append("comprehension-target")
        self.generic_visit(node)

    def visit_For(self, node):
        if self.name in self._names(node.target):
            self.found.append("for-target")
        self.generic_visit(node)

    visit_AsyncFor = visit_For

    def visit_With(self, node):
        for it in node.items:
            if it.optional_vars is not None and self.name in self._names(it.optional_vars):
                self.found.append("with-target")
        self.generic_visit(node)

    visit_AsyncWith = visit_With

    def visit_ExceptHandler(self, node):
        if node.name == self.name:
            self.found.append("except-handler-name")
        self.generic_visit(node)

    def visit_NamedExpr(self, node):
        if self.name in self._names(node.target):
            self.found.append("walrus-target")
        self.generic_visit(node)

    def visit_Assign(self, node):
        if any(self.name in self._names(t) for t in node.targets):
            self.found.append("assignment-target")
        self.generic_visit(node)

    def visit_AnnAssign(self, node):
        if self.name in self._names(node.target):
            self.found.append("assignment-target")
        self.generic_visit(node)

    def visit_AugAssign(self, node):
        if self.name in self._names(node.target):
            self.found.append("assignment-target")
        self.generic_visit(node)

    def visit_MatchAs(self, node):
        if node.name == self.name:
            self.found.append("match-capture")
        self.generic_visit(node)

    def visit_MatchStar(self, node):
        if node.name == self.name:
            self.found.append("match-capture")
        self.generic_visit(node)

    def visit_MatchMapping(self, node):
        if node.rest == self.name:
            self.found.append("match-capture")
        self.generic_visit(node)


def top_level_statement(tree, fname):
    for st in tree.body:
        if isinstance(st, (ast.FunctionDef, ast.AsyncFunctionDef, ast.ClassDef)) and st.name == fname:
            return st
        if isinstance(st, ast.Assign) and any(isinstance(t, ast.Name) and t.id == fname for t in st.targets):
            return st
    return None


def binder_class(source, fname, name, extra_statements=()):
    """The syntactic class(es) of whatever binds `name` in the top-level statement defining `fname`
    (and in the other named statements: a helper class of the host), '+'-joined, sorted; '' = not bound."""
    tree = ast.parse(source)
    found = set()
    for st in [top_level_statement(tree, fname)] + [top_level_statement(tree, x) for x in extra_statements]:
        if st is None:
            continue
        b = _Binder(name)
        if isinstance(st, ast.Assign):
            b.visit(st.value)           # a module-level lambda: its parameters
            found |= {x.replace("lambda-parameter", "module-lambda-parameter") for x in b.found}
        else:
            b.visit(st)
            found |= set(b.found)
    return "+".join(sorted(found))


def is_parameter_class(cls):
    return bool(cls) and all("-parameter:" in c for c in cls.split("+"))


# ------------------------------------------------------------------ CPython's symtable as the scoping oracle


def _scopes(tab, path=()):
    yield path, tab
    for ch in tab.get_children():
        yield from _scopes(ch, path + (ch.get_name(),))


def python_says_global(source, fname, name, extra_statements=()):
    """True when CPython resolves some use of `name` inside the statement(s) of `fname` to the MODULE's
    binding (global, implicit or explicit) — i.e. the module-level definition would NOT be unrelated."""
    top = symtable.symtable(source, "target.py", "exec")
    for ch in top.get_children():
        if ch.get_name() not in (fname, *extra_statements, "lambda"):
            continue
        if ch.get_name() == "lambda":
            # a module-level lambda assigned to fname: symtable names every lambda scope "lambda"; take the one
            # on the line of the assignment
            tree = ast.parse(source)
            st = top_level_statement(tree, fname)
            if st is None or not isinstance(st, ast.Assign) or ch.get_lineno() != st.lineno:
                continue
        for _, tab in _scopes(ch):
            try:
                sym = tab.lookup(name)
            except KeyError:
                continue
            if sym.is_global() and sym.is_referenced():
                return True
    return False


# ------------------------------------------------------------------ cases


def extra_statements_of(form, fname):
    return (f"Holder_{fname}",) if form.startswith("static-") else ()


def single_file_case(form, use, kind, name, place, fname="host"):
    """(base source, variant source): the host alone / the host with the unrelated definition before or
    after it. Imports always go first (rattr demands top-level imports anyway)."""
    host = host_source(form, fname, name, use)
    control = "def control(c):\n    return c.control_attr\n"
    base = host + "\n" + control
    unrel = unrelated_source(kind, name)
    if kind in IMPORT_KINDS or place == "before":
        variant = unrel + "\n" + host + "\n" + control
    elif place == "between":
        variant = host + "\n" + unrel + "\n" + control
    else:
        variant = host + "\n" + control + "\n" + unrel
    return base, variant


# ------------------------------------------------------------------ signatures


def signature(cls, use, kind, pinned=True):
    """The class of WHAT fails, from the syntax of the input alone: how the name is bound, and — for the one
    deviation parameters are known to have — that the call is a dotted call to a static method."""
    if not cls:
        mech = "other:name-not-bound-in-host"
    elif is_parameter_class(cls):
        if use == "dotted-call" and kind == "class-with-static-method":
            mech = "static-method-called-through-parameter"
        else:
            mech = "parameter:" + cls
    else:
        mech = "not-a-parameter:" + cls
    head = f"{BASE_SIG}:unrelated-definition-named-like-local-name"
    if not pinned:
        head += ":not-the-pinned-behaviour"
    return f"{head}:{mech}"


# ------------------------------------------------------------------ multi-file layouts

LAYOUTS = [
    "host-and-unrelated-in-followed-import",      # lib: host (+ N)        target: wrapper calling lib.host
    "host-in-followed-import-unrelated-in-target",  # lib: host            target: wrapper (+ N)
    "unrelated-arrives-by-star-import",           # lib: control (+ N)     target: from lib import * ; host
    "unrelated-in-plainly-imported-module",       # lib: control (+ N)     target: import lib ; host
    "unrelated-is-import-of-followed-module",     # c05helpers             target: (+ import … N) ; host
]


def wrapper_for(host_src, fname, lib):
    """`def t_<fname>(…): return lib.<fname>(…)` passing one own parameter per parameter of the host (positional
    for positional parameters, by keyword for keyword-only ones); None when the host is not a plain def."""
    for node in ast.parse(host_src).body:
        if isinstance(node, ast.FunctionDef) and node.name == fname:
            a = node.args
            pos = [x.arg for x in a.posonlyargs + a.args]
            kwo = [x.arg for x in a.kwonlyargs]
            ps = [f"w_{n}" for n in pos + kwo] or ["w_none"]
            call = ", ".join([f"w_{n}" for n in pos] + [f"{n}=w_{n}" for n in kwo])
            return f"def t_{fname}({', '.join(ps)}):\n    return {lib}.{fname}({call})\n"
    return None


CONTROL = "def control(c):\n    return c.control_attr\n"


def place_unrelated(rng, chunks, unrel, kind):
    """the module's chunks with the unrelated definition inserted (imports go first)."""
    cs = list(chunks)
    pos = 0 if kind in IMPORT_KINDS else rng.randint(0, len(cs))
    cs.insert(pos, unrel)
    return "\n".join(cs), ("first" if pos == 0 else "last" if pos == len(chunks) else "between")


def project_case(rng, layout, form, use, kind, name, fname="host"):
    """-> None (layout not applicable) | dict(base_files, files, compared, host_file, place)."""
    host = host_source(form, fname, name, use)
    unrel = unrelated_source(kind, name)
    if layout == "unrelated-is-import-of-followed-module":
        if kind not in ("import-followed-function", "import-followed-module"):
            return None
        base = {"target.py": host + "\n" + CONTROL, HELPERS_NAME: helpers_source(name)}
        var, place = place_unrelated(rng, [host, CONTROL], unrel, kind)
        return {"base_files": base, "files": {**base, "target.py": var}, "compared": [fname, "control"],
                "host_file": "target.py", "place": place}
    if kind in ("import-followed-function", "import-followed-module"):
        return None
    if layout in ("host-and-unrelated-in-followed-import", "host-in-followed-import-unrelated-in-target"):
        w = wrapper_for(host, fname, "liba")
        if w is None:
            return None
        lib = host + "\n" + CONTROL
        tgt_chunks = [w, "def t_control(c):\n    return liba.control(c)\n"]
        base = {"target.py": "import liba\n\n" + "\n".join(tgt_chunks), "liba.py": lib}
        if layout == "host-and-unrelated-in-followed-import":
            var, place = place_unrelated(rng, [host, CONTROL], unrel, kind)
            files = {**base, "liba.py": var}
        else:
            if kind in IMPORT_KINDS:
                var, place = unrel + "import liba\n\n" + "\n".join(tgt_chunks), "first"
            else:
                var, place = place_unrelated(rng, tgt_chunks, unrel, kind)
                var = "import liba\n\n" + var
            files = {**base, "target.py": var}
        return {"base_files": base, "files": files, "compared": [f"t_{fname}", "t_control"], "host_file": "liba.py",
                "place": place}
    head = "from liba import *\n\n" if layout == "unrelated-arrives-by-star-import" else "import liba\n\n"
    base = {"target.py": head + host + "\n" + "def t_control(c):\n    return " +
            ("control(c)\n" if layout == "unrelated-arrives-by-star-import" else "liba.control(c)\n"),
            "liba.py": CONTROL}
    var, place = place_unrelated(rng, [CONTROL], unrel, kind)
    return {"base_files": base, "files": {**base, "liba.py": var}, "compared": [fname, "t_control"],
            "host_file": "target.py", "place": place}


def quick_rows(rng):
    """single-file rows for the quick tier: every binder form x one definition a bare call can be inlined from, and
    for half of the forms x one more row — a class with a static method reached by a dotted call, or a random
    (use, kind); so every form meets the main mechanism in every run, and over the seeds the whole product."""
    rows = []
    bare = sorted(INLINABLE["call"] - {"import-followed-function"})
    free_kinds = [k for k in UNRELATED if not k.startswith("import-followed")]
    for i, form in enumerate(HOSTS):
        picks = [(rng.choice(["call", "call-attr-arg", "call-keyword"]), rng.choice(bare))]
        x = rng.random()
        if i == 0 or x < 0.25:
            picks.append(("dotted-call", "class-with-static-method"))
        elif x < 0.5:
            picks.append((rng.choice(list(USES)), rng.choice(free_kinds)))
        for use, kind in picks:
            rows.append((form, use, kind, rng.choice(NAMES), rng.choice(["before", "between", "after"])))
    return rows


def full_rows(rng):
    return [(form, use, kind, rng.choice(NAMES), rng.choice(["before", "between", "after"]))
            for form in HOSTS for use in USES for kind in UNRELATED if not kind.startswith("import-followed")]


def project_rows(rng, n_per_layout):
    """multi-file rows: per layout a random sample of (form, use, kind) — biased to combinations a call could be
    inlined through (the rest can only fail by crashing)."""
    rows = []
    forms = list(HOSTS)
    for layout in LAYOUTS:
        got, tries = 0, 0
        while got < n_per_layout and tries < 40 * n_per_layout:
            tries += 1
            form = rng.choice(forms)
            if rng.random() < 0.8:
                use = rng.choice(list(USES))
                kinds = sorted(INLINABLE[use])
                kind = rng.choice(kinds)
            else:
                use, kind = rng.choice(list(USES)), rng.choice(list(UNRELATED))
            name = rng.choice(NAMES)
            c = project_case(rng, layout, form, use, kind, name)
            if c is None:
                continue
            c.update(layout=layout, form=form, use=use, kind=kind, name=name)
            rows.append(c)
            got += 1
    return rows

"""C16, cache stage: the 16 settings of -w / -H / -T with a CACHE FILE in play.

`-C file` where the file is absent (also: its directory missing, a directory in its place, its parent a
regular file), valid and fresh (the previous run's document, also re-serialised), valid but stale (one
recorded fact changed: target hash, version, argument hash, target path, an import's hash, an import
that no longer exists), malformed in many ways (empty, white space, truncated, JSON of another shape,
`null`, a number, a field of the wrong type, trailing bytes, a byte-order mark, not UTF-8) — with and
without `-r`, under permissive / threshold = total / strict settings, `-o results | silent | cacheable`,
the cache path spelled absolute and relative. The state is re-staged from its BYTES before every run.

Oracle (on real outputs only): traceback / exit status / stdout bytes / the cache path afterwards
(kind and bytes) / badness buckets / the tapped event list are identical across the settings; the
stderr lines of a lower -w are a subsequence of those of a higher one and identical across -H / -T;
error and fatal lines are present at every level; every error / fatal diagnostic raised is printed.
In-process under all 16 settings (the lines are really rendered: a diagnostic whose culprit is not an
AST node / symbol crashes only when printed), and through the real CLI for a sample of the states.

Correspondence: `MainCache.mainCache` (Lean) predicts, from the events of the run WITHOUT a cache file
and the state as staged (gate class by construction, never from rattr's answer), the printed
(level, place) lines, buckets, exit status, whether stdout carries the document and what happens to the
cache path (unchanged / removed / written; a written document names the target as spelled).

Coverage: every diagnostic call site of the cache code (`DiagSites` class `cache`, and
`write_cache_file`) must be RENDERED at `-w all` by some run of this stage; `target_cache_file_is_up_to_date`
is also called directly (the `cache target … does not exist` branch is unreachable through `main`:
argument validation rejects such a target).
"""
from __future__ import annotations

import contextlib
import io
import json
import os
import shutil
import sys
from pathlib import Path

import common
import impl
import diag_common as dc

WARN = dc.WARN
SETTINGS = [dict(warn=w, H=h, T=t) for w in WARN for h in (False, True) for t in (False, True)]
RANK = {w: i for i, w in enumerate(WARN)}


def few(k):
    """One setting per warning level, the -H / -T combination rotating with k."""
    return [SETTINGS[4 * i + (i + k) % 4] for i in range(4)]


def skey(s):
    return f"-w {s['warn']}{' -H' if s['H'] else ''}{' -T' if s['T'] else ''}"


# ------------------------------------------------------------------------------------------------
# cache states: name -> (gate class for the model or None, kind, writable)
#   kind "bytes": a regular file with the bytes of `state_bytes`; the others are special
# ------------------------------------------------------------------------------------------------

STATES = {
    "absent":               ("absent", "absent", True),
    "absent-no-directory":  ("absent", "nodir", True),
    "directory-in-place":   ("absent", "dir", False),
    "parent-is-a-file":     ("absent", "parentfile", False),
    "fresh":                ("fresh", "bytes", True),
    "fresh-compact":        ("fresh", "bytes", True),
    "stale-filehash":       ("stale", "bytes", True),
    "stale-version":        ("stale", "bytes", True),
    "stale-arguments-hash": ("stale", "bytes", True),
    "stale-filepath":       ("stale", "bytes", True),
    "stale-import-hash":    ("stale", "bytes", True),
    "stale-import-missing": ("stale", "bytes", True),
    "malformed-empty":      ("malformed", "bytes", True),
    "malformed-whitespace": ("malformed", "bytes", True),
    "malformed-truncated":  ("malformed", "bytes", True),
    "malformed-other-json": ("malformed", "bytes", True),
    "malformed-null":       ("malformed", "bytes", True),
    "malformed-number":     ("malformed", "bytes", True),
    "malformed-field-type": ("malformed", "bytes", True),
    "malformed-trailing":   ("malformed", "bytes", True),
    "malformed-bom":        ("malformed", "bytes", True),
    "malformed-not-utf8":   ("malformed", "bytes", True),
    # documents whose reading is up to the deserialiser (oracle only, no model class)
    "odd-json-list":        (None, "bytes", True),
    "odd-missing-field":    (None, "bytes", True),
    "odd-extra-field":      (None, "bytes", True),
}

SYNTHETIC = {"version": "0.0.0", "arguments_hash": "0" * 32, "plugins_hash": "0" * 32, "filepath": "elsewhere/target.py",
             "filehash": "0" * 32, "imports": [], "results": {}}


def state_bytes(name, fresh):
    """The bytes of a regular-file state; `fresh` = the document a from-scratch run wrote (None when the
    program cannot be cached: the stale states then use a hand-written document)."""
    doc = json.loads(fresh) if fresh is not None else None
    base = dict(doc) if doc is not None else dict(SYNTHETIC)

    def dump(d):
        return json.dumps(d, indent=4).encode()

    if name == "fresh":
        return fresh
    if name == "fresh-compact":
        return None if doc is None else json.dumps(doc).encode()
    if name == "stale-filehash":
        return dump(dict(base, filehash="f" * 32))
    if name == "stale-version":
        return dump(dict(base, version="0.0.0+other"))
    if name == "stale-arguments-hash":
        return dump(dict(base, arguments_hash="a" * 32))
    if name == "stale-filepath":
        return dump(dict(base, filepath="some/other/target.py"))
    if name == "stale-import-hash":
        imps = [dict(i) for i in base["imports"]] or [{"filepath": __file__, "filehash": "0" * 32}]
        imps[-1]["filehash"] = "e" * 32
        return dump(dict(base, imports=imps))
    if name == "stale-import-missing":
        imps = [dict(i) for i in base["imports"]] + [{"filepath": "/nonexistent/rattr-c16/module.py", "filehash": "0" * 32}]
        return dump(dict(base, imports=imps))
    if name == "malformed-empty":
        return b""
    if name == "malformed-whitespace":
        return b" \n\t\n"
    if name == "malformed-truncated":
        b = dump(base)
        return b[:max(len(b) // 2, 8)]
    if name == "malformed-other-json":
        return b'{"results": 3, "imports": "none"}'
    if name == "malformed-null":
        return b"null"
    if name == "malformed-number":
        return b"3"
    if name == "malformed-field-type":
        return dump(dict(base, imports=7))
    if name == "malformed-trailing":
        return dump(base) + b"}"
    if name == "malformed-bom":
        return b"\xef\xbb\xbf" + dump(base)
    if name == "malformed-not-utf8":
        return b"\xff\xfe\x00\x01 cache"
    if name == "odd-json-list":
        return b"[]"
    if name == "odd-missing-field":
        d = dict(base)
        d.pop("filehash")
        return dump(d)
    if name == "odd-extra-field":
        return dump(dict(base, extra_field=1))
    raise ValueError(name)


def cache_path_of(jobdir: Path, kind):
    return jobdir / "c" / "cache.json"


def stage(jobdir: Path, kind, data):
    """(Re)create the state below `jobdir` -> the cache path."""
    shutil.rmtree(jobdir, ignore_errors=True)
    jobdir.mkdir(parents=True)
    cf = cache_path_of(jobdir, kind)
    if kind == "nodir":
        return cf
    if kind == "parentfile":
        (jobdir / "c").write_text("a regular file where the cache directory should be\n")
        return cf
    (jobdir / "c").mkdir()
    if kind == "dir":
        cf.mkdir()
    elif kind == "bytes":
        cf.write_bytes(data)
    return cf


def snapshot(cf: Path):
    """What is at the cache path: (kind, bytes or None)."""
    try:
        if cf.is_symlink():
            return ("symlink", None)
        if cf.is_dir():
            return ("dir", None)
        if cf.is_file():
            return ("file", cf.read_bytes())
    except OSError as exc:      # the parent is a regular file
        return ("unreachable", type(exc).__name__.encode())
    return ("absent", None)


def cache_arg(cf: Path, cwd: Path, spelling):
    return str(cf) if spelling == "abs" else os.path.relpath(str(cf), str(cwd))


def argv_of(project, a, s, output, carg, refresh):
    cfg = dict(strict=a["strict"], threshold=a["threshold"], warn=s["warn"], H=s["H"], T=s["T"], via_toml=False)
    return list(getattr(project, "argv_pre", [])) + ["-C", carg] + (["-r"] if refresh else []) + dc.argv_for(cfg, project.target_arg, output)


def mask_job(text, tag):
    """The per-run scratch directory (`…/g<i>/s<j>/…`) out of a message."""
    return text.replace(tag, "g/s")


def _inproc_cache_job(job):
    """(project, argv, job directory, kind, bytes, tag) -> run_inprocess result + before / after snapshots."""
    project, argv, jobdir, kind, data, tag = job
    cf = stage(Path(jobdir), kind, data)
    before = snapshot(cf)
    r = dc.run_inprocess(project, argv, record_sites=True)
    after = snapshot(cf)
    for e in r["events"]:
        e["message"] = mask_job(e["message"], tag)
    for l in r["lines"]:
        l["msg"] = mask_job(l["msg"], tag)
    return {"exit": r["exit"], "stdout": r["stdout"], "crash": r["crash"], "buckets": r["buckets"], "events": r["events"],
            "printed": r["printed"], "lines": r["lines"], "before": before, "after": after}


def _cli_cache_job(project, argv, jobdir, kind, data, tag):
    cf = stage(Path(jobdir), kind, data)
    before = snapshot(cf)
    r = dc.run_cli(project, argv)
    after = snapshot(cf)
    for l in r["lines"]:
        l["msg"] = mask_job(l["msg"], tag)
    crash = None
    if any(x.startswith("Traceback") for x in r["junk"]):
        crash = ("crash", (r["junk"][-1].split(":")[0].strip() or "unknown"), r["junk"][-1][:200])
    return {"exit": r["exit"], "stdout": r["stdout"], "crash": crash, "lines": r["lines"], "junk": r["junk"],
            "before": before, "after": after}


def _direct_gate_job(job):
    """`target_cache_file_is_up_to_date(<a target that does not exist>, <cache path>)` under the configuration of
    `argv` (the branch `main` cannot reach) -> outcome, events, printed, lines."""
    project, argv, jobdir = job
    import rattr.__main__  # noqa: F401  (the tap patches its stage functions)
    from rattr.cli import parse_arguments
    from rattr.config import Config, State
    shutil.rmtree(jobdir, ignore_errors=True)
    Path(jobdir).mkdir(parents=True)
    old_home = os.environ.get("HOME")
    os.environ["HOME"] = str(project.home)
    out = io.StringIO()
    try:
        with impl.in_dir(str(project.cwd)):
            dc.drop_config()
            impl.clear_caches_fast()
            with dc.DiagTap(record_sites=True) as tap, contextlib.redirect_stdout(out):
                def go():
                    from rattr.models.results.util import target_cache_file_is_up_to_date
                    args = parse_arguments(sys_args=list(argv))
                    Config(arguments=args, state=State())
                    return target_cache_file_is_up_to_date(Path(jobdir) / "no-such-target.py", Path(jobdir) / "cache.json")
                oc = impl.outcome_of(go)
            inst = dc.current_config()
            st = inst.state if inst is not None else None
            buckets = None if st is None else [st.badness_from_target_file, st.badness_from_imports, st.badness_from_simplification]
    finally:
        if old_home is None:
            os.environ.pop("HOME", None)
        else:
            os.environ["HOME"] = old_home
        dc.drop_config()
    lines, _ = dc.parse_stderr(tap.stderr)
    tag = str(jobdir)
    for e in tap.events:
        e["message"] = e["message"].replace(tag, "<job>")
    for l in lines:
        l["msg"] = l["msg"].replace(tag, "<job>")
    return {"exit": repr(oc[1]) if oc[0] == "ok" else f"{oc[0]}:{oc[1]}", "stdout": out.getvalue(), "crash": oc if oc[0] == "crash" else None,
            "buckets": buckets, "events": tap.events, "printed": tap.printed, "lines": lines, "before": ("absent", None), "after": ("absent", None)}


# ------------------------------------------------------------------------------------------------
# the oracle on one group (program, analysis cfg, output mode, state, -r) over its settings
# ------------------------------------------------------------------------------------------------

def masked(lines):
    return [(l["level"], l["line"], l["col"], l["msg"]) for l in lines if l["level"] != "rattr"]


def state_class(name):
    return name.split("-")[0] if not name.startswith("absent") else name


def judge_group(res, differing_flags, group, settings, runs, observed):
    """`runs` parallel to `settings`. Violations carry the state and `-r` in the signature's tail (the head
    is the property aspect, as in the other stages)."""
    case = dict(group["case"])
    tail = f":cache-file={group['state']}{':-r' if group['refresh'] else ''}"
    res.evaluations += len(settings)
    res.count(f"cache:{observed}:{state_class(group['state'])}{':-r' if group['refresh'] else ''}")

    def flags(values, setts):
        return flags_of(differing_flags, values, setts)

    def viol(sig, **kw):
        res.violations.append({"signature": sig + tail, "case": case, "observed": observed, **kw})

    crashes = [r["crash"] is not None for r in runs]
    f = flags(crashes, settings)
    if f:
        kinds = sorted({r["crash"][1] for r in runs if r["crash"] is not None})
        viol(f"traceback-depends-on:{f}:{'+'.join(kinds)}",
             outcome={skey(s): ("traceback " + r["crash"][1]) if r["crash"] else f"exit {r['exit']}" for s, r in zip(settings, runs)},
             detail=[r["crash"][2] if len(r["crash"]) > 2 else None for r in runs if r["crash"]][:1])
    f = flags([r["stdout"] for r in runs], settings)
    if f:
        viol(f"stdout-depends-on:{f}", stdout_digests={skey(s): common.digest(r["stdout"]) for s, r in zip(settings, runs)})
    f = flags([r["exit"] for r in runs], settings)
    if f:
        viol(f"exit-status-depends-on:{f}", exits={skey(s): r["exit"] for s, r in zip(settings, runs)})
    f = flags([r["after"] for r in runs], settings)
    if f:
        viol(f"cache-file-depends-on:{f}",
             after={skey(s): [r["after"][0], None if r["after"][1] is None else common.digest(r["after"][1].hex())] for s, r in zip(settings, runs)})
    if any(crashes):
        res.skipped_outside_fragment += 1
        res.count("cache:skipped:traceback-at-" + ("every-setting" if all(crashes) else "some-settings") + ":" + group["state"]
                  + (":-r" if group["refresh"] else ""))
        return False
    if "buckets" in runs[0]:
        f = flags([r["buckets"] for r in runs], settings)
        if f:
            viol(f"badness-depends-on:{f}", buckets={skey(s): r["buckets"] for s, r in zip(settings, runs)})
        streams = [[(e["level"], e["badness"], e["where"], e["message"]) for e in r["events"]] for r in runs]
        f = flags(streams, settings)
        if f:
            viol(f"diagnostic-events-depend-on:{f}", n_events={skey(s): len(x) for s, x in zip(settings, streams)})
    seqs = [masked(r["lines"]) for r in runs]
    done = False
    for i, s1 in enumerate(settings):
        for j, s2 in enumerate(settings):
            if i != j and RANK[s1["warn"]] <= RANK[s2["warn"]] and not dc.is_subsequence(seqs[i], seqs[j]):
                if s1["warn"] == s2["warn"]:
                    which = "".join(sorted({"-H" if s1["H"] != s2["H"] else "", "-T" if s1["T"] != s2["T"] else ""}))
                    viol(f"stderr-lines-depend-on:{which}", a=skey(s1), b=skey(s2), lines_a=seqs[i][:8], lines_b=seqs[j][:8])
                else:
                    viol(f"stderr-not-subsequence:-w-{s1['warn']}-vs-{s2['warn']}", a=skey(s1), b=skey(s2),
                         lines_a=seqs[i][:8], lines_b=seqs[j][:8])
                done = True
                break
        if done:
            break
    top = max(range(len(settings)), key=lambda i: RANK[settings[i]["warn"]])
    errs_all = [x for x in seqs[top] if x[0] in ("error", "fatal")]
    for s, q in zip(settings, seqs):
        errs = [x for x in q if x[0] in ("error", "fatal")]
        if errs != errs_all:
            missing = [x[0] for x in errs_all if x not in errs]
            viol(f"error-or-fatal-line-missing-at:-w-{s['warn']}:{'+'.join(sorted(set(missing))) or 'reordered'}",
                 setting=skey(s), lines=errs[:8], lines_at_all=errs_all[:8])
            break
    if "events" in runs[0]:
        n_errfatal = sum(1 for e in runs[top]["events"] if e["level"] in ("error", "fatal"))
        caught = any(e["level"] == "fatal" for e in runs[top]["events"][:-1])
        if len(errs_all) != n_errfatal and not caught:
            viol("error-or-fatal-diagnostic-not-printed-at:-w-all", printed=len(errs_all), raised=n_errfatal)
    return True


def after_class(before, after, predicted, refresh):
    """What happened to the cache path, named as the model names it when the observation fits the
    prediction (nothing there before and after is both `unchanged` and `removed`; `-r` on the document a
    run writes again is `written` though the bytes are the same)."""
    fits = {"unchanged": after == before,
            "removed": after[0] == "absent",
            "written": after[0] == "file" and (after != before or refresh)}
    if fits.get(predicted):
        return predicted
    for k in ("unchanged", "removed", "written"):
        if fits[k]:
            return k
    return "other:" + after[0]


def flags_of(differing_flags, values, settings):
    """`differing_flags`, and when only multi-flag changes are in the sample (one setting per warning
    level): the smallest set of options the value is a function of."""
    f = differing_flags(values, settings)
    if f != "combination":
        return f
    import itertools
    names = {"warn": "-w", "H": "-H", "T": "-T"}
    for n in (1, 2):
        for keys in itertools.combinations(("warn", "H", "T"), n):
            seen = {}
            if all(seen.setdefault(tuple(s[k] for k in keys), v) == v for s, v in zip(settings, values)):
                return "".join(sorted(names[k] for k in keys))
    return f


def model_request(group, settings, dry_events):
    gate, kind, writable = STATES[group["state"]]
    if gate is None:
        return None
    a = group["a"]
    cfgs = [{"strict": a["strict"], "threshold": a["threshold"], "warn": s["warn"], "H": s["H"], "T": s["T"]} for s in settings]
    return ("c16_cache", {"refresh": group["refresh"], "gate": gate, "writable": writable, "cfgs": cfgs,
                          "events": dc.model_events(dry_events)})


def compare_model(res, out, group, settings, runs):
    gate, kind, writable = STATES[group["state"]]
    case = dict(group["case"])
    if "__error__" in out:
        res.disagreements.append({"case": case, "model": out})
        return
    for s, mo, r in zip(settings, out["runs"], runs):
        drop = set()
        evs = r["events"]
        for i in range(len(evs) - 1):
            if evs[i]["level"] == "fatal" and evs[i + 1]["level"] == "fatal" and evs[i]["where"] == evs[i + 1]["where"] and evs[i]["badness"] == 0:
                drop.add(i)
        printed = [[p["level"], evs[p["event"]]["where"] if p["event"] is not None else None]
                   for p in r["printed"] if p["level"] != "rattr" and p["event"] not in drop]
        mm = {"exit": mo["exit"], "buckets": mo["buckets"], "printed": mo["printed"], "cache": mo["cache"]}
        ii = {"exit": r["exit"], "buckets": r["buckets"], "printed": printed,
              "cache": after_class(r["before"], r["after"], mo["cache"], group["refresh"])}
        if group["output"] != "silent":
            mm["stdout"] = mo["output"]
            ii["stdout"] = bool(r["stdout"].strip())
        diffs = [k for k in mm if mm[k] != ii[k]]
        if mo["cache"] == "written" and r["after"][0] == "file":
            try:
                fp = json.loads(r["after"][1]).get("filepath")
            except Exception:  # noqa
                fp = "<not a document>"
            if fp != group["target_arg"]:
                diffs.append("written-filepath")
                ii["written-filepath"], mm["written-filepath"] = fp, group["target_arg"]
        if diffs:
            res.disagreements.append({"case": case, "setting": skey(s), "fields": ["cache-run:" + d for d in diffs],
                                      "impl": {k: ii[k] for k in diffs}, "model": {k: mm[k] for k in diffs}})
    res.count(f"cache:model:{gate}{':-r' if group['refresh'] else ''}:{'writable' if writable else 'unwritable'}")


# ------------------------------------------------------------------------------------------------
# the stage
# ------------------------------------------------------------------------------------------------

PROGRAMS = [
    # diagnostics of every -w class in the target and in the deep import, no error
    ({"target": ["undefined_name", "method_call"], "import": ["undefined_name", "class_not_stored"], "simpl": ["stdlib_call"], "fatal": None}, "deep"),
    # errors in the target and in result generation: the threshold gate decides
    ({"target": ["nested_def", "undefined_name"], "import": ["lambda_in_function"], "simpl": ["too_many_args", "call_ignored"], "fatal": None}, "flat"),
    # nothing to report at all
    ({"target": ["plain"], "import": ["plain"], "simpl": ["call_ok"], "fatal": None}, "collide"),
    # a fatal in the target: no document can ever be written
    ({"target": ["undefined_name"], "import": ["nested_def"], "simpl": [], "fatal": ["global_stmt", "target", 1]}, "deep"),
]

REFRESH_STATES = ["absent", "fresh", "stale-filehash", "malformed-empty", "malformed-not-utf8", "directory-in-place", "parent-is-a-file"]
CLI_STATES = ["absent", "absent-no-directory", "directory-in-place", "fresh", "stale-filehash", "malformed-empty", "malformed-truncated",
              "malformed-other-json", "malformed-not-utf8"]


def plan(base, rng, tier, seed):
    """-> [(project, prog, layout, [analysis cfg kinds])] and the group list is built in `run_cache_stage`."""
    progs = list(PROGRAMS)
    if tier != "quick":
        progs += [(dc.gen_program(rng, fatal_rate=0.1, empty_rate=0.0), rng.choice(["deep", "flat", "special_deep"])) for _ in range(3)]
    else:
        progs.append((dc.gen_program(rng, fatal_rate=0.0, empty_rate=0.0), rng.choice(["deep", "special_tail"])))
    return progs


def run_cache_stage(res, model, base, rng, tier, seed, differing_flags, inproc_map, submit_cli, cov=None):
    """In-process part now; returns a function that judges the queued CLI part."""
    quick = tier == "quick"
    base = Path(base)
    progs = plan(base, rng, tier, seed)
    projects = [dc.Project(base / f"cp{i}", prog, layout=lay) for i, (prog, lay) in enumerate(progs)]
    permissive = dict(strict=False, threshold=0)
    dry_cfg = dict(strict=False, threshold=0, warn="all", H=False, T=False, via_toml=False)

    # (1) per program: the events of the run without a cache file; the document of a from-scratch run
    prim_jobs = []
    for i, p in enumerate(projects):
        jd = base / "prime" / f"p{i}"
        prim_jobs.append((p, argv_of(p, permissive, dict(warn="none", H=False, T=False), "silent", str(cache_path_of(jd, "absent")), False),
                          str(jd), "absent", None, "prime"))
    primed = inproc_map(_inproc_cache_job, prim_jobs)
    dry = inproc_map(_dry_job, [(p, dc.argv_for(dry_cfg, p.target_arg, "results")) for p in projects])

    groups = []
    names = list(STATES)
    for i, (p, (prog, lay)) in enumerate(zip(projects, progs)):
        fresh = primed[i]["after"][1] if primed[i]["after"][0] == "file" and primed[i]["exit"] == 0 else None
        d = dry[i]
        if d["crash"] is not None or any(e["where"] is None for e in d["events"]):
            res.skipped_outside_fragment += 1
            res.count("cache:skipped:program-without-a-dry-run")
            continue
        total = d["buckets"][0] + d["buckets"][2]
        kinds = [permissive, dict(strict=False, threshold=max(total, 1)), dict(strict=True, threshold=0),
                 dict(strict=False, threshold=max(total - 1, 1))]
        for k, name in enumerate(names):
            first = i == 0
            if not first and quick and (k + i + seed) % 4 != 0 and not name.startswith("malformed-e"):
                continue            # the other programs: a rotating quarter of the states (quick)
            data = None
            if STATES[name][1] == "bytes":
                data = state_bytes(name, fresh)
                if data is None:
                    continue        # no document of this program exists (it ends in a fatal)
            a = kinds[0] if first and name.startswith("malformed") else kinds[(k + i + seed) % len(kinds)]
            output = ("results", "silent", "cacheable")[(k + i + seed) % 3]
            spelling = ("abs", "rel")[(k + seed) % 2]
            for refresh in (False, True):
                if refresh and (name not in REFRESH_STATES or (quick and not first and (k + seed) % 2)):
                    continue
                # all 16 settings: program 0 on absent / fresh / every other malformed state (rotating with the seed);
                # elsewhere one setting per warning level, the -H / -T combination rotating
                full = not quick or (first and not refresh and (name in ("absent", "fresh") or
                                                                (name.startswith("malformed") and (k + seed) % 2 == 0)))
                settings = SETTINGS if full else few(k + seed)
                case = {"program": prog, "layout": lay, "analysis_cfg": a, "output": output, "cache_state": name,
                        "cache_bytes_hex": None if data is None else data[:400].hex(), "refresh": refresh, "cache_spelling": spelling}
                groups.append({"project": p, "pi": i, "a": a, "output": output, "state": name, "kind": STATES[name][1], "data": data,
                               "refresh": refresh, "spelling": spelling, "settings": settings, "case": case, "target_arg": p.target_arg})
    jobs, index = [], []
    for gi, g in enumerate(groups):
        for si, s in enumerate(g["settings"]):
            jd = base / "runs" / f"g{gi}" / f"s{si}"
            carg = cache_arg(cache_path_of(jd, g["kind"]), g["project"].cwd, g["spelling"])
            jobs.append((g["project"], argv_of(g["project"], g["a"], s, g["output"], carg, g["refresh"]), str(jd), g["kind"], g["data"],
                         f"g{gi}/s{si}"))
            index.append(gi)
    outs = inproc_map(_inproc_cache_job, jobs)
    per = [[] for _ in groups]
    for gi, o in zip(index, outs):
        per[gi].append(o)
    rendered_at_all = set()
    reqs, rmeta = [], []
    for g, runs in zip(groups, per):
        try:
            for s, r in zip(g["settings"], runs):
                if cov is not None:
                    cov.note(r["events"])
                    if s["warn"] == "all":
                        rendered_at_all |= _rendered_sites(cov, r)
            if judge_group(res, differing_flags, g, g["settings"], runs, "in-process"):
                rq = model_request(g, g["settings"], dry[g["pi"]]["events"])
                if rq is not None:
                    reqs.append(rq)
                    rmeta.append((g, runs))
        except Exception as exc:
            res.internal_errors.append({"what": f"cache stage: {type(exc).__name__}: {exc}", "case": g["case"]})
    for (g, runs), out in zip(rmeta, model.batch(reqs)):
        try:
            compare_model(res, out, g, g["settings"], runs)
        except Exception as exc:
            res.internal_errors.append({"what": f"cache stage (model): {type(exc).__name__}: {exc}", "case": g["case"]})

    # (2) the gate called directly with a target that does not exist (unreachable through `main`)
    p0 = projects[0]
    djobs = [(p0, argv_of(p0, permissive, s, "silent", "unused-cache.json", False), str(base / "direct" / f"s{si}")) for si, s in enumerate(SETTINGS)]
    douts = inproc_map(_direct_gate_job, djobs)
    dgroup = {"state": "absent", "refresh": False, "case": {"program": progs[0][0], "layout": progs[0][1], "analysis_cfg": permissive,
                                                             "direct_call": "target_cache_file_is_up_to_date(<missing target>, <cache>)"}}
    try:
        for s, r in zip(SETTINGS, douts):
            if cov is not None:
                cov.note(r["events"])
                if s["warn"] == "all":
                    rendered_at_all |= _rendered_sites(cov, r)
        judge_group(res, differing_flags, dgroup, SETTINGS, douts, "in-process:direct-call")
    except Exception as exc:
        res.internal_errors.append({"what": f"cache stage (direct call): {type(exc).__name__}: {exc}"})

    # (3) coverage: every diagnostic call site of the cache code was rendered at -w all
    if cov is not None:
        want = [sid for sid, row in cov.cls.items()
                if row["class"] == "cache" or sid.startswith("rattr/__main__.py::write_cache_file::")]
        missing = sorted(s for s in want if s not in rendered_at_all)
        res.extra["cache_stage"] = {"groups": len(groups), "runs_in_process": len(jobs) + len(djobs), "cache_sites": sorted(want),
                                    "cache_sites_rendered_at_w_all": sorted(s for s in want if s in rendered_at_all)}
        for sid in missing:
            res.disagreements.append({"fields": ["cache-site-never-rendered"], "site": sid,
                                      "what": "a diagnostic call site of the cache code that no staged cache state renders at -w all"})

    # (4) the real CLI: program 0, the main states, one setting per warning level
    cli_groups, futures = [], []
    for k, name in enumerate(CLI_STATES):
        cand = [g for g in groups if g["pi"] == 0 and g["state"] == name and not g["refresh"]]
        if not cand or (quick and name.startswith(("malformed", "absent-")) and (k + seed) % 2):
            continue
        g = dict(cand[0])
        g["settings"] = few(k + seed + 1)
        gi = len(cli_groups)
        fs = []
        for si, s in enumerate(g["settings"]):
            jd = base / "cli" / f"g{gi}" / f"s{si}"
            carg = cache_arg(cache_path_of(jd, g["kind"]), g["project"].cwd, g["spelling"])
            fs.append(submit_cli(_cli_cache_job, g["project"], argv_of(g["project"], g["a"], s, g["output"], carg, False), str(jd),
                                 g["kind"], g["data"], f"g{gi}/s{si}"))
        cli_groups.append(g)
        futures.append(fs)

    def finish():
        for g, fs in zip(cli_groups, futures):
            try:
                runs = [f.result() for f in fs]
                judge_group(res, differing_flags, g, g["settings"], runs, "cli")
                # the in-process capture stands for the real process: same exit / stdout / cache path at the same setting
                ref = {skey(s): r for s, r in zip(groups_by_key[(g["pi"], g["state"])]["settings"], per_by_key[(g["pi"], g["state"])])}
                for s, r in zip(g["settings"], runs):
                    ip = ref.get(skey(s))
                    if ip is None or r["crash"] or ip["crash"]:
                        continue
                    got = (r["exit"], r["stdout"], r["after"][0])
                    exp = (ip["exit"], ip["stdout"], ip["after"][0])
                    if got != exp:
                        res.internal_errors.append({"what": "cache stage: the CLI run and the in-process run differ", "case": g["case"],
                                                    "setting": skey(s), "cli": [got[0], common.digest(got[1]), got[2]],
                                                    "in_process": [exp[0], common.digest(exp[1]), exp[2]]})
            except Exception as exc:
                res.internal_errors.append({"what": f"cache stage (cli): {type(exc).__name__}: {exc}", "case": g["case"]})

    groups_by_key = {(g["pi"], g["state"]): g for g in groups if not g["refresh"]}
    per_by_key = {(g["pi"], g["state"]): runs for g, runs in zip(groups, per) if not g["refresh"]}
    return finish


def _dry_job(job):
    project, argv = job
    r = dc.run_inprocess(project, argv)
    return {"events": r["events"], "buckets": r["buckets"], "crash": r["crash"], "exit": r["exit"]}


def _rendered_sites(cov, r):
    """Site ids of the events of run `r` whose line was really handed to the renderer."""
    out = set()
    for p in r["printed"]:
        if p["event"] is None:
            continue
        site = r["events"][p["event"]].get("site")
        if site is None:
            continue
        sid = cov.index.get((site[0], site[1]))
        if sid is not None:
            out.add(sid)
    return out


def replay_case(case, base):
    """Re-run a recorded cache case through the real CLI under the 16 settings (state re-staged each time)."""
    prog, a = case["program"], case["analysis_cfg"]
    project = dc.Project(Path(base) / "p", prog, layout=case.get("layout", "deep"))
    name = case["cache_state"]
    gate, kind, _ = STATES[name]
    data = None
    if kind == "bytes":
        fresh = None
        jd = Path(base) / "prime"
        r = _cli_cache_job(project, argv_of(project, dict(strict=False, threshold=0), dict(warn="none", H=False, T=False), "silent",
                                            str(cache_path_of(jd, "absent")), False), str(jd), "absent", None, "prime")
        if r["after"][0] == "file" and r["exit"] == 0:
            fresh = r["after"][1]
        data = state_bytes(name, fresh)
    print("TARGET:\n" + project.target_path.read_text())
    print(f"cache state: {name} (gate class {gate}); first bytes: {None if data is None else data[:80]!r}; -r: {case.get('refresh')}")
    for si, s in enumerate(SETTINGS):
        jd = Path(base) / "runs" / f"s{si}"
        carg = cache_arg(cache_path_of(jd, kind), project.cwd, case.get("cache_spelling", "abs"))
        argv = argv_of(project, a, s, case.get("output", "results"), carg, bool(case.get("refresh")))
        r = _cli_cache_job(project, argv, str(jd), kind, data, f"s{si}")
        print(skey(s), ("TRACEBACK " + r["crash"][1] + " | " + r["crash"][2]) if r["crash"] else "", "exit", r["exit"], "stdout", common.digest(r["stdout"]),
              "cache before/after:", r["before"][0], "->", r["after"][0], None if r["after"][1] is None else common.digest(r["after"][1].hex()),
              "stderr", [f"{l['level']}:{l['msg'][:50]}" for l in r["lines"]])
    return 0

"""Generator of whole modules for the root-context / file-analyser stages: every module-level
statement kind `RootContextBuilder` handles (and some it ignores), imports of every form pointing at
the local package of `filelib.LOCAL_PACKAGE`, classes of every shape `ClassAnalyser` distinguishes.

Sources are text; every module is parsed by `ast.parse` (what rattr does) before it is used.
"""
from __future__ import annotations

import ast
import random

from props.bodygen import BodyGen

HEADER = '''import collections
import os
from collections import defaultdict, namedtuple
from rattr.analyser.annotations import rattr_ignore, rattr_results

class Cls:
    def __init__(self, a, b=0, *rest, k=None):
        self.x = a
        self.y = b.q

class Bare:
    pass

class WithStatic:
    @staticmethod
    def sm(v):
        return v.sm_attr

def helper(z, w=0):
    return z.secret

lam = lambda q: q.in_lam
NT = namedtuple("NT", ["u", "v"])
glob = 1
other_glob = [1, 2]
'''

EXCLUDE_PATTERNS = ["excl_.*", "Hidden"]

TARGETS = ["target.py"] * 5 + ["lp/mod_t.py"] * 3 + ["lp/deep/mod_d.py", "lp2/__init__.py", "nspkg/mod_n.py"]


def ind(lines, n=1):
    return ["    " * n + l for l in lines]


class FileGen:
    def __init__(self, rng: random.Random, target: str, hostile=0.03):
        self.r = rng
        self.target_rel = target
        self.in_pkg = "/" in target
        self.hostile = hostile
        self.g = BodyGen(rng, hostile=0.01, max_depth=2)
        self.n = 0
        self.defined = ["glob", "other_glob", "helper", "lam"]

    def fresh(self, p):
        self.n += 1
        return f"{p}{self.n}"

    def small_expr(self):
        self.g.locals = []
        self.g.params = list(self.defined[-3:]) or ["glob"]
        return self.g.expr(1)

    def atom(self):
        self.g.locals = []
        self.g.params = list(self.defined[-3:]) or ["glob"]
        return self.g.atom()

    # ------------------------------------------------------------ imports
    def import_stmt(self):
        r = self.r
        forms = [
            "import solo", "import lp", "import lp.sub", "import lp.sub as lsub", "import lp.deep.leaf", "import os.path",
            "import solo, lp.sub", "import solo as so, os", "import nspkg.inner", "import nspkg.inner as nsi",
            "from lp import alpha", "from lp import alpha as al, Beta", "from lp.sub import f, g as gg",
            "from lp import sub", "from lp import nothing_there", "from solo import *", "from lp import *",
            "from os import path as ospath", "from os.path import join", "from collections import *",
            "from lp.deep import leaf as lf", "import math", "from math import pi", "from nspkg import inner",
            "from nspkg.inner import in_ns",
        ]
        bad = ["import no_such_module_xyz", "from no_such_pkg_xyz import a", "from no_such_pkg_xyz import *",
               "from . import sub", "from .sub import f", "from .nope import *", "import lp.nope.deeper",
               "from lp.sub import *", "from lp.deep.leaf import *"]
        if self.in_pkg:
            forms += ["from . import sub", "from .sub import f as rel_f", "from .sub import *",
                      "from .deep import leaf", "from .deep.leaf import leaf_fn", "from .. import solo", "from ..solo import solo_fn",
                      "from . import missing_rel", "from .sub import f, g"]
            bad += ["from . import *", "from .missing import thing", "from ... import way_up", "from .deep.leaf import *"]
        if r.random() < self.hostile:
            forms = bad
        return [r.choice(forms)]

    # ------------------------------------------------------------ defs
    def decorators(self, for_class=False):
        r = self.r
        k = r.random()
        if k < 0.55:
            return []
        if k < 0.65:
            return ["@rattr_ignore"]
        if k < 0.7:
            return ["@ann.rattr_ignore()"]
        if k < 0.82:
            return [r.choice([
                "@rattr_results(gets={'a.x', 'b'}, sets={'c.y'}, calls=[('helper()', (['a'], {'w': 'b'}))])",
                "@rattr_results(gets={'q'})", "@rattr_results()", "@rattr_results(dels={'d.z'}, calls=[('nowhere', ([], {}))])",
                "@rattr_results(calls=[('lam', (['x'], {})), ('Cls', (['x', 'y'], {}))])",
            ])]
        if k < 0.9:
            return [r.choice(["@some_deco", "@helper(1)", "@os.path.join", "@collections.abc.thing(2, k=3)"])]
        if k < 0.93:
            return ["@some_deco", "@rattr_ignore"]
        if r.random() < self.hostile * 4:
            return [r.choice(["@rattr_results(gets=['a'])", "@rattr_results(1)", "@rattr_results(gets={x})",
                              "@rattr_results(bogus={'a'})", "@(a or b)", "@rattr_results(gets={'a'})\n@rattr_results(sets={'b'})",
                              "@d[0]"])]
        return []

    def function(self, name=None, depth=0):
        r = self.r
        name = name or r.choice([self.fresh("fn"), self.fresh("fn"), self.fresh("excl_fn"), "helper", "dup_fn"])
        src = self.g.function(name, is_async=None if r.random() < 0.85 else True)
        try:
            ast.parse(src)
        except SyntaxError:
            src = f"def {name}(a, b):\n    return a.{self.fresh('a')}\n"
        self.defined.append(name)
        return self.decorators() + src.rstrip("\n").split("\n")

    def method(self, name, params, static=False, is_async=False):
        g = self.g
        g.locals = []
        g.params = [p.strip("*").split("=")[0] for p in params if p not in ("/", "*")]
        body = []
        for _ in range(self.r.randint(1, 2)):
            body.extend(g.stmt(1))
        src = "\n".join(body)
        if "await " in src or "async " in src or "yield" in src:
            body = [f"return {g.params[0]}.{self.fresh('m')}"]
        hdr = f"{'async ' if is_async else ''}def {name}({', '.join(params)}):"
        out = (["@staticmethod"] if static else []) + [hdr] + ind(body)
        try:
            ast.parse("\n".join(out))
        except SyntaxError:
            out = (["@staticmethod"] if static else []) + [hdr, f"    return {g.params[0]}.{self.fresh('m')}"]
        return out

    def class_attr_stmt(self, d=0):
        r = self.r
        a = self.fresh("ca")
        kinds = ["assign"] * 4 + ["ann", "annonly", "aug", "tuple", "walrus", "attr", "expr", "pass", "doc", "chain", "starred"]
        if d == 0:
            kinds += ["if", "for", "try", "with"]
        k = r.choice(kinds)
        if k == "assign":
            return [f"{a} = {self.atom()}"]
        if k == "ann":
            return [f"{a}: int = {self.atom()}"]
        if k == "annonly":
            return [f"{a}: {r.choice(['int', 'str', 'list[int]'])}"]
        if k == "aug":
            return [f"{a} = 0", f"{a} += {self.atom()}"]
        if k == "tuple":
            return [f"{a}, ({self.fresh('ca')}, {self.fresh('ca')}) = {self.atom()}"]
        if k == "walrus":
            return [r.choice([f"{a} = ({self.fresh('cw')} := {self.atom()})", f"{a} = [{self.fresh('cw')} := 1, 2]",
                              f"print({self.fresh('cw')} := {self.atom()})", f"{a} = lambda: ({self.fresh('cw')} := 1)"])]
        if k == "attr":
            return [f"{r.choice(['glob', 'other_glob'])}.{self.fresh('s')} = {self.atom()}", f"other_glob[0] = {self.atom()}"]
        if k == "expr":
            return [self.small_expr()]
        if k == "pass":
            return ["pass"]
        if k == "doc":
            return ["'doc'"]
        if k == "chain":
            return [f"{a} = {self.fresh('ca')} = {self.atom()}"]
        if k == "starred":
            return [f"{a}, *{self.fresh('ca')} = other_glob"]
        if k == "if":
            return [f"if {self.atom()}:"] + ind(self.class_attr_stmt(1)) + ["else:"] + ind(self.class_attr_stmt(1))
        if k == "for":
            return [f"for {self.fresh('ci')} in other_glob:"] + ind(self.class_attr_stmt(1))
        if k == "try":
            return ["try:"] + ind(self.class_attr_stmt(1)) + ["except Exception:"] + ind(self.class_attr_stmt(1)) + ["finally:"] + ind(self.class_attr_stmt(1))
        if k == "with":
            return [f"with helper(1) as {self.fresh('cm')}:"] + ind(self.class_attr_stmt(1))
        raise AssertionError(k)

    def klass(self):
        r = self.r
        name = r.choice([self.fresh("K"), self.fresh("K"), self.fresh("K"), "Hidden", "DupK", "Cls"])
        if r.random() < self.hostile:
            name = "helper"       # def / class name clash
        bases = r.choice([[], [], [], ["Bare"], ["Enum"], ["enum.Enum"], ["NamedTuple"], ["typing.NamedTuple"],
                          ["Enum", "NamedTuple"], ["object", "my.Enum"], ["IntEnum"], ["collections.abc.Sized"],
                          ["helper(1)"], ["Base[int]"], ["NotEnum"], ["enum.Enum", "typing.NamedTuple"]])
        body = []
        parts = []
        for _ in range(r.randint(0, 4)):
            parts.append(("attr", None))
        shape = r.random()
        if shape < 0.55:
            parts.append(("init", False))
        if shape > 0.93:
            parts.append(("init", False))
            parts.append(("init", False))
        if r.random() < self.hostile:
            parts.append(("init", True))
        for _ in range(r.choice([0, 0, 1, 1, 2])):
            parts.append(("static", None))
        for _ in range(r.choice([0, 0, 1])):
            parts.append(("method", None))
        if r.random() < 0.1:
            parts.append(("sm_attr_clash", None))
        r.shuffle(parts)
        for kind, x in parts:
            if kind == "attr":
                body += self.class_attr_stmt()
            elif kind == "init":
                body += self.method("__init__", r.choice([["self", "a", "b=0"], ["self"], ["self", "a", "/", "b", "*", "k"],
                                                           ["self", "*args", "**kw"]]), is_async=bool(x))
            elif kind == "static":
                mname = r.choice([self.fresh("sm"), "sm", "sm"])
                deco = r.random()
                m = self.method(mname, r.choice([["v", "w"], ["v"], ["v", "*", "k=None"]]), static=True,
                                is_async=r.random() < 0.1)
                if deco < 0.1:
                    m = ["@rattr_ignore"] + m
                elif deco < 0.2:
                    m = m[:1] + ["@some_deco"] + m[1:]
                body += m
            elif kind == "method":
                body += self.method(self.fresh("meth"), ["self", "o"])
            elif kind == "sm_attr_clash":
                body += ["sm = 1"]
        if not body:
            body = ["pass"]
        self.defined.append(name)
        hdr = f"class {name}({', '.join(bases)}):" if bases else f"class {name}:"
        return self.decorators(for_class=True) + [hdr] + ind(body)

    # ------------------------------------------------------------ assignments & co
    def target(self):
        r = self.r
        k = r.random()
        if k < 0.5:
            n = self.fresh("mv")
            self.defined.append(n)
            return n
        if k < 0.65:
            return f"{r.choice(['glob', 'other_glob', 'lam'])}.{self.fresh('s')}"
        if k < 0.75:
            return f"other_glob[{self.atom()}]"
        if k < 0.85:
            return f"({self.fresh('mv')}, {self.fresh('mv')})"
        if k < 0.92:
            return f"[{self.fresh('mv')}, *{self.fresh('mv')}]"
        if r.random() < self.hostile * 5:
            return f"({self.atom()} + 1).{self.fresh('s')}"
        return f"glob.{self.fresh('s')}.{self.fresh('s')}"

    def assignment(self):
        r = self.r
        t = self.target()
        k = r.choice(["plain"] * 4 + ["multi", "ann", "annonly", "aug", "lambda", "lambda", "lambda_attr",
                      "nt", "nt", "nt_str", "nt_attr", "nt_bad", "walrus", "walrus_lambda",
                      "walrus_tuple", "walrus_nested", "walrus_lambda_rebind", "lambda_existing", "cls_inst", "aug_lambda",
                      "ann_lambda", "redefine"])
        if r.random() < self.hostile:
            k = r.choice(["lambda_multi", "lambda_tuple", "nt_multi", "nt_tuple", "walrus_lambda_tupletarget", "walrus_bad"])
        E = self.small_expr
        if k == "plain":
            return [f"{t} = {E()}"]
        if k == "multi":
            return [f"{t} = {self.target()} = {E()}"]
        if k == "ann":
            return [f"{self.fresh('mv')}: {r.choice(['int', 'Cls', 'list[str]'])} = {E()}"]
        if k == "annonly":
            return [f"{self.fresh('mv')}: int"]
        if k == "aug":
            return [f"{r.choice(['glob', 'other_glob[0]', 'glob.' + self.fresh('s'), self.fresh('mv')])} += {E()}"]
        if k == "lambda":
            n = self.fresh("lm")
            self.defined.append(n)
            return [f"{n} = lambda {r.choice(['p', 'p, q=1', '*p', 'p, /, q, *, k', ''])}: {self._lam_body()}"]
        if k == "lambda_attr":
            return [f"glob.{self.fresh('lf')} = lambda p: p.{self.fresh('a')}"]
        if k == "lambda_multi":
            return [f"{self.fresh('lm')} = {self.fresh('lm')} = lambda p: p.{self.fresh('a')}"]
        if k == "lambda_tuple":
            return [r.choice([f"{self.fresh('lm')}, {self.fresh('lm')} = lambda: 1, lambda: 2",
                              f"{self.fresh('lm')} = [lambda: 1, 2]", f"{self.fresh('lm')} = (1, lambda p: p.x)"])]
        if k == "lambda_existing":
            return [f"{r.choice(['helper', 'glob', 'Cls', 'lam', 'len'])} = lambda p: p.{self.fresh('a')}"]
        if k == "aug_lambda":
            return [f"{self.fresh('lm')} += lambda p: p.{self.fresh('a')}"]
        if k == "ann_lambda":
            return [f"{self.fresh('lm')}: object = lambda p: p.{self.fresh('a')}"]
        if k == "nt":
            n = self.fresh("P")
            self.defined.append(n)
            return [f"{n} = namedtuple('{n}', {r.choice([repr(['x', 'y']), '[]', repr(['only'])])})"]
        if k == "nt_str":
            return [f"{self.fresh('P')} = namedtuple('P', {r.choice([repr('x y'), repr(''), repr('a b c'), repr('1x'), repr('x  y')])})"]
        if k == "nt_attr":
            return [f"{self.fresh('P')} = collections.namedtuple('P', ['m'])", f"glob.{self.fresh('P')} = namedtuple('Q', 'u v')"]
        if k == "nt_bad":
            return [r.choice([f"{self.fresh('P')} = namedtuple('P', ['x'], rename=True, defaults=None)",
                              f"{self.fresh('P')} = namedtuple('P')", f"{self.fresh('P')} = namedtuple('P', ['x'], 3)",
                              f"{self.fresh('P')} = namedtuple('P', fields)", f"{self.fresh('P')} = namedtuple('P', ['x', 1])",
                              f"{self.fresh('P')} = namedtuple('P', ('x', 'y'))", f"{self.fresh('P')} = namedtuple('P', 5)",
                              f"{self.fresh('P')} = helper.namedtuple('P', ['x'])", f"{self.fresh('P')} = not_a_namedtuple('P', ['x'])"])]
        if k == "nt_multi":
            return [f"{self.fresh('P')} = {self.fresh('P')} = namedtuple('P', ['x'])"]
        if k == "nt_tuple":
            return [r.choice([f"{self.fresh('P')}, {self.fresh('P')} = namedtuple('A', 'x'), namedtuple('B', 'y')",
                              f"{self.fresh('P')} = [namedtuple('A', 'x'), 1]"])]
        if k == "walrus":
            return [f"{t} = ({self.fresh('wv')} := {E()})"]
        if k == "walrus_lambda":
            return [f"{self.fresh('wl')} = ({self.fresh('wi')} := lambda p: p.{self.fresh('a')})"]
        if k == "walrus_lambda_rebind":
            return [f"{self.fresh('wl')} = ({r.choice(['helper', 'glob', 'lam'])} := lambda p: p.{self.fresh('a')})",
                    f"{r.choice(['helper', 'Cls'])} = ({self.fresh('wi')} := lambda p: p.{self.fresh('a')})"]
        if k == "walrus_lambda_tupletarget":
            return [f"{self.fresh('wl')}, {self.fresh('wl')} = ({self.fresh('wi')} := lambda p: p.{self.fresh('a')})"]
        if k == "walrus_tuple":
            return [r.choice([f"{t} = ({self.fresh('wv')} := 1, {self.fresh('wv')} := {E()})",
                              f"{t} = [({self.fresh('wv')} := lambda p: p.x), 2]",
                              f"{t} = (({self.fresh('wv')} := 1), ({self.fresh('wv')} := ({self.fresh('wv')} := 2)))"])]
        if k == "walrus_nested":
            return [r.choice([f"{self.fresh('wl')} = ({self.fresh('wi')} := ({self.fresh('wj')} := lambda p: p.{self.fresh('a')}))",
                              f"{self.fresh('wl')} = ({self.fresh('wi')} := ({self.fresh('wj')} := 5))",
                              f"{self.fresh('wl')} = ({self.fresh('wi')} := namedtuple('W', 'x y'))"])]
        if k == "walrus_bad":
            return [r.choice([f"{self.fresh('wl')} = ({self.fresh('wi')} := (lambda: 1, lambda: 2))",
                              f"{self.fresh('wl')} = [({self.fresh('wv')} := lambda p: p.x), ({self.fresh('wv')} := lambda p: p.y)]",
                              f"{self.fresh('wl')} = ({self.fresh('wi')} := [namedtuple('W', 'x y'), 1])"])]
        if k == "cls_inst":
            return [f"{self.fresh('inst')} = {r.choice(['Cls', 'Bare', 'NT'])}({E()})"]
        if k == "redefine":
            return [f"{r.choice(['glob', 'helper', 'print', '__name__', 'NT'])} = {E()}"]
        raise AssertionError(k)

    def _lam_body(self):
        self.g.locals = []
        self.g.params = ["p"]
        return self.g.expr(1)

    def delete(self):
        r = self.r
        return [r.choice([f"del {r.choice(self.defined)}", "del glob.attr", "del other_glob[0]",
                          f"del {r.choice(self.defined)}, {r.choice(self.defined)}", "del (glob, other_glob)", "del undefined_name",
                          "del print", "del other_glob[(dw := 1)]"] + (["del (glob + 1).x"] if r.random() < self.hostile * 5 else []))]

    def expr_stmt(self):
        r = self.r
        k = r.random()
        if k < 0.25:
            return [r.choice(["'''doc'''", "1", "...", "None", "b'x'"])]
        if k < 0.55:
            return [f"{r.choice(['print', 'helper', 'glob.m', 'undefined_fn', 'Cls'])}({self.small_expr()})"]
        if k < 0.62:
            return [r.choice(["glob", "glob.attr", "glob + 1", "[1, 2]", "not glob", "other_glob[0]", "f'{glob}'", "glob if glob else 1"])]
        if k < 0.7:
            return [r.choice([f"({self.fresh('ew')} := {self.atom()})", f"print({self.fresh('ew')} := 3)",
                              f"[{self.fresh('ew')} := 1, 2]", f"({self.fresh('ew')} := namedtuple('E', 'a b'))"])]
        if k < 0.75:
            return [f"({self.fresh('ew')} := lambda p: p.{self.fresh('a')})"]
        if k < 0.75 + self.hostile * 2:
            return [r.choice(["lambda: 1", "print(lambda: 1)", "[x for x in map(lambda q: q, other_glob)]", "helper(key=lambda: 0)"])]
        return [f"helper({self.atom()})"]

    def simple(self):
        r = self.r
        k = r.choice(["import"] * 3 + ["assign"] * 6 + ["del", "expr", "expr", "def", "def", "class", "class", "other"])
        if k == "import":
            return self.import_stmt()
        if k == "assign":
            return self.assignment()
        if k == "del":
            return self.delete()
        if k == "expr":
            return self.expr_stmt()
        if k == "def":
            return self.function()
        if k == "class":
            return self.klass()
        if k == "other":
            return [r.choice(["pass", "assert glob, 'msg'", "global glob", "raise SystemExit(glob)", "type Alias = int"])]
        raise AssertionError(k)

    def block(self, d, n=None):
        out = []
        for _ in range(n or self.r.randint(1, 2)):
            out += self.stmt(d)
        return out

    def stmt(self, d=0):
        r = self.r
        if d >= 2 or r.random() < 0.72:
            return self.simple()
        k = r.choice(["if", "if", "for", "while", "try", "try", "with", "match", "trystar", "asyncfor", "asyncwith", "if_walrus"])
        B = lambda n=None: ind(self.block(d + 1, n))  # noqa: E731
        if k == "if":
            return [f"if {self.atom()}:"] + B() + [f"elif {self.atom()}:"] + B(1) + ["else:"] + B(1)
        if k == "if_walrus":
            return [r.choice([f"if ({self.fresh('iw')} := {self.atom()}):", f"if ({self.fresh('iw')} := lambda p: p.x):",
                              f"while ({self.fresh('iw')} := helper(1)):"])] + B(1)
        if k == "for":
            return [f"for {self.target()} in {self.atom()}:"] + B() + (["else:"] + B(1) if r.random() < 0.4 else [])
        if k == "while":
            return [f"while {self.atom()}:"] + B() + (["else:"] + B(1) if r.random() < 0.3 else [])
        if k == "try":
            return (["try:"] + B() + [f"except {r.choice(['KeyError', '(A, B)', 'glob.Err'])} as {self.fresh('exc')}:"] + B(1)
                    + ["except Exception:"] + B(1) + ["else:"] + B(1) + ["finally:"] + B(1))
        if k == "trystar":
            return ["try:"] + B(1) + ["except* ValueError:"] + B(1)
        if k == "with":
            return [r.choice([f"with helper(1) as {self.target()}:", "with helper(2):",
                              f"with helper(1) as {self.fresh('wa')}, helper(2) as {self.fresh('wb')}:",
                              f"with ({self.fresh('ww')} := helper(1)):"])] + B()
        if k == "asyncfor":
            return [f"async for {self.fresh('ai')} in {self.atom()}:"] + B(1)
        if k == "asyncwith":
            return [f"async with helper(1) as {self.fresh('aw')}:"] + B(1)
        if k == "match":
            return ([f"match {self.atom()}:"] + ind([f"case [{self.fresh('cap')}, *{self.fresh('cap')}]:"] + B(1)
                    + [f"case {{'k': {self.fresh('cap')}}} if {self.atom()}:"] + B(1) + ["case _:"] + B(1)))
        raise AssertionError(k)

    def module(self, n_stmts):
        lines = HEADER.split("\n")
        if self.r.random() < 0.5:
            lines = ["import enum, typing", "from enum import Enum, IntEnum", "from typing import NamedTuple",
                     "import rattr.analyser.annotations as ann"] + lines
        for _ in range(n_stmts):
            for _try in range(10):
                st = self.stmt(0)
                try:
                    ast.parse("\n".join(st))
                except SyntaxError:
                    continue
                lines += st
                break
        return "\n".join(lines) + "\n"


def gen_file_module(rng: random.Random, hostile=0.03, n_stmts=None):
    """(source, target path relative to the project root)."""
    target = rng.choice(TARGETS)
    fg = FileGen(rng, target, hostile=hostile)
    return fg.module(n_stmts or rng.randint(6, 16)), target


CURATED = [
    ("target.py", "import lp.sub\nimport lp.sub as s\ndef f(a):\n    return lp.sub.g(a.x) + s.f(a.y) + lp.alpha\n"),
    ("target.py", "from lp.sub import *\nfrom lp.sub import *\nx = 1\n"),
    ("target.py", "def f(a):\n    return a.x\ndef f(b, c):\n    return b.y + c.z\n"),
    ("target.py", "class C:\n    a = 1\n    b, c = 2, 3\n    def __init__(self, p):\n        self.p = p.q\n    @staticmethod\n    def sm(v):\n        return C.a + v.w\ndef use(o):\n    return C.sm(o) + C(o).p\n"),
    ("target.py", "from enum import Enum\nclass E(Enum):\n    RED = 1\n    GREEN = 2\nclass N(NamedTuple):\n    x: int\n    y: int = 0\ndef use(a):\n    return E(a.v), N(a.x, a.y)\n"),
    ("target.py", "class B(Enum, NamedTuple):\n    k = 1\n"),
    ("target.py", "x = (y := lambda a: a.b)\nz = (w := 5)\ndef g(q):\n    return x(q) + y(q)\n"),
    ("target.py", "from collections import namedtuple\nP = namedtuple('P', ['a', 'b'])\nQ = namedtuple('Q', 'c d')\nR = namedtuple('R')\ndef mk(o):\n    return P(o.a, o.b), Q(o.c, o.d), R()\n"),
    ("target.py", "try:\n    import solo\n    def a1(x):\n        return x.a\nexcept ImportError:\n    def a2(x):\n        return x.b\nelse:\n    def a3(x):\n        return x.c\nfinally:\n    def a4(x):\n        return x.d\n"),
    ("target.py", "@rattr_ignore\ndef ig(a):\n    return a.x\n@rattr_ignore\nclass IgC:\n    def __init__(self, a):\n        self.a = a.b\n    @staticmethod\n    def sm(v):\n        return v.w\ndef keep(a):\n    return ig(a) + IgC.sm(a)\n"),
    ("target.py", "g = 1\ndel g\ndef f(a):\n    return g.x + a.y\n"),
    ("lp/mod_t.py", "from . import sub\nfrom .sub import f as ff, g\nfrom .deep.leaf import *\nfrom .. import solo\ndef use(a):\n    return sub.f(a.x) + ff(a.y) + g(a.z) + solo.solo_fn(a)\n"),
    ("lp2/__init__.py", "from lp.sub import *\nfrom . import *\nx = 1\n"),
    ("target.py", "class K:\n    sm = 1\n    @staticmethod\n    def sm(v):\n        return v.a\n    @staticmethod\n    async def asm(v):\n        return v.b\ndef use(x):\n    return K.sm(x)\n"),
    ("target.py", "def helper(z):\n    return z.a\nclass helper:\n    def __init__(self, q):\n        self.q = q\n"),
    ("target.py", "class M:\n    def __init__(self, a):\n        self.a = a.x\n    def __init__(self, a, b):\n        self.b = b.y\ndef use(o):\n    return M(o, o)\n"),
    ("target.py", "@rattr_results(gets={'a.x'}, calls=[('helper', (['a'], {}))])\nclass RC:\n    def __init__(self, a):\n        self.z = a.never\ndef helper(q):\n    return q.h\n"),
    ("target.py", "if (t := lambda p: p.x):\n    pass\n"),
    ("target.py", "print(lambda: 1)\n"),
]


# ====================================================================== whole-pipeline modules
# FileGen + a call graph among the module-level callables (the shapes `resultslib.ProgGen` produces,
# as SOURCE TEXT, over every kind of callable the file stage registers): plain / async functions,
# named lambdas, classes with `__init__`, static methods, namedtuples, enums, `@rattr_results`
# declared functions, ignored and excluded functions; positional / keyword / starred / compound
# arguments; chains, diamonds, the same callee twice, recursion; definition order shuffled.

ARG_SHAPES = ["param", "param", "param", "param", "attr", "sub", "call", "const", "tuple", "star"]
UNIT_KINDS = ["def"] * 6 + ["lambda", "init", "init", "static", "nt", "enum", "declared", "ignored", "excluded", "async"]


def render_sig(sig, lead=()):
    parts = list(lead)
    for p in sig["posonly"]:
        parts.append(p["name"] + ("=0" if p["default"] else ""))
    if sig["posonly"]:
        parts.append("/")
    for p in sig["args"]:
        parts.append(p["name"] + ("=0" if p["default"] else ""))
    if sig["vararg"]:
        parts.append("*" + sig["vararg"])
    elif sig["kwonly"]:
        parts.append("*")
    for p in sig["kwonly"]:
        parts.append(p["name"] + ("=0" if p["default"] else ""))
    if sig["kwarg"]:
        parts.append("**" + sig["kwarg"])
    return ", ".join(parts)


class PipeGen(FileGen):
    def __init__(self, rng, target, hostile=0.02, class_targets=False):
        super().__init__(rng, target, hostile=hostile)
        # class_targets: calls to a class unit are (also) written as instances STORED in a name / attribute / item
        # (`x = K(..)`, `p.inst = K(..)`, `p.rows[0] = K(..)`, annotated / augmented / walrus forms): visit_ClassAssign
        self.class_targets = class_targets
        self.shared_names = rng.random() < 0.3
        self.clean = rng.random() < 0.25       # bare arguments, a forest: the fragment of the tree theorems
        self.units = []

    def import_stmt(self):
        for _ in range(30):
            st = super().import_stmt()
            if "*" not in st[0]:
                return st
        return ["import solo"]

    # ------------------------------------------------------------ signatures
    def signature(self, i, kind):
        r = self.r
        n = r.randint(1, 3)
        names = [f"p{i}{c}" for c in "abc"[:n]]
        if self.shared_names:
            names = r.sample(["left", "right", "item", "other"], n)
        kinds = [r.choice(["po", "ar", "ar", "ar", "ko"]) for _ in names]
        kinds.sort(key={"po": 0, "ar": 1, "ko": 2}.get)
        po = [a for a, k in zip(names, kinds) if k == "po"]
        ar = [a for a, k in zip(names, kinds) if k == "ar"]
        ko = [a for a, k in zip(names, kinds) if k == "ko"]
        pos = po + ar
        ndef = r.choice([0, 0, 0, 1]) if pos else 0
        dpos = [j >= len(pos) - ndef for j in range(len(pos))]
        sig = {"posonly": [{"name": x, "default": dpos[j]} for j, x in enumerate(po)],
               "args": [{"name": x, "default": dpos[len(po) + j]} for j, x in enumerate(ar)],
               "vararg": (f"va{i}" if r.random() < 0.12 else None),
               "kwonly": [{"name": x, "default": r.random() < 0.4} for x in ko],
               "kwarg": (f"kw{i}" if r.random() < 0.12 else None)}
        if self.clean:
            sig["vararg"] = sig["kwarg"] = None
        if kind == "nt":
            fields = r.choice([["x", "y"], ["only"], ["u", "v", "w"]])
            sig = {"posonly": [], "args": [{"name": x, "default": False} for x in fields], "vararg": None, "kwonly": [], "kwarg": None}
        if kind == "enum":
            sig = {"posonly": [], "args": [{"name": "_id", "default": False}], "vararg": None, "kwonly": [], "kwarg": None}
        return sig

    @staticmethod
    def params_of(sig):
        ps = [p["name"] for k in ("posonly", "args", "kwonly") for p in sig[k]]
        return ps + [x for x in (sig["vararg"], sig["kwarg"]) if x]

    # ------------------------------------------------------------ calls
    def arg_expr(self, caller_params, shape, i):
        r = self.r
        p = r.choice(caller_params) if caller_params else "glob"
        return {"param": p, "attr": f"{p}.n{i}", "sub": f"{p}[0]", "call": f"{p}.mk()", "const": r.choice(["1", "'s'", "None"]),
                "tuple": f"({p}, 1)", "star": f"*{p}"}[shape]

    def call_to(self, caller_params, u):
        r = self.r
        sig, i = u["sig"], u["i"]
        shapes = ["param"] if self.clean else ARG_SHAPES
        nostar = [s for s in shapes if s != "star"]
        parts = []
        pos = sig["posonly"] + sig["args"]
        required = [p for p in pos if not p["default"]]
        k = r.randint(len(required) if self.clean else len(sig["posonly"]), len(pos)) if pos else 0
        if not self.clean and r.random() < 0.08:
            k = r.randint(0, len(pos) + 1)
        for _ in range(k):
            parts.append(self.arg_expr(caller_params, r.choice(nostar), i))
        if sig["vararg"] and r.random() < 0.5 and k >= len(pos):
            parts.append(self.arg_expr(caller_params, r.choice(shapes), i))
        for p in sig["args"][max(0, k - len(sig["posonly"])):]:
            if not p["default"] or r.random() < 0.5:
                parts.append(f"{p['name']}={self.arg_expr(caller_params, r.choice(nostar), i)}")
        for p in sig["kwonly"]:
            if not p["default"] or r.random() < 0.5:
                parts.append(f"{p['name']}={self.arg_expr(caller_params, r.choice(nostar), i)}")
        if sig["kwarg"] and r.random() < 0.5:
            parts.append(f"extra{i}={self.arg_expr(caller_params, 'param', i)}")
        if not self.clean and r.random() < 0.04:
            parts.append(f"bogus{i}={self.arg_expr(caller_params, 'param', i)}")
        if not self.clean and r.random() < 0.04 and sig["args"] and k > len(sig["posonly"]) and not any(x.startswith(sig["args"][0]["name"] + "=") for x in parts):
            parts.append(f"{sig['args'][0]['name']}={self.arg_expr(caller_params, 'param', i)}")      # by position and by name
        return f"{u['call']}({', '.join(parts)})"

    def call_stmt(self, caller_params, u, in_lambda=False):
        r = self.r
        c = self.call_to(caller_params, u)
        if in_lambda:
            return c
        if self.class_targets and u["kind"] == "init" and r.random() < 0.7:
            h = caller_params[0] if caller_params else "glob"
            i = u["i"]
            if self.clean:
                return [r.choice([f"{self.fresh('inst')} = {c}", f"{self.fresh('inst')}: object = {c}", f"({self.fresh('inst')} := {c})"])]
            return [r.choice([f"{self.fresh('inst')} = {c}", f"{h}.inst{i} = {c}", f"{h}.rows{i}[0] = {c}", f"{h}[0] = {c}",
                              f"{h}.a{i}.inst{i} = {c}", f"{h}[0].inst{i} = {c}", f"{h}.inst{i}: object = {c}", f"{h}.inst{i} += {c}",
                              f"({self.fresh('inst')} := {c})", f"{h}.inst{i} = {h}.other{i} = {c}" if r.random() < 0.05 else f"{h}.inst{i} = {c}"])]
        form = r.choice(["expr", "expr", "assign", "return", "attr", "nested"]) if not self.clean else r.choice(["expr", "assign"])
        if form == "expr":
            return [c]
        if form == "assign":
            return [f"{self.fresh('res')} = {c}"]
        if form == "return":
            return [f"if {caller_params[0] if caller_params else 'glob'}:", f"    return {c}"]
        if form == "attr":
            return [f"{c}.after{u['i']}"]
        return [f"print({c})"]

    def noise_call(self, params):
        r = self.r
        p = params[0] if params else "glob"
        return r.choice([
            [f"{p}.meth({p})"], [f"undefined_fn({p})"], [f"print({p}.pr)"], [f"os.path.join({p}.q)"], [f"helper({p})"],
            [f"helper({p}, w={p}.w)"], [f"Cls({p}, {p}.b)"], [f"kept = Cls({p})"], [f"WithStatic.sm({p})"], [f"lam({p})"],
            [f"nt = NT({p}, {p}.v)"], [f"def inner(z):", "    return z.n", f"inner({p})"], [f"getattr({p}, 'ga')"],
            [f"sorted({p}, key=lambda q: q.k)"], [f"Bare()"], [f"collections.OrderedDict({p})"], [f"{p}.a.b.c({p})"],
            [f"lsub.f({p})"], [f"defaultdict(list)"], [f"{p}()"], [f"helper({p})({p})"], [f"glob({p})"],
        ] + ([[f"ghost({p})"]] if r.random() < 0.1 else []))

    # ------------------------------------------------------------ bodies
    def accesses(self, u, stmts=True):
        r = self.r
        i = u["i"]
        out = []
        for p in u["params"]:
            if r.random() < 0.8:
                kinds = ["get", "get", "set", "del", "deep"] if self.clean else ["get", "get", "set", "del", "deep", "subget", "starget", "local"]
                if not stmts:
                    kinds = ["get", "get", "deep", "subget"]
                kind = r.choice(kinds)
                out.append({"get": [f"{p}.g{i}"], "set": [f"{p}.s{i} = 1"], "del": [f"del {p}.d{i}"], "deep": [f"{p}.m{i}.q{i}"],
                            "subget": [f"{p}[0].i{i}"], "starget": [f"print(*{p}.st{i})"],
                            "local": [f"loc{i} = {p}", f"loc{i}.l{i}"]}[kind])
        return out

    def build_units(self):
        r = self.r
        n = r.randint(2, 7)
        us = []
        for i in range(n):
            kind = r.choice(UNIT_KINDS if not self.clean else ["def"] * 5 + ["lambda", "static", "async"])
            sig = self.signature(i, kind)
            name = {"def": f"pf{i}", "async": f"pa{i}", "lambda": f"pl{i}", "init": f"PK{i}", "static": f"PS{i}", "nt": f"PN{i}",
                    "enum": f"PE{i}", "declared": f"pd{i}", "ignored": f"pi{i}", "excluded": f"excl_p{i}"}[kind]
            us.append({"i": i, "kind": kind, "name": name, "call": name + (".sm" if kind == "static" else ""), "sig": sig,
                       "params": self.params_of(sig)})
        edges = {i: [] for i in range(n)}
        for i in range(n):
            for j in range(i + 1, n):
                if r.random() < (0.45 if j == i + 1 else 0.25):
                    edges[i].append(j)
                    if not self.clean and r.random() < 0.15:
                        edges[i].append(j)
        if self.clean:
            seen = set()
            for i in range(n):
                keep = [j for j in edges[i] if j not in seen and not seen.add(j)]
                edges[i] = keep
        elif r.random() < 0.3:
            a, b = r.randrange(n), r.randrange(n)
            edges[max(a, b)].append(min(a, b))
        for u in us:
            u["edges"] = edges[u["i"]]
        self.units = us
        return us

    def unit_source(self, u):
        r = self.r
        k, i = u["kind"], u["i"]
        ps = u["params"]
        callees = [self.units[j] for j in u["edges"]]
        if k == "nt":
            return [f"{u['name']} = namedtuple('{u['name']}', {[p['name'] for p in u['sig']['args']]!r})"]
        if k == "enum":
            return [f"class {u['name']}(Enum):", f"    RED{i} = 1", f"    GREEN{i} = 2"]
        if k == "lambda":
            items = [x[0] for x in self.accesses(u, stmts=False)] + [self.call_to(ps, c) for c in callees]
            body = "(" + ", ".join(items) + ("," if len(items) == 1 else "") + ")" if items else "0"
            return [f"{u['name']} = lambda {render_sig(u['sig'])}: {body}"]
        if k == "declared":
            calls = ", ".join(f"('{c['call']}()', ({[ps[0]] if ps else []!r}, {{}}))" for c in callees)
            return [f"@rattr_results(gets={{'{(ps or ['glob'])[0]}.dx{i}'}}, sets={{'{(ps or ['glob'])[-1]}.dy{i}'}}, calls=[{calls}])",
                    f"def {u['name']}({render_sig(u['sig'])}):", "    pass"]
        body = self.accesses(u)
        for c in callees:
            body.append(self.call_stmt(ps, c))
        if not self.clean:
            for _ in range(r.choice([0, 0, 1, 1, 2])):
                body.append(self.noise_call(ps))
        r.shuffle(body)
        flat = [l for b in body for l in b] or ["pass"]
        if k in ("def", "async", "ignored", "excluded"):
            hdr = f"{'async ' if k == 'async' else ''}def {u['name']}({render_sig(u['sig'])}):"
            return (["@rattr_ignore"] if k == "ignored" else []) + [hdr] + ind(flat)
        if k == "init":
            extra = [f"    attr{i} = 1"] if r.random() < 0.5 else []
            return [f"class {u['name']}:"] + extra + ind([f"def __init__({render_sig(u['sig'], lead=['self'])}):"] + ind(flat))
        if k == "static":
            extra = [f"    attr{i} = 1"] if r.random() < 0.3 else []
            if not self.clean and r.random() < 0.15:
                extra.append("    sm = 1")          # a class attribute of the static method's name is registered first
            return [f"class {u['name']}:"] + extra + ind(["@staticmethod", f"def sm({render_sig(u['sig'])}):"] + ind(flat))
        raise AssertionError(k)

    def pipeline_module(self):
        r = self.r
        lines = ["from enum import Enum", "import lp.sub as lsub", "from ghost_mod import ghost"] + HEADER.split("\n")
        us = list(self.build_units())
        r.shuffle(us)
        chunks = []
        for u in us:
            src = self.unit_source(u)
            try:
                ast.parse("\n".join(src))
            except SyntaxError:
                src = [f"def {u['name']}({render_sig(u['sig'])}):", "    pass"] if u["kind"] in ("def", "async", "ignored", "excluded") else \
                      [f"{u['name']} = 0"]
            chunks.append(src)
        for _ in range(r.choice([0, 0, 1, 2, 4]) if not self.clean else 0):
            for _try in range(10):
                st = self.stmt(0)
                try:
                    ast.parse("\n".join(st))
                except SyntaxError:
                    continue
                chunks.insert(r.randrange(len(chunks) + 1), st)
                break
        for c in chunks:
            lines += c
        return "\n".join(lines) + "\n"


def gen_pipeline_module(rng: random.Random, hostile=0.02, class_targets=False):
    """(source, target path relative to the project root) for the whole-pipeline stage."""
    target = rng.choice(TARGETS)
    return PipeGen(rng, target, hostile=hostile, class_targets=class_targets).pipeline_module(), target


PIPELINE_CURATED = [
    ("target.py", "from ghost_mod import g\nimport ghost_pkg.sub\ndef ok(a):\n    return ghost_pkg.sub.h(a)\ndef f(a):\n    return g(a)\n"),
    ("target.py", "from lp import *\ndef f(a):\n    return a.x\n"),
    ("target.py", "def top(a, b):\n    one(a)\n    two(b)\ndef one(x):\n    leaf(x)\ndef two(x):\n    leaf(x)\ndef leaf(l):\n    l.attr\n"),
    ("target.py", "def top(z):\n    mid(z.y)\ndef mid(p):\n    low(p.q)\ndef low(m):\n    leaf(m)\ndef leaf(l):\n    l.attr = 1\n"),
    ("target.py", "def ev(a):\n    a.e\n    od(a.n)\ndef od(b):\n    b.o\n    ev(b.m)\n"),
    ("target.py", "def f(**kw):\n    kw.y\ndef g():\n    f()\n"),
    ("target.py", "def f(a):\n    a.x\n    f(a)\n"),
    ("target.py", "def a(p):\n    b(p)\ndef b(q):\n    q.bq\n    c(q)\ndef c(r):\n    r.cr = 1\n    del r.cd\n"),
    ("target.py", "def use(o):\n    k = K(o)\n    K(o.z)\n    return K(o.w)\nclass K:\n    def __init__(self, v):\n        self.f = v.in_init\n"),
    ("target.py", "class K:\n    @staticmethod\n    def sm(v, w=0):\n        return v.a + w.b\ndef use(x, y):\n    return K.sm(x, w=y)\n"),
    ("target.py", "from rattr.analyser.annotations import rattr_ignore\n@rattr_ignore\ndef ig(a):\n    return a.x\ndef excl_f(a):\n    return a.y\ndef use(a):\n    def inner(q):\n        return q.z\n    return ig(a) + excl_f(a) + inner(a) + a.m(a)\n"),
    ("target.py", "import os\nimport lp.sub\nfrom lp.sub import f as ff\ndef use(a):\n    return os.path.join(a.p) + lp.sub.g(a.x) + ff(a.y) + nope.thing(a)\n"),
    ("target.py", "def cal(a, /, b, *, k):\n    return a.x + b.y + k.z\ndef use(p, q):\n    cal(p)\n    cal(p, q, q, k=p)\n    cal(p, b=q, zz=p)\n    cal(p, q, b=p, k=q)\n    cal(k=p)\n"),
    ("target.py", "from enum import Enum\nfrom collections import namedtuple\nclass E(Enum):\n    RED = 1\n    GREEN = 2\nP = namedtuple('P', ['x', 'y'])\ndef use(a):\n    e = E(a.v)\n    p = P(a.x, a.y)\n    return e, p\n"),
    ("target.py", "lm = lambda p, q=0: (p.in_lam, helper2(q))\ndef helper2(z):\n    return z.h2\ndef use(a, b):\n    return lm(a, b)\n"),
    ("target.py", "def callee(p):\n    getattr(p[0], 'x')\n    getattr(p, 'b').c\ndef caller(q):\n    callee(q)\n"),
    ("target.py", "def f(a):\n    g(a)\n    g(a.b)\ndef g(x):\n    h(x)\n    x.gx\ndef h(y):\n    y.hy\n"),
    ("target.py", "class helper:\n    def __init__(self, q):\n        self.q = q.cq\ndef helper(z):\n    return z.a\ndef use(a):\n    return helper(a)\n"),
    ("target.py", "class K:\n    sm = 1\n    @staticmethod\n    def sm(v):\n        return v.a\n    @staticmethod\n    def other(w):\n        return w.b\ndef use(x):\n    return K.sm(x) + K.other(x)\n"),
    ("target.py", "def f(a):\n    return a.x\ndef f(b, c):\n    return b.y + c.z\ndef use(p, q):\n    f(p)\n    f(p, q)\n"),
    ("target.py", "def use(o):\n    return early(o)\nclass early:\n    def __init__(self, v, w=0):\n        self.f = v.a\n    def __init__(self, v):\n        self.g = v.b\n"),
    ("target.py", "from rattr.analyser.annotations import rattr_results\n@rattr_results(gets={'a.x'}, calls=[('leaf()', (['a'], {}))])\ndef decl(a):\n    pass\ndef leaf(l):\n    l.deep = 1\ndef use(u):\n    decl(u)\n"),
]


# instances stored in names / attributes / items (run by the stages that pass class_targets=True)
PIPELINE_CURATED_INSTANCES = [
    ("target.py", "class Point:\n    def __init__(self, src):\n        self.x = src.value\n        self.y = src.other\ndef make_local(a):\n    p = Point(a)\n    return p\n"
                  "def make_attr(holder, a):\n    holder.pt = Point(a)\n    return holder\ndef make_item(table, a):\n    table.rows[0] = Point(a)\n"),
    ("target.py", "class K:\n    def __init__(self, v, w=0):\n        self.f = v.a\n        del self.g\n        w.h\ndef use(o, p):\n    o.k: K = K(p)\n    o.j += K(p, w=o)\n    (z := K(o.q))\n    o.a.b[0].c = K(v=p[0])\n"),
    ("target.py", "class K:\n    def __init__(self, v):\n        self.f = v.a\ndef inner(h, q):\n    h.slot = K(q)\ndef outer(hh, qq):\n    inner(hh, qq)\n"),
    ("target.py", "class K:\n    def __init__(self, v):\n        self.f = v.a\ndef two(h, q):\n    h.one = h.two = K(q)\n"),
]

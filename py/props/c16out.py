"""C16, output-mode x target-spelling stage: what is on STDOUT (and in the cache file) must be the
same bytes under all 16 settings of -w / -H / -T for EVERY output mode and for EVERY way the target
can be spelled on the command line.

Why a stage of its own: `Config.get_formatted_path` (the diagnostics' renderer, `Diag.render`) is the
identity on a short relative path — what every example uses. It only changes a path that
  * has more than five parts after being made project-relative (-T: a deep relative target, almost any
    absolute target),
  * is absolute and lies below $HOME but outside the project root (-H),
  * is absolute and lies inside the project root (made project-relative even with both switches off)
(theorems C16_formatted_invisible / _short_agree / _depends_on_T / _depends_on_H / _in_root). A
document field that is (wrongly) passed through the formatter is therefore visible only on those
spellings, and only in the output mode that prints the field: `-o ir` ("target_ir"."filename",
"context"."file", every "location"."file"), `-o cacheable` / the cache file ("filepath", the
"imports" list). So: one program, its target file placed and spelled in every one of these ways (the
followed import sits six components below the root, so its own rendered path is truncated by -T as
well), x every output mode, x the settings.

  spelling            argument                                              file
  rel_short           target.py                                             <root>/target.py
  rel_deep            src/app/core/services/billing/target.py               below the root, 6 parts
  rel_updir           ../proj/src/app/core/services/billing/target.py       the same file, through `..`
  abs_in_root         <root>/src/app/core/services/billing/target.py        absolute, inside the root
  abs_home            $HOME/scratch/target.py                               below $HOME, outside the root
  abs_home_deep       $HOME/src/da/db/dc/dd/target.py                       … and deep
  abs_elsewhere       <scratch>/else/where/x/target.py                      outside $HOME
  abs_elsewhere_short <scratch>/t0/target.py                                … and short (5 parts under /tmp)

Oracle (on real outputs only): per (spelling, output mode) the stdout bytes (for `-o stats` the
deterministic rows), the exit status and the cache file's bytes are identical across the settings;
the first JSON field that differs names the signature. In-process for every setting (all 16 for the
documents of the first program), the real CLI for plain and -H -T of the path-bearing modes (and what it
prints must be, byte for byte, what the in-process run captured). Correspondence (`MainRun.mainOut`, theorem
C16_out_paths): every field that names the target file is the target AS GIVEN (`str(Path(arg))`).
"""
from __future__ import annotations

import json
import re
from pathlib import Path

import common
import diag_common as dc

WARN = dc.WARN
ALL16 = [dict(warn=w, H=h, T=t) for w in WARN for h in (False, True) for t in (False, True)]
# every -H / -T combination at two warning levels each (all four levels occur)
HALF8 = [dict(warn=w, H=h, T=t) for (h, t), ws in zip([(False, False), (False, True), (True, False), (True, True)],
                                                      [("all", "none"), ("local", "all"), ("default", "none"), ("none", "local")])
         for w in ws]
MODES = ("ir", "cacheable", "results", "stats", "silent", "cachefile")
PATH_MODES = ("ir", "cacheable")            # the documents that carry path fields
HT4 = [(False, False), (False, True), (True, False), (True, True)]


def quad(w):
    """the four -H / -T combinations at one warning level"""
    return [dict(warn=w, H=h, T=t) for h, t in HT4]


def settings_of(mode, k, full=True):
    """Settings of the k-th group: every one of the 16 for the path-bearing documents (`full`), the four
    -H / -T combinations at two levels each for `-o results` / `-o stats`, at one level (rotating with k)
    for the rest."""
    if mode in PATH_MODES:
        return ALL16 if full else quad(WARN[k % 4])
    if mode in ("stats", "results"):        # (`-o results` under all 16 settings is what the other stages do)
        return HALF8
    return quad(WARN[k % 4])


DEEP_REL = Path("src") / "app" / "core" / "services" / "billing" / "target.py"


def skey(s):
    return f"-w {s['warn']}{' -H' if s['H'] else ''}{' -T' if s['T'] else ''}"


class SpelledProject:
    """One program; the target file written at five places so that it can be spelled in eight ways.
    Looks like a `dc.Project` to `dc.run_cli` / `dc.run_inprocess` (cwd / home / root); `spelled(name)`
    returns a view with `target_arg` / `target_path` set."""

    layout = "spellings"

    def __init__(self, base: Path, prog, short_dir: Path = None):
        self.base, self.prog = base, prog
        short_dir = base if short_dir is None else short_dir
        self.home = base / "home" / "user"
        self.cwd = self.root = self.home / "work" / "proj"
        pk = self.root / "pkgx" / "la" / "lb" / "lc" / "ld"
        pk.mkdir(parents=True)
        d = self.root / "pkgx"
        (d / "__init__.py").write_text("")
        for part in ("la", "lb", "lc", "ld"):
            d = d / part
            (d / "__init__.py").write_text("")
        target_src, helper_src = dc.render_sources(prog, "pkgx.la.lb.lc.ld.helper")
        self.helper_path = pk / "helper.py"
        self.helper_path.write_text(helper_src)
        (self.root / "pyproject.toml").write_text("[tool.rattr]\n")
        self.files = {
            "root_short": self.root / "target.py",
            "root_deep": self.root / DEEP_REL,
            "home": self.home / "scratch" / "target.py",
            "home_deep": self.home / "src" / "da" / "db" / "dc" / "dd" / "target.py",
            "elsewhere": base / "else" / "where" / "x" / "target.py",
            "elsewhere_short": short_dir / "target.py",
        }
        for p in self.files.values():
            p.parent.mkdir(parents=True, exist_ok=True)
            p.write_text(target_src)
        self.spellings = {
            "rel_short": ("target.py", "root_short"),
            "rel_deep": (str(DEEP_REL), "root_deep"),
            "rel_updir": (str(Path("..") / "proj" / DEEP_REL), "root_deep"),
            "abs_in_root": (str(self.files["root_deep"]), "root_deep"),
            "abs_home": (str(self.files["home"]), "home"),
            "abs_home_deep": (str(self.files["home_deep"]), "home_deep"),
            "abs_elsewhere": (str(self.files["elsewhere"]), "elsewhere"),
            "abs_elsewhere_short": (str(self.files["elsewhere_short"]), "elsewhere_short"),
        }

    def spelled(self, name):
        v = _View()
        v.__dict__.update(cwd=self.cwd, root=self.root, home=self.home, layout=self.layout, prog=self.prog,
                          helper_path=self.helper_path, spelling=name, cache_dir=self.base / "cache", base=self.base)
        v.target_arg, where = self.spellings[name]
        v.target_path = self.files[where]
        return v


class _View:
    pass


def argv_of(view, a, s, mode, cache_file=None):
    cfg = dict(strict=a["strict"], threshold=a["threshold"], warn=s["warn"], H=s["H"], T=s["T"], via_toml=False)
    out = "silent" if mode == "cachefile" else mode
    argv = dc.argv_for(cfg, view.target_arg, out)
    if mode == "cachefile":
        argv = ["--cache-file", str(cache_file), "-r"] + argv
    return argv


# ------------------------------------------------------------------------------------------------
# what is compared
# ------------------------------------------------------------------------------------------------

STATS_KEEP = re.compile(r"^(Total number of imports|\.\.\. of which unique|<file>|Imports|Total badness|\.\.\. from |True badness|"
                        r"Threshold|Total lines)")


def comparable(mode, text):
    """The bytes that must agree. `-o stats`: the rows that are not timings."""
    if mode != "stats":
        return text
    return "\n".join(l for l in text.splitlines() if STATS_KEEP.match(l))


def first_difference(a, b, path=()):
    """JSON path (dict keys that are not field names replaced by `*`) of the first place two
    documents differ."""
    if type(a) is not type(b):
        return path
    if isinstance(a, dict):
        for k in a:
            if k not in b:
                return path + (k,)
            d = first_difference(a[k], b[k], path + (k,))
            if d is not None:
                return d
        for k in b:
            if k not in a:
                return path + (k,)
        return None
    if isinstance(a, list):
        if len(a) != len(b):
            return path + ("[]",)
        for x, y in zip(a, b):
            d = first_difference(x, y, path + ("[]",))
            if d is not None:
                return d
        return None
    return None if a == b else path


def canonical(text):
    """A JSON document with every list sorted (None: not JSON)."""
    def canon(x):
        if isinstance(x, dict):
            return {k: canon(v) for k, v in sorted(x.items())}
        if isinstance(x, list):
            return sorted((canon(v) for v in x), key=lambda v: json.dumps(v, sort_keys=True))
        return x
    try:
        return canon(json.loads(text))
    except Exception:  # noqa
        return None


FIELD_NAMES = {"import_irs", "target_ir", "filename", "ir", "context", "file", "symbols", "function_irs", "symbol_table",
               "location", "filepath", "filehash", "imports", "results", "version", "arguments_hash", "plugins_hash",
               "gets", "sets", "dels", "calls", "name", "basename", "interface", "type", "parent", "lineno", "[]",
               "module_name", "module_spec", "origin", "qualified_name", "token", "target"}


def field_of(texts):
    """Which field of the document differs between the (differing) stdouts: for the signature."""
    docs = []
    for t in texts:
        try:
            docs.append(json.loads(t))
        except Exception:  # noqa
            return "not-json"
    for d in docs[1:]:
        p = first_difference(docs[0], d)
        if p is not None:
            q = [k if k in FIELD_NAMES else "*" for k in p]
            # collapse the middle: top-level key … last two field names
            return ".".join(q) if len(q) <= 3 else ".".join(q[:1] + ["…"] + q[-2:])
    return "whitespace-or-order"


def target_fields(mode, text, target_file=None):
    """Every field of the printed document that names the TARGET file -> [(json path, value)]."""
    try:
        d = json.loads(text)
    except Exception:  # noqa
        return None
    out = []
    if mode == "ir":
        t = d.get("target_ir", {})
        out.append(("target_ir.filename", t.get("filename")))
        ir = t.get("ir", {})
        out.append(("target_ir.ir.context.file", (ir.get("context") or {}).get("file")))
        for name, sym in (ir.get("symbols") or {}).items():
            out.append((f"target_ir.ir.symbols.{name}.location.file", ((sym or {}).get("location") or {}).get("file")))
    elif mode in ("cacheable", "cachefile"):
        out.append(("filepath", d.get("filepath")))
    return out


# ------------------------------------------------------------------------------------------------
# the stage
# ------------------------------------------------------------------------------------------------

def _inproc_with_cache(job):
    """(view, argv, cache file or None) -> run_inprocess result (+ the cache file's text)."""
    view, argv, cache_file = job
    r = dc.run_inprocess(view, argv)
    r = {k: r[k] for k in ("exit", "stdout", "buckets", "crash")}
    if cache_file is not None:
        p = Path(cache_file)
        r["cache_text"] = p.read_text() if p.is_file() else None
    return r


def plan(base, progs):
    """-> (projects, [(view, a, mode, settings)]) for every program x spelling x mode. A program may
    restrict the spellings / modes: (prog, a, spellings or None, modes or None)."""
    projects, groups = [], []
    for i, (prog, a, only_spellings, only_modes) in enumerate(progs):
        # (the short absolute spelling: as few parts as the scratch directory allows, /tmp/<scratch>/t<i>/target.py = 5)
        proj = SpelledProject(base / f"sp{i}", prog, short_dir=base.parent / f"t{i}")
        projects.append(proj)
        for name in proj.spellings:
            if only_spellings is not None and name not in only_spellings:
                continue
            for mode in MODES:
                if only_modes is not None and mode not in only_modes:
                    continue
                groups.append((proj.spelled(name), a, mode, settings_of(mode, len(groups), full=i == 0), i == 0))
    return projects, groups


def cli_jobs(groups, rot=0):
    """The real CLI (its stdout must also be, byte for byte, what the in-process run captured), first
    program: `-o ir` of every spelling and `-o cacheable` of every other spelling (rotating with the
    seed), each under plain and under -H -T at one warning level (rotating)."""
    jobs, meta = [], []
    n = 0
    for gi, (view, a, mode, _, first) in enumerate(groups):
        if mode not in PATH_MODES or not first:
            continue
        n += 1
        if mode == "cacheable" and (n // 2 + rot) % 2 == 1:
            continue
        for s in quad(WARN[(gi + rot) % 4])[::3]:
            jobs.append((view, argv_of(view, a, s, mode)))
            meta.append((gi, s))
    return jobs, meta


def run_groups(groups, inproc_map):
    jobs, index = [], []
    for gi, (view, a, mode, settings, _) in enumerate(groups):
        for si, s in enumerate(settings):
            cf = None
            if mode == "cachefile":
                cf = view.cache_dir / f"g{gi}" / f"s{si}" / "cache.json"
            jobs.append((view, argv_of(view, a, s, mode, cf), str(cf) if cf else None))
            index.append(gi)
    outs = inproc_map(_inproc_with_cache, jobs)
    per = [[] for _ in groups]
    for gi, o in zip(index, outs):
        per[gi].append(o)
    return per


def judge_group(res, differing_flags, view, a, mode, settings, runs, observed):
    """The oracle on one (spelling, mode): `runs` parallel to `settings` (dicts with exit / stdout
    [/ cache_text])."""
    case = {"program": view.prog, "layout": view.layout, "spelling": view.spelling, "target_arg":
            view.target_arg.replace(str(view.base), "<scratch>"), "output": mode, "analysis_cfg": a}
    res.evaluations += len(settings)
    res.count(f"out:{observed}:{mode}:{view.spelling}")
    if any(r.get("crash") for r in runs):
        res.skipped_outside_fragment += 1
        res.count("out:skipped:traceback:" + view.spelling)
        crashes = [bool(r.get("crash")) for r in runs]
        f = differing_flags(crashes, settings)
        if f:
            res.violations.append({"signature": f"traceback-depends-on:{f}:-o-{mode}", "case": case, "observed": observed})
        return
    exits = [r["exit"] for r in runs]
    f = differing_flags(exits, settings)
    if f:
        res.violations.append({"signature": f"exit-status-depends-on:{f}:-o-{mode}", "case": case, "observed": observed,
                               "exits": {skey(s): e for s, e in zip(settings, exits)}})
    what = "cache_text" if mode == "cachefile" else "stdout"
    texts = [r[what] for r in runs]
    vals = [None if t is None else comparable(mode, t) for t in texts]
    f = differing_flags(vals, settings)
    if f:
        distinct = []
        for v in vals:
            if v not in distinct:
                distinct.append(v)
        field = field_of([v or "" for v in distinct]) if mode != "stats" else "table-rows"
        shown = {}
        if mode in PATH_MODES or mode == "cachefile":
            for s, t in zip(settings, texts):
                tf = target_fields(mode, t or "")
                if tf:
                    shown[skey(s)] = tf[0][1]
        head = "cache-file-depends-on" if mode == "cachefile" else "stdout-depends-on"
        res.violations.append({"signature": f"{head}:{f}:-o-{'silent+--cache-file' if mode == 'cachefile' else mode}:{field}",
                               "case": case, "observed": observed, "first_path_field_per_setting": shown,
                               "digests": {skey(s): common.digest(v) for s, v in zip(settings, vals)}})
    # correspondence (MainRun.mainOut, C16_out_paths): a field naming the target file is the target as given
    given = str(Path(view.target_arg))
    for s, t in zip(settings, texts):
        if not t or mode == "stats" or mode == "silent" or mode == "results":
            continue
        tf = target_fields(mode, t)
        if tf is None:
            continue
        bad = [(p, v) for p, v in tf if v != given]
        if bad:
            res.disagreements.append({"case": case, "setting": skey(s), "fields": ["target-path-field"], "observed": observed,
                                      "model": given, "impl": bad[:3]})
            break
    if mode in ("ir", "cacheable", "results") and all(e == 0 for e in exits) and not all(t and t.strip() for t in texts):
        res.violations.append({"signature": f"stdout-empty-at-exit-0:-o-{mode}", "case": case, "observed": observed})
    if mode == "silent" and any(t.strip() for t in texts):
        res.violations.append({"signature": "stdout-not-empty:-o-silent", "case": case, "observed": observed})


def classify_spellings(res, model, proj):
    """Reach of the generator, by the MODEL's renderer: under which of -H / -T the diagnostics' formatter
    would render each spelled target differently from the plain setting (and differently from the
    spelling itself with both off)."""
    from props.c16 import path_parts
    reqs, meta = [], []
    root, home = path_parts(str(proj.root)), path_parts(str(proj.home))
    for name, (arg, _) in proj.spellings.items():
        for h, t in ((False, False), (False, True), (True, False), (True, True)):
            reqs.append(("diag_render", {"H": h, "T": t, "root": root, "home": home, "path": path_parts(arg)}))
            meta.append((name, h, t))
    outs = model.batch(reqs)
    table = {}
    for (name, h, t), o in zip(meta, outs):
        table.setdefault(name, {})[(h, t)] = o
    summary = {}
    for name, r in table.items():
        arg = proj.spellings[name][0]
        flags = "".join(f for f, k in (("-H", (True, False)), ("-T", (False, True))) if r[k] != r[(False, False)])
        plain = "" if r[(False, False)] == str(Path(arg)) else "made-relative"
        summary[name] = "+".join(x for x in (flags, plain) if x) or "invisible"
        res.count(f"out:formatter-would-change:{name}:{summary[name]}")
    return summary


def run_output_stage(res, model, base, progs, differing_flags, inproc_map, cli_submit, rot=0):
    """progs: [(program description, analysis cfg, spellings or None, modes or None)]. Runs the
    in-process part now; returns a function that collects and judges the CLI part."""
    projects, groups = plan(base, progs)
    res.extra["output_stage"] = {
        "spellings": sorted({g[0].spelling for g in groups}), "modes": list(MODES), "programs": len(progs),
        "groups": len(groups),
    }
    if projects:
        try:
            res.extra["output_stage"]["formatter_would_change"] = classify_spellings(res, model, projects[0])
        except Exception as exc:  # noqa
            res.internal_errors.append({"what": f"output stage: classification failed: {type(exc).__name__}: {exc}"})
    cjobs, cmeta = cli_jobs(groups, rot)
    futures = cli_submit(cjobs)
    per = run_groups(groups, inproc_map)
    found = {}
    for gi, ((view, a, mode, settings, _), runs) in enumerate(zip(groups, per)):
        n0 = len(res.violations)
        try:
            judge_group(res, differing_flags, view, a, mode, settings, runs, "in-process")
        except Exception as exc:
            res.internal_errors.append({"what": f"output stage: {type(exc).__name__}: {exc}", "spelling": view.spelling, "mode": mode})
        found[gi] = res.violations[n0:]

    def finish():
        """The CLI part: what the real process prints is what the in-process run captured (so the verdicts
        above are verdicts about the real CLI); a violation found above is marked with what the CLI rows of
        its group show."""
        cli = [f.result() for f in futures]
        by_group = {}
        for (gi, s), r in zip(cmeta, cli):
            by_group.setdefault(gi, []).append((s, r))
        for gi, rows in by_group.items():
            view, a, mode, settings, _ = groups[gi]
            res.evaluations += len(rows)
            res.count(f"out:cli:{mode}:{view.spelling}")
            vals = []
            for s, r in rows:
                if any(l.startswith("Traceback") for l in r["junk"]) or s not in settings:
                    continue
                vals.append(comparable(mode, r["stdout"]))
                ip = per[gi][settings.index(s)]
                if not ip.get("crash") and (ip["stdout"] != r["stdout"] or ip["exit"] != r["exit"]):
                    if ip["exit"] == r["exit"] and canonical(ip["stdout"]) == canonical(r["stdout"]):
                        # the same document up to the order of a list: the hash seed differs between the two
                        # processes (C18's subject, not a verbosity dependence)
                        res.count("out:cli-equals-in-process-up-to-order")
                        continue
                    res.count("out:cli-differs-from-in-process")
                    res.disagreements.append({"case": {"program": view.prog, "spelling": view.spelling, "output": mode},
                                              "setting": skey(s), "fields": ["cli-vs-in-process"],
                                              "impl": {"cli_exit": r["exit"], "inproc_exit": ip["exit"],
                                                       "cli": common.digest(r["stdout"]), "inproc": common.digest(ip["stdout"])}})
                    break
            for v in found.get(gi, ()):
                v["real_cli_plain_vs_-H-T"] = "differ" if len(set(vals)) > 1 else "same"
    return finish


def replay_case(case, base):
    """Rebuild the project of a failing (spelling, mode) and show every setting through the real CLI."""
    proj = SpelledProject(base / "p", case["program"])
    view = proj.spelled(case["spelling"])
    mode, a = case["output"], case["analysis_cfg"]
    print("cwd:", view.cwd, " HOME:", view.home, " target argument:", view.target_arg, " output mode:", mode)
    print("TARGET:\n" + view.target_path.read_text())
    for i, s in enumerate(ALL16):
        cf = base / "cache" / f"{i}.json" if mode == "cachefile" else None
        r = dc.run_cli(view, argv_of(view, a, s, mode, cf))
        text = (cf.read_text() if cf is not None and cf.is_file() else "") if mode == "cachefile" else r["stdout"]
        tf = target_fields(mode, text) or []
        print(skey(s), "exit", r["exit"], "bytes-digest", common.digest(comparable(mode, text)),
              "first path field:", tf[0] if tf else None)
    return 0

"""G_module for C07: whole projects (target module + a small local package) x CLI option combinations.

Every module is assembled as text and compiled, so each is syntactically valid Python 3.12. The
function bodies come from props.bodygen (every statement / expression kind, hostile rate raised),
the module level mixes imports of every form, classes of every documented shape, module-level
lambdas / namedtuples / walruses, conditional imports, `del`, decorators of every expression shape,
`rattr_results` / `rattr_ignore` with regular and odd arguments, async defs, match, type aliases.
"""
from __future__ import annotations

import random

from props import bodygen

# ---------------------------------------------------------------------------------- local package

PACKAGE = {
    "mod.py": (
        "import pkg.sub\n"
        "from pkg.sub import f_sub\n"
        "def mod_fn(z):\n    return f_sub(z.in_mod)\n"
        "def mod_other(z, w=None):\n    z.mo = w.mo\n    return pkg.sub.SubCls(z)\n"
        "mod_lam = lambda q: q.in_mod_lam\n"
        "MOD_CONST = 1\n"
    ),
    "cyc_a.py": "import cyc_b\ndef fa(z):\n    return cyc_b.fb(z.a)\n",
    "cyc_b.py": "import cyc_a\ndef fb(z):\n    return z.b\ndef fb2(z):\n    return cyc_a.fa(z)\n",
    "pkg/__init__.py": (
        "from .sub import f_sub, SubCls\n"
        "from . import sub\n"
        "from .deep import *\n"
        "def pkg_fn(z):\n    return f_sub(z.pk)\n"
    ),
    "pkg/sub.py": (
        "import os\n"
        "from collections import namedtuple\n"
        "def f_sub(z):\n    return z.sub_attr\n"
        "async def a_sub(z):\n    return z.a_sub_attr\n"
        "class SubCls:\n    def __init__(self, v):\n        self.v = v.init_attr\n"
        "    @staticmethod\n    def sm(q):\n        return q.sm_attr\n"
        "SubNT = namedtuple('SubNT', ['p', 'q'])\n"
        "SUB_CONST = 2\n"
    ),
    "pkg/deep/__init__.py": "from ..sub import *\nfrom .leaf import leaf_fn\n",
    "pkg/deep/leaf.py": (
        "from ..sub import f_sub as g_sub\n"
        "from . import sibling\n"
        "from .sibling import sib_fn\n"
        "def leaf_fn(z):\n    return g_sub(z).leaf + sib_fn(z.s)\n"
    ),
    "pkg/deep/sibling.py": "def sib_fn(z):\n    return z.sib\n",
}

TARGET_PATHS = ["target.py"] * 8 + ["pkg/extra_target.py", "pkg/deep/extra_target.py"]

IMPORTS_TOP = [
    "import mod", "import mod as m2", "import pkg", "import pkg.sub", "import pkg.sub as ps", "import mod, pkg",
    "from mod import mod_fn", "from mod import mod_fn as mf, mod_lam", "from mod import MOD_CONST",
    "from pkg import sub", "from pkg import pkg_fn, f_sub", "from pkg.sub import f_sub, SubCls", "from pkg.sub import SubNT as SN",
    "from pkg.deep.leaf import leaf_fn", "from pkg.deep import leaf", "from pkg import *", "from mod import *",
    "import cyc_a", "from cyc_b import fb2",
    "import os", "import os.path", "from os import path", "from os.path import join as pjoin", "import math as m",
    "import sys, json", "from typing import TYPE_CHECKING, NamedTuple", "import typing", "import enum", "from enum import Enum",
    "from dataclasses import dataclass", "import functools", "from __future__ import annotations", "import attrs",
    "from rattr.analyser.annotations import rattr_ignore, rattr_results", "import rattr",
]
IMPORTS_RELATIVE = [  # only meaningful when the target lives inside the package
    "from . import sub", "from .sub import f_sub", "from .sub import *", "from .. import sub", "from ..sub import SubCls as SC",
    "from . import sibling", "from .sibling import sib_fn",
]
IMPORTS_HOSTILE = [
    "from pkg.sub import *",                 # K1: dotted module in a starred import outside __init__
    "from pkg.deep.leaf import *",           # K1
    "import nonexistent_module_xyz",         # sanctioned fatal
    "from nonexistent_module_xyz import thing",
    "from . import mod",                     # relative import from a top-level script
    "from .mod import mod_fn",
    "from .. import something", "from ...common.auth import check", "from .... import z", "from ..pkg import sub", "from ...pkg.sub import f_sub",
]

DECORATORS = [
    "@dec", "@dec.attr", "@dec.a.b", "@dec()", "@dec(1, k=2)", "@dec(1)(2)", "@dec.make(x)(y).z", "@functools.wraps(helper)",
    "@functools.lru_cache", "@functools.lru_cache(maxsize=None)", "@staticmethod", "@property", "@rattr_ignore", "@rattr_ignore()",
    "@rattr_results(gets={'a.x'})", "@rattr_results(sets={'a.y'}, dels={'a.z'}, gets={'*a.w', '@x'})",
    "@rattr_results(calls=[('helper', (['a'], {'w': 'b'}))])", "@rattr_results(gets=set(), calls=[])",
    "@rattr_results(calls=[('undefined_target', ([], {}))])", "@rattr_results()",
]
DECORATORS_ODD = [
    "@dec[0]", "@(dec + dec)", "@(lambda fn: fn)", "@dec[0].attr", "@(dec or dec)", "@(yes if dec else no)", "@[dec][0]",  # K2
    "@(dec := dec)", "@-dec",
    "@rattr_results(calls=[('f', (['a'], ['b']))])",      # K7
    "@rattr_results(gets=None)", "@rattr_results(1)", "@rattr_results(foo={'a'})", "@rattr_results(gets={glob})",
    "@rattr_results(gets={'a'}, **kw)", "@rattr_results(calls=[('f',)])", "@rattr_results(calls=[('f' (['a'], {}))])",
    "@rattr_results(gets=['a'])", "@rattr_results(gets={1})", "@rattr_results(gets={'not a name'})",
    "@rattr_results(calls=[('f', (['a'], {'k': 1}))])", "@rattr_results(calls=[('f', (['a'], {1: 'k'}))])",
    "@rattr_results(calls=[('f', ('a', {}))])", "@rattr_results(calls=[(1, ([], {}))])", "@rattr_results(calls=('f', ([], {})))",
    "@rattr_results(calls=[('f', ([], None))])", "@rattr_results(calls=[('f', ([], 'ab'))])", "@rattr_results(calls=[['f', [[], {}]]])",
    "@rattr_results(gets={'a'}, sets={'a': 1})", "@rattr_results(gets={('a',)})", "@rattr_results(gets={b'a'})",
    "@rattr_results(gets={'a'})\n@rattr_results(sets={'b'})", "@rattr_ignore('x')", "@rattr_results(gets={**glob})",
    "@rattr_results(gets={'a', *other_glob})", "@rattr_results(gets={-1})", "@rattr_results(gets={f'a{glob}'})",
    "@rattr_results(gets={'a' 'b'}, sets=...)", "@rattr_results(calls=[('f', (['a'], {**glob}))])",
    "@rattr_results(calls=[('f()', (['a'], {}))])", "@rattr_results(calls=[('a.b.c', (['*a', '@b'], {}))])",
    "@mod.rattr_results(gets={'a'})", "@rattr_results(gets={'a'})(1)",
    "@rattr_results(gets={'request.session.current_user_profile.notification_preferences.delivery_channels.fallback '})",
    "@rattr_results(sets={'" + ".".join(["component_name"] * 24) + "-'})",
    "@rattr_results(calls=[('helper', (['" + "[].".join(["part"] * 20) + " x'], {}))])",
    "@rattr_results(gets={'" + ".".join(["valid_part"] * 30) + "'})",
]

CLASS_BASES = ["", "(Bare)", "(Enum)", "(enum.Enum)", "(NamedTuple)", "(typing.NamedTuple)", "(Cls, Bare)", "(pkg.sub.SubCls)",
               "(object, metaclass=type)", "(mk_base())", "(bases[0])", "(*bases)", "(typing.Generic[T])", "(Exception)",
               "(Base := Bare)", "(Bare if glob else Cls)", "(lambda: 0)", "(Enum, NamedTuple)", "(str, Enum)", "(**kwbases)"]

MODULE_STMTS_PLAIN = [
    "g1 = 1", "g2, g3 = 1, 2", "glob.attr = 1", "other_glob[0] = 1", "[g4, *g5] = other_glob", "g6 = g7 = glob", "g8: int = 1",
    "g9: int", "glob += 1", "glob.attr.sub: int = 3", "*g10, g11 = other_glob", "(g12, (g13, g14)) = other_glob", "other_glob[0].x += 1",
    "mlam = lambda q, *r, k=0, **kw: q.in_mlam", "mlam2: object = lambda: glob.in_mlam2", "mlam3 = (mlam4 := lambda q: q.w4)",
    "MNT = namedtuple('MNT', ['a', 'b'])", "MNT2 = collections.namedtuple('MNT2', 'a b')", "MNT3 = namedtuple('MNT3', '')",
    "(mw := glob)", "mw2 = (mw3 := 2)", "print(glob)", "'a docstring'", "glob.method()", "...", "pass", "assert glob, 'msg'",
    "if glob:\n    import json\nelse:\n    json = None", "try:\n    import tomllib\nexcept ImportError:\n    tomllib = None\nfinally:\n    fin = 1",
    "if TYPE_CHECKING:\n    from os import PathLike\n    import pkg.sub as tsub", "for mi in other_glob:\n    mj = mi\nelse:\n    mk = 0",
    "while glob:\n    mloop = 1\n    break", "with open('x') as mfh:\n    mcontent = mfh.read()", "with open('x') as (mfa, mfb), open('y'):\n    pass",
    "match glob:\n    case [mu, *mv]:\n        mm = mu\n    case {'k': mq}:\n        pass\n    case Cls(x=mx) if mx:\n        pass\n    case _:\n        pass",
    "type MAlias = int", "type MGen[T] = list[T]", "global gglob", "del g1", "del glob.attr", "del other_glob[0]", "del g2, g3",
    "async def amod(a, b):\n    async with a as c:\n        async for d in b:\n            await d.x\n    return [e async for e in a.y]",
    "def mgen[T](a: T) -> T:\n    return a.generic", "class MGenCls[T]:\n    attr: T",
    "def redefined(a):\n    return a.first", "def redefined(a, b):\n    return b.second", "class helper2:\n    pass\ndef helper2(a):\n    return a.h2",
    "def Cls2(a):\n    return a.c2\nclass Cls2:\n    def __init__(self, q):\n        self.q = q.c2init",
    "if __name__ == '__main__':\n    print(helper(glob))", "raise SystemExit(0) if glob.never else None" if False else "glob if glob else None",
    "x_comp = [c.x for c in other_glob if c]", "x_dcomp = {k: v for k, v in zip(other_glob, other_glob)}", "x_gen = (c for c in other_glob)",
    "f'{glob!r:>{glob}}'", "glob.a.b.c", "glob[0][1]", "-glob", "glob + 1", "not glob", "glob < 1 < 2", "(glob, glob)", "[glob]", "{glob: 1}",
    "{glob}", "glob and glob", "await_like = None", "lambda_holder = [lambda: 0]", "ntup = (namedtuple('A', 'a'), 1)",
    "other_glob[glob:1:2]", "*star_a, = other_glob", "dflt = defaultdict(list)", "srt = sorted(other_glob, key=lambda e: e.k)",
    "ga = getattr(glob, 'attr')", "setattr(glob, 'attr', 1)", "inst = Cls(glob)", "inst.y = Cls(glob, 1).x", "nt_inst = NT(1, 2)",
]
MODULE_STMTS_HOSTILE = [
    "(glob + glob).c = 1",                       # K4 at module level
    "del (glob + glob).c",                       # K4 (del) at module level
    "lambda: 0",                                 # anonymous module-level lambda
    "(lambda: 0)()",
    "hl1, hl2 = lambda: 1, lambda: 2",           # lambda assignment not one-to-one
    "hn1, hn2 = namedtuple('A', 'a'), namedtuple('B', 'b')",
    "HNT = namedtuple('HNT', glob)", "HNT2 = namedtuple('HNT2')", "HNT3 = namedtuple('HNT3', ['a', glob])", "HNT4 = namedtuple('HNT4', 'a 1b')",
    "HNT5 = namedtuple('HNT5', ('a', 'b'))", "HNT6 = namedtuple(typename='HNT6', field_names=['a'])",
    "glob.lam_attr = lambda q: q.x",             # lambda bound to an attribute
    "other_glob[0] = lambda q: q.x",
    "(glob.a, glob.b) = other_glob", "for (glob + 1).x in other_glob:\n    pass", "with open('x') as (glob + glob).c:\n    pass",
    "hl3 = hl4 = lambda: 3", "hw = (hw2 := (hw3 := lambda: 1))", "[hw4 := lambda: 1, hw5 := lambda: 2]",
    "getattr(glob + glob, 'c')", "sorted(other_glob, key=lambda a, b: a)", "hlam_call = (lambda q: q)(glob)",
    "class HCls:\n    (glob + glob).c = 1", "class HCls2:\n    hx, hy = 1, 2\n    {hz}.w = 3" if False else "class HCls2:\n    hx, hy = 1, 2\n    [ha, hb] = hx, hy",
    "hstar, *hrest = lambda: 0, 1", "hdict = {'k': lambda: 0}", "hann: 'lambda' = lambda *, k: k.x", "hnt_ann: type = namedtuple('hnt_ann', 'a')",
    "glob.hnt = namedtuple('hnt', 'a')", "hnt_aug = 1\nhnt_aug += namedtuple('Q', 'a')", "haug = 0\nhaug += lambda: 0",
]


class ModGen:
    def __init__(self, rng: random.Random, hostile=0.1):
        self.r = rng
        self.hostile = hostile
        self.bg = bodygen.BodyGen(rng, hostile=hostile)
        self.n = 0
        self.tags = []

    def fresh(self, p):
        self.n += 1
        return f"{p}{self.n}"

    def tag(self, t):
        self.tags.append(t)

    def decorators(self, allow_odd=True):
        r = self.r
        out = []
        k = r.random()
        if k < 0.55:
            return out
        for _ in range(r.choice([1, 1, 1, 2, 3])):
            if allow_odd and r.random() < self.hostile:
                d = r.choice(DECORATORS_ODD)
                self.tag("decorator-odd")
            else:
                d = r.choice(DECORATORS)
                if "rattr_results" in d and any("rattr_results" in o for o in out):
                    continue        # a duplicated annotation is a (sanctioned) fatal: keep it to the odd list
            out.extend(d.split("\n"))
        self.tag("decorated")
        return out

    def function(self, name=None, indent=""):
        name = name or self.fresh("fn")
        for _ in range(20):
            src = self.bg.function(name)
            try:
                compile(src, "<gen>", "exec")
            except SyntaxError:
                continue
            lines = src.rstrip("\n").split("\n")
            return [indent + l for l in lines]
        return [f"{indent}def {name}(a):", f"{indent}    return a.fallback"]

    def klass(self):
        r = self.r
        name = self.fresh("K")
        base = r.choice(CLASS_BASES) if r.random() < 0.6 else ""
        if base not in ("", "(Bare)", "(Enum)", "(enum.Enum)", "(NamedTuple)", "(typing.NamedTuple)"):
            self.tag("class-base-odd")
        lines = self.decorators() + [f"class {name}{base}:"]
        body = []
        for _ in range(r.randint(1, 5)):
            k = r.choice(["attr", "attr", "ann", "tuple", "init", "static", "method", "doc", "aug", "nested", "ctrl", "ainit", "init2",
                          "hostile", "prop", "walrus", "lam", "expr", "del"])
            if k == "attr":
                body.append(f"{self.fresh('ca')} = {self.bg.atom()}")
            elif k == "ann":
                body.append(r.choice([f"{self.fresh('ca')}: int = 1", f"{self.fresh('ca')}: str", f"{self.fresh('ca')}: 'K' = {self.bg.expr(2)}"]))
            elif k == "tuple":
                body.append(f"{self.fresh('ca')}, [{self.fresh('ca')}, *{self.fresh('ca')}] = other_glob")
            elif k == "aug":
                body.append(f"{self.fresh('ca')} = 0")
                body.append(f"ca{self.n} += glob.step")
            elif k == "init":
                body.extend(self.function("__init__"))
            elif k == "init2":
                body.extend(self.function("__init__"))
                body.extend(self.function("__init__"))
                self.tag("class-two-inits")
            elif k == "ainit":
                if r.random() < self.hostile * 3:
                    body.extend(["async def __init__(self, a):", "    self.x = a.ax"])
                    self.tag("class-async-init")
                else:
                    body.extend(["def __new__(cls, a):", "    return a.new"])
            elif k == "static":
                body.extend(["@staticmethod"] + self.function(self.fresh("sm")))
            elif k == "prop":
                body.extend(self.decorators() + self.function(self.fresh("meth")))
            elif k == "method":
                body.extend(self.function(self.fresh("meth")))
            elif k == "doc":
                body.append("'''class docstring'''")
            elif k == "nested":
                body.extend([f"class {self.fresh('Inner')}:", "    inner_attr = glob.in_nested", "    def im(self):", "        return self.q"])
            elif k == "ctrl":
                body.extend(r.choice([
                    ["if glob:", "    cond_attr = 1", "else:", "    cond_attr = glob.other"],
                    ["for ci in other_glob:", "    loop_attr = ci.x"],
                    ["try:", "    import json", "except ImportError:", "    json = None"],
                    ["with open('f') as cfh:", "    data = cfh.read()"],
                    ["pass"], ["..."], ["glob.side_effect()"], ["print(glob)"],
                ]))
            elif k == "walrus":
                body.append(f"{self.fresh('ca')} = ({self.fresh('cw')} := glob.w)")
            elif k == "lam":
                body.append(f"{self.fresh('ca')} = lambda self: self.lam_attr")
            elif k == "expr":
                body.append(self.bg.expr(1))
            elif k == "del":
                body.append(f"{self.fresh('ca')} = 1")
                body.append(f"del ca{self.n}")
            elif k == "hostile":
                if r.random() < self.hostile * 4:
                    body.append(r.choice(["(glob + glob).c = 1", "glob.x.y = 1", "other_glob[0] = 1", "{**glob}['k'] = 1", "glob().attr = 2",
                                          "(glob.a, other_glob[0]) = 1, 2", "(lambda: 0).attr = 1", "del (glob + glob).c",
                                          "for (glob + 1).x in other_glob: pass", "global gglob", "import json as cj", "from os import sep as csep",
                                          "return_like = yield_like = None", "[glob][0].z: int = 1", "(-glob).neg += 1"]))
                    self.tag("class-body-hostile")
                else:
                    body.append("plain = 1")
        src = "\n".join(lines + ["    " + l for l in body])
        try:
            compile(src, "<gen>", "exec")
        except SyntaxError:
            return [f"class {name}:", "    pass"]
        return lines + ["    " + l for l in body]

    def target_module(self, in_package=False):
        r = self.r
        parts = [bodygen.PREAMBLE.rstrip("\n")]
        parts.append("dec = lambda fn: fn\nbases = (Bare,)\nkwbases = {}\nT = None\nkw = {}\nx = y = 0\n"
                     "def mk_base():\n    return Bare\n"
                     "from rattr.analyser.annotations import rattr_ignore, rattr_results")
        n_imports = r.randint(0, 5)
        pool = IMPORTS_TOP + (IMPORTS_RELATIVE * 2 if in_package else [])
        for _ in range(n_imports):
            if r.random() < self.hostile:
                parts.append(r.choice(IMPORTS_HOSTILE))
                self.tag("import-hostile")
            else:
                parts.append(r.choice(pool))
        n_items = r.randint(3, 9)
        for _ in range(n_items):
            k = r.random()
            if k < 0.4:
                parts.append("\n".join(self.decorators() + self.function()))
            elif k < 0.55:
                parts.append("\n".join(self.klass()))
            elif k < 0.6 and r.random() < 0.5:
                parts.append(r.choice(pool))
            else:
                if r.random() < self.hostile:
                    parts.append(r.choice(MODULE_STMTS_HOSTILE))
                    self.tag("module-stmt-hostile")
                else:
                    parts.append(r.choice(MODULE_STMTS_PLAIN))
        good = []
        for p in parts:
            try:
                compile("\n".join(good + [p]) + "\n", "<gen>", "exec", dont_inherit=True)
            except SyntaxError:
                continue
            good.append(p)
        return "\n".join(good) + "\n"


# ---------------------------------------------------------------------------------- options

def gen_options(rng: random.Random, allow_follow_23=False):
    """A valid option combination (argparse accepts it). Returns (argv list, tags)."""
    r = rng
    o = []
    if r.random() < 0.5:
        lv = r.choice(["0", "1", "1"] + (["2", "3"] if allow_follow_23 else []))
        o += ["-f", lv]
    k = r.random()
    if k < 0.2:
        o += ["--strict"]
    elif k < 0.4:
        o += ["--threshold", str(r.choice([0, 1, 5, 20, 1000]))]
    if r.random() < 0.6:
        o += ["-o", r.choice(["stats", "ir", "results", "cacheable", "silent"])]
    if r.random() < 0.6:
        o += ["-w", r.choice(["none", "local", "default", "all"])]
    if r.random() < 0.2:
        o += ["-H"]
    if r.random() < 0.2:
        o += ["-T"]
    if r.random() < 0.25:
        o += ["-x", r.choice(["fn.*", "K\\d+", ".*_.*", "helper", "Cls", "fn1|fn2", ".*"])]
    if r.random() < 0.25:
        o += ["-F", r.choice(["mod", "pkg.*", "os", "nonexistent.*", "cyc_.*", ".*", "pkg\\.sub"])]
    cache = r.random()
    if cache < 0.15:
        o += ["-C", "cache.json"]
    elif cache < 0.25:
        o += ["-C", "cache.json", "-r"]
    return o


def gen_project(rng: random.Random, hostile=0.1):
    """-> dict(files, target, opts, tags). A fatal anywhere ends the run, so the hostile rate is drawn per
    project: `hostile` for 40 % of the projects, a third of it for 30 %, none for the rest (these reach
    import following, result generation, serialisation and the cache)."""
    k = rng.random()
    hostile = hostile if k < 0.4 else (hostile / 4 if k < 0.7 else 0.0)
    g = ModGen(rng, hostile=hostile)
    g.tag(f"hostile={hostile:g}")
    target = rng.choice(TARGET_PATHS)
    in_pkg = target != "target.py"
    files = dict(PACKAGE)
    files[target] = g.target_module(in_package=in_pkg)
    opts = gen_options(rng)
    return {"files": files, "target": target, "opts": opts, "tags": sorted(set(g.tags))}

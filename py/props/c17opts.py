"""C17 under the analysis OPTIONS that touch definitions.

"a module-level definition, import or assignment ... never warned" has to hold whatever the run is
told to leave out of the RESULTS: `-x/--exclude PATTERN` (functions / classes whose name matches are
not analysed, yet they stay module-level names), `@rattr_ignore`, `@rattr_results`, `-F` (imports
that are not followed), the follow level 0..3 — in the target file and in every followed import.

`run_options_stage(res, rng, n, model, n_cli)`:
  * generates `n` small PROJECTS (target + local modules + a package, import DAG of depth <= 2): every
    kind of module-level binder (def, async def, class with / without initialiser, named lambda,
    namedtuple, plain / annotated / augmented / tuple / chained / walrus assignment, `import m`,
    `import m as a`, `import p.m`, `import p.m as a`, `from m import n [as a]`, `from p import m`,
    relative imports, `from m import *`, stdlib imports; at the top level and inside `if` / `else` /
    `try` / `except` / `finally` / `with` / `for` / `while` blocks), with names drawn from classes
    that the exclusion patterns of the run do or do not match, some decorated `@rattr_ignore` /
    `@rattr_results`; and USER callables (def, async def, initialiser, static method, named lambda,
    nested def / lambda / comprehension) that load those names in every syntactic form;
  * draws the options (`-x` 0..2 patterns, `-F` 0..1, `-f` 0..3) and the channel they arrive through
    (argv, `--config file.toml`, both);
  * runs the WHOLE real pipeline in-process exactly as the CLI would (`parse_arguments(argv)` ->
    `Config` -> `rattr.__main__.main`) and, for `n_cli` of them, the real CLI in a subprocess;
  * ORACLE (independent of rattr): CPython itself imports every generated module; a name that is in
    the module's namespace afterwards (or a builtin) is a module-level name, so a "potentially
    undefined" warning for it located in that file is a violation. A name bound nowhere that is
    loaded by a plain module-level function which the options leave analysed must be warned about;
  * CORRESPONDENCE: every module of the project also goes through the Lean model of the root
    context and the file analyser (ops `root_context`, `analyse_file`) under the run's own exclusion
    patterns (the model's `Facts.excluded`).
"""
from __future__ import annotations

import ast
import builtins
import contextlib
import importlib
import io
import json
import os
import re
import shutil
import subprocess
import sys
import tempfile
from concurrent.futures import ThreadPoolExecutor
from pathlib import Path

import common
import impl
from props import filelib

ANSI = re.compile(r"\x1b\[[0-9;]*m")
UNDEF = re.compile(r"^warning: (.*?):(\d+):(\d+): '(.*)' potentially undefined$")
BUILTINS = set(dir(builtins))
DUNDERS = {"__annotations__", "__builtins__", "__cached__", "__doc__", "__file__", "__loader__", "__name__",
           "__package__", "__spec__"}

# name classes: which exclusion patterns can match a generated name
NAME_CLASSES = {
    "under": "_h{}",
    "excl": "excl_h{}",
    "impl": "h{}_impl",
    "upper": "Hid{}",
    "plain": "vis{}",
}
PATTERN_POOL = ["_.*", "_.*", "excl_.*", ".*_impl", "[A-Z].*", "vis.*", "<exact>", "<exact>", ".*", "_h\\d+|Hid\\d+"]
IMPORT_PATTERN_POOL = ["mb", "m.*", "pk.*", "pk\\.mc", "ma|mb", "pk", ".*"]

HEADER = ["from collections import namedtuple", "from contextlib import nullcontext",
          "from rattr.analyser.annotations import rattr_ignore, rattr_results"]

BLOCKS = ["top"] * 8 + ["if", "else", "try", "except", "try-else", "finally", "with", "for", "while", "match",
                       "match-later-case", "match-in-if", "if-in-match", "trystar", "trystar-except", "trystar-else",
                       "trystar-finally", "trystar-in-match"]


def ind(lines, n=1):
    return ["    " * n + l for l in lines]


def in_block(kind, lines):
    if kind == "top":
        return lines
    if kind == "if":
        return ["if True:"] + ind(lines)
    if kind == "else":
        return ["if False:", "    pass", "else:"] + ind(lines)
    if kind == "try":
        return ["try:"] + ind(lines) + ["except ImportError:", "    pass"]
    if kind == "except":
        return ["try:", "    pass", "except ImportError:"] + ind(lines)
    if kind == "try-else":
        return ["try:", "    pass", "except ImportError:", "    pass", "else:"] + ind(lines)
    if kind == "finally":
        return ["try:", "    pass", "finally:"] + ind(lines)
    if kind == "with":
        return ["with nullcontext():"] + ind(lines)
    if kind == "for":
        return ["for _it in (0,):"] + ind(lines)
    if kind == "while":
        return ["while True:"] + ind(lines) + ["    break"]
    if kind == "match":
        return ["match 0:", "    case 0:"] + ind(lines, 2)
    if kind == "match-later-case":
        return ["match 0:", "    case 1:", "        pass", "    case _ if True:"] + ind(lines, 2)
    if kind == "match-in-if":
        return ["if True:"] + ind(in_block("match", lines))
    if kind == "if-in-match":
        return in_block("match", in_block("if", lines))
    if kind == "trystar":
        return ["try:"] + ind(lines) + ["except* ImportError:", "    pass"]
    if kind == "trystar-except":
        return ["try:", "    pass", "except* ImportError:"] + ind(lines)
    if kind == "trystar-else":
        return ["try:", "    pass", "except* ImportError:", "    pass", "else:"] + ind(lines)
    if kind == "trystar-finally":
        return ["try:", "    pass", "except* ImportError:", "    pass", "finally:"] + ind(lines)
    if kind == "trystar-in-match":
        return in_block("match", in_block("trystar", lines))
    raise ValueError(kind)


class Exported:
    """what a generated module offers to its importers"""

    def __init__(self, name, path):
        self.name, self.path = name, path
        self.funcs, self.classes, self.values = [], [], []


class ModGen:
    def __init__(self, rng, gen, name, path, importable, level=1):
        self.r, self.gen, self.name, self.path = rng, gen, name, path
        # following `collections` / `contextlib` at level 3 ends in a frozen stdlib module (a crash class of
        # C07, documented by rattr's own help text): level-3 projects do without them
        self.stdlib_free = level == 3
        self.importable = importable            # list[Exported] generated before (deeper in the DAG)
        self.exp = Exported(name, path)
        self.binders = []                       # (name, shape, extra) usable in this module
        self.chunks = []                        # list[list[str]]: shuffled module-level statements
        self.imports = []                       # import lines (kept first: rattr registers them in order anyway)
        self.pkg = name.rsplit(".", 1)[0] if "." in name else None

    def fresh(self, cls=None):
        cls = cls or self.r.choice(list(NAME_CLASSES))
        self.gen.n += 1
        return NAME_CLASSES[cls].format(self.gen.n)

    # ------------------------------------------------------------- module-level binders
    def deco(self):
        x = self.r.random()
        if x < 0.12:
            return ["@rattr_ignore"]
        if x < 0.24:
            return [self.r.choice(["@rattr_results(gets={'a.x'})", "@rattr_results(sets={'a.y'}, calls=[('helper0()', (['a'], {}))])",
                                   "@rattr_results()"])]
        return []

    def add_binder(self):
        r = self.r
        kind = r.choice(["def"] * 5 + ["async"] * 2 + ["class-init"] * 2 + ["class-bare", "class-static", "lambda", "namedtuple",
                         "assign", "ann", "aug", "tuple", "chain", "walrus", "walrus-lambda", "list", "call-value", "bare-walrus"])
        n = self.fresh()
        block = r.choice(BLOCKS)
        if self.stdlib_free:
            kind = "assign" if kind == "namedtuple" else kind
            block = "if" if block == "with" else block
        if kind == "def":
            lines = self.deco() + [f"def {n}(a, b=0):", f"    return a.at_{n}"]
            self.binders.append((n, "callable"))
            self.exp.funcs.append(n)
        elif kind == "async":
            lines = self.deco() + [f"async def {n}(a):", f"    return a.at_{n}"]
            self.binders.append((n, "acallable"))
            self.exp.funcs.append(n)
        elif kind == "class-init":
            lines = (["@rattr_ignore"] if r.random() < 0.12 else []) + [f"class {n}:", "    def __init__(self, a, k=None):", f"        self.q = a.in_{n}"]
            self.binders.append((n, "callable"))
            self.exp.classes.append(n)
        elif kind == "class-bare":
            lines = [f"class {n}:", "    attr = 1"]
            self.binders.append((n, "value"))
            self.exp.classes.append(n)
        elif kind == "class-static":
            lines = [f"class {n}:", "    @staticmethod", "    def sm(v):", f"        return v.sm_{n}"]
            self.binders.append((n, "static"))
            self.exp.classes.append(n)
        elif kind == "lambda":
            lines = [f"{n} = lambda a: a.lam_{n}"]
            self.binders.append((n, "callable"))
            self.exp.funcs.append(n)
        elif kind == "namedtuple":
            lines = [f"{n} = namedtuple({n!r}, ['u', 'v'])"]
            self.binders.append((n, "value"))
        elif kind == "assign":
            lines = [f"{n} = {r.choice(['3', '[1, 2]', repr('s'), 'None', '{1: 2}'])}"]
            self.binders.append((n, "value"))
            self.exp.values.append(n)
        elif kind == "ann":
            lines = [f"{n}: int = 4"]
            self.binders.append((n, "value"))
            self.exp.values.append(n)
        elif kind == "aug":
            lines = [f"{n} = 1", f"{n} += 2"]
            self.binders.append((n, "value"))
        elif kind == "tuple":
            n2 = self.fresh()
            lines = [r.choice([f"({n}, {n2}) = (1, 2)", f"{n}, *{n2} = 1, 2, 3", f"[{n}, {n2}] = [1, 2]"])]
            self.binders += [(n, "value"), (n2, "value")]
        elif kind == "chain":
            n2 = self.fresh()
            lines = [f"{n} = {n2} = 0"]
            self.binders += [(n, "value"), (n2, "value")]
        elif kind == "walrus":
            n2 = self.fresh()
            lines = [f"{n} = ({n2} := 5)"]
            self.binders += [(n, "value"), (n2, "value")]
        elif kind == "walrus-lambda":
            n2 = self.fresh()
            lines = [f"{n} = ({n2} := lambda a: a.wl_{n})"]
            self.binders += [(n, "callable"), (n2, "callable")]
        elif kind == "bare-walrus":
            lines = [r.choice([f"({n} := 5)", f"if ({n} := 5):\n    pass", f"print({n} := 5)"])]
            lines = lines[0].split("\n")
            self.binders.append((n, "value"))
        elif kind == "list":
            lines = [f"{n} = [helper0, 1]"]
            self.binders.append((n, "value"))
        else:
            lines = [f"{n} = helper0(1)"]
            self.binders.append((n, "value"))
        if block in ("except", "trystar-except"):       # never executed: CPython does not bind these names, importers must not ask for them
            bound = {b[0] for b in self.binders}
            self.exp.funcs = [x for x in self.exp.funcs if x != n]
            self.exp.classes = [x for x in self.exp.classes if x != n]
            self.exp.values = [x for x in self.exp.values if x != n]
        self.chunks.append(in_block(block, lines))

    def add_import(self):
        r = self.r
        if not self.importable or r.random() < 0.15:
            mod = r.choice(["colorsys", "keyword"])
            form = r.choice(["import", "import-as", "from"])
            if form == "import":
                self.imports.append(f"import {mod}")
                self.binders.append((mod, "stdlib"))
            elif form == "import-as":
                a = self.fresh()
                self.imports.append(f"import {mod} as {a}")
                self.binders.append((a, "stdlib"))
            else:
                fn = {"colorsys": "rgb_to_hsv", "keyword": "iskeyword"}[mod]
                a = self.fresh()
                self.imports.append(f"from {mod} import {fn} as {a}")
                self.binders.append((a, "callable"))
            return
        e = r.choice(self.importable)
        forms = ["import", "import-as"] * 2 + ["from", "from-as", "from", "from-as"]
        if "." in e.name:
            forms += ["from-pkg", "from-pkg-as"]
            if self.pkg is not None and e.name.startswith(self.pkg + "."):
                forms += ["rel-from", "rel-from-as", "rel-mod"] * 2
        elif not e.name.startswith("pk") and self.path.name != "__init__.py":
            forms += ["star"]
        form = r.choice(forms)
        things = [(f, "callable") for f in e.funcs] + [(c, "value") for c in e.classes] + [(v, "value") for v in e.values]
        if form in ("from", "from-as", "rel-from", "rel-from-as") and not things:
            form = "import-as"
        block = r.choice(["top"] * 6 + ["try", "if", "else", "except", "match", "match-later-case", "trystar", "trystar-else",
                                       "trystar-except", "if-in-match"])
        leaf = e.name.rsplit(".", 1)[-1]
        if form == "import":
            line = f"import {e.name}"
            # `import p.m` binds `p` (and only `p`)
            self.binders.append((e.name.split(".")[0], ("dotted:" + e.name) if "." in e.name else "module"))
        elif form == "import-as":
            a = self.fresh()
            line = f"import {e.name} as {a}"
            self.binders.append((a, "module"))
        elif form in ("from", "from-as", "rel-from", "rel-from-as"):
            picks = r.sample(things, min(len(things), r.randint(1, 3)))
            parts = []
            for t, shape in picks:
                if form.endswith("-as") or any(b[0] == t for b in self.binders):
                    a = self.fresh()
                    parts.append(f"{t} as {a}")
                    self.binders.append((a, "imported-" + shape))
                else:
                    parts.append(t)
                    self.binders.append((t, "imported-" + shape))
            src = ("." + leaf) if form.startswith("rel") else e.name
            line = f"from {src} import {', '.join(parts)}"
        elif form in ("from-pkg", "from-pkg-as"):
            pkg = e.name.rsplit(".", 1)[0]
            if form == "from-pkg-as" or any(b[0] == leaf for b in self.binders):
                a = self.fresh()
                line = f"from {pkg} import {leaf} as {a}"
                self.binders.append((a, "module"))
            else:
                line = f"from {pkg} import {leaf}"
                self.binders.append((leaf, "module"))
        elif form == "rel-mod":
            a = self.fresh()
            line = f"from . import {leaf} as {a}"
            self.binders.append((a, "module"))
        else:   # star
            line = f"from {e.name} import *"
            for t, shape in things:
                if not t.startswith("_") and not any(b[0] == t for b in self.binders):
                    self.binders.append((t, "imported-" + shape))
        self.imports.append("\n".join(in_block(block, [line])))

    # ------------------------------------------------------------- uses
    def use_stmts(self, n, shape, p, is_async):
        """statements that LOAD the module-level name `n`."""
        r = self.r
        generic = [
            [f"{n}"], [f"{n}.at"], [f"{n}[0]"], [f"print({n})"], [f"helper0(k={n})"], [f"helper0({n}, {p})"],
            [f"[{n} for _c in {p}]"], [f"[_c.e for _c in {p} if {n}]"], [f"(lambda: {n})"], [f"(lambda z: z.w + {n}.lw)({p})"],
            [f"f'{{{n}}}'"], [f"{n}.at = {p}"], [f"{n}.at += 1"], [f"del {n}.at"], [f"del {n}[0]"],
            [f"isinstance({p}, {n})"], [f"with {n} as w_{self.gen.n}:", f"    w_{self.gen.n}.x"],
            [f"for it_{self.gen.n} in {n}:", f"    it_{self.gen.n}.x"], [f"if {n}:", f"    {p}.t"],
            [f"loc_{self.gen.n} = {n}", f"loc_{self.gen.n}.x"], [f"return {n}"], [f"{p}.z = {n}"], [f"{p}[{n}] = 1"],
            [f"def inner_{self.gen.n}(y):", f"    return y.iy + {n}.at", f"inner_{self.gen.n}({p})"],
            [f"def inner_{self.gen.n}(y, d={n}):", f"    return y.iy"],
            [f"try:", f"    {p}.t", f"except {n}:", f"    pass"],
            [f"{p}.t if {n} else {p}.u"], [f"not {n}"], [f"{n} + {p}.o"], [f"{{{n}: {p}}}"], [f"({n}, {p}.tup)"],
            [f"while {n}:", "    break"], [f"assert {n}"], [f"raise {n}"], [f"yield {n}"] if not is_async else [f"{n}"],
            [f"global_use = {n}.a.b[0].c"],
        ]
        callable_ = [[f"{n}({p})"], [f"{n}({p}).res"], [f"{n}(*{p})"], [f"{n}(a={p})"], [f"return {n}({p}.arg)"],
                     [f"x_{self.gen.n} = {n}({p})", f"x_{self.gen.n}.after"], [f"helper0({n}({p}))"],
                     [f"[{n}(_c) for _c in {p}]"], [f"(lambda z: {n}(z))"], [f"sorted({p}, key={n})"]]
        if shape in ("callable", "imported-callable"):
            pool = callable_ * 2 + generic
        elif shape == "acallable":
            pool = ([[f"await {n}({p})"], [f"r_{self.gen.n} = await {n}({p})", f"r_{self.gen.n}.x"]] * 6 if is_async else []) + callable_ + generic
        elif shape == "static":
            pool = [[f"{n}.sm({p})"], [f"return {n}.sm({p}).v"]] * 5 + generic
        elif shape == "module":
            pool = [[f"{n}.some_fn({p})"], [f"{n}.VALUE.x"], [f"return {n}.Cls({p})"]] * 4 + generic
        elif shape == "stdlib":
            pool = [[f"{n}.fn({p})"], [f"{n}.VALUE"]] * 3 + generic
        elif shape.startswith("dotted:"):
            full = shape.split(":", 1)[1]
            pool = [[f"{full}.some_fn({p})"], [f"{full}.VALUE"], [f"return {full}"]] * 5 + generic[:6]
        else:
            pool = generic
        self.gen.n += 1
        return r.choice(pool)

    def body(self, p, is_async, n_uses):
        r = self.r
        stmts = []
        undef = None
        for _ in range(n_uses):
            if self.binders and r.random() < 0.9:
                n, shape = r.choice(self.binders)
                st = self.use_stmts(n, shape, p, is_async)
            else:
                st = [f"{p}.own_{self.gen.n}"]
            terminal = st[-1].startswith(("return ", "raise "))
            if terminal:
                st = [f"if {p}:"] + ind(st)
            stmts.append(st)
        if r.random() < 0.35:
            self.gen.n += 1
            undef = f"undef_{self.gen.n}"
            stmts.insert(r.randint(0, len(stmts)), [r.choice([f"{undef}.at", f"{undef}({p})", f"{p}.t = {undef}", f"print({undef})"])])
        return [l for st in stmts for l in st] or ["pass"], undef

    def add_user(self):
        r = self.r
        kind = r.choice(["def"] * 6 + ["async"] * 2 + ["init", "static", "lambda"])
        n = self.fresh(r.choice(["plain"] * 4 + ["under", "excl", "impl", "upper"]))
        self.gen.n += 1
        p = f"p{self.gen.n}"
        if kind in ("def", "async"):
            body, undef = self.body(p, kind == "async", r.randint(1, 5))
            lines = self.deco() + [("async " if kind == "async" else "") + f"def {n}({p}, q=None):"] + ind(body)
            self.exp.funcs.append(n)
        elif kind == "init":
            body, undef = self.body(p, False, r.randint(1, 4))
            lines = [f"class {n}:", f"    def __init__(self, {p}):"] + ind(body, 2)
            self.exp.classes.append(n)
        elif kind == "static":
            body, undef = self.body(p, False, r.randint(1, 4))
            lines = [f"class {n}:", "    @staticmethod", f"    def sm({p}):"] + ind(body, 2)
            self.exp.classes.append(n)
        else:
            cands = [b for b in self.binders if b[1] in ("callable", "imported-callable", "value", "module")]
            if not cands:
                return
            t, shape = r.choice(cands)
            expr = r.choice([f"{t}({p})", f"{t}.at + {p}.x", f"[{t}, {p}.y]", f"{p}.f({t})"]) if shape != "module" else f"{t}.fn({p})"
            lines = [f"{n} = lambda {p}: {expr}"]
            self.exp.funcs.append(n)
        self.chunks.append(lines)

    def source(self, n_binders, n_imports, n_users):
        r = self.r
        for _ in range(n_imports):
            self.add_import()
        for _ in range(n_binders):
            self.add_binder()
        for _ in range(n_users):
            self.add_user()
        r.shuffle(self.chunks)
        out = (HEADER[2:] if self.stdlib_free else list(HEADER)) + self.imports + ["def helper0(*a, **k):", "    return a"]
        for c in self.chunks:
            out += c
        return "\n".join(out) + "\n"


class ProjectGen:
    LAYOUT = [("pk.md", "pk/md.py"), ("pk.mc", "pk/mc.py"), ("mb", "mb.py"), ("ma", "ma.py")]

    def __init__(self, rng):
        self.r = rng
        self.n = 0

    def project(self):
        r = self.r
        files = {"pk/__init__.py": ""}
        importable = []
        level = r.choice([0, 0, 1, 1, 1, 1, 2, 3])
        mods = [m for m in self.LAYOUT if r.random() < 0.75] or [self.LAYOUT[2]]
        for name, path in mods:
            mg = ModGen(r, self, name, Path(path), list(importable), level)
            files[path] = mg.source(r.randint(2, 6), r.randint(0, 2) if importable else 0, r.randint(1, 3))
            importable.append(mg.exp)
        tg = ModGen(r, self, "target", Path("target.py"), list(importable), level)
        files["target.py"] = tg.source(r.randint(4, 10), r.randint(1, 4), r.randint(2, 5))
        # options
        names = sorted({n.name for src in files.values() if src for n in ast.walk(ast.parse(src))
                        if isinstance(n, (ast.FunctionDef, ast.AsyncFunctionDef, ast.ClassDef))} - {"helper0", "__init__", "sm"})
        xs = []
        for _ in range(r.choice([0, 1, 1, 1, 2, 2])):
            p = r.choice(PATTERN_POOL)
            if p == "<exact>":
                p = r.choice(names) if names else "_.*"
            xs.append(p)
        fs = [r.choice(IMPORT_PATTERN_POOL)] if r.random() < 0.3 else []
        channel = r.choice(["argv"] * 3 + ["toml", "both"])
        return {"files": files, "exclude": xs, "exclude_imports": fs, "level": level, "channel": channel}


CURATED = [
    # the documented typical use: -x '_.*' ("don't report my private helpers")
    {"files": {"target.py": "def _scale(shape):\n    return shape.factor\n\nasync def _fetch(shape):\n    return shape.remote\n\n"
                            "class _Priv:\n    def __init__(self, q):\n        self.q = q.z\n\n_lam = lambda t: t.l\n\n"
                            "def area(shape):\n    return _scale(shape).value * shape.width + _Priv(shape).q + _lam(shape)\n\n"
                            "async def remote_area(shape):\n    data = await _fetch(shape)\n    return data.value, _scale\n\n"
                            "def control(shape):\n    return bound_nowhere.value\n"},
     "exclude": ["_.*"], "exclude_imports": [], "level": 1, "channel": "argv"},
    {"files": {"target.py": "from ma import _hid, vis\nimport ma\ndef pub(x):\n    return _hid(x) + vis(x) + ma._hid(x)\n",
               "ma.py": "def _hid(a):\n    return _loc(a)\ndef _loc(a):\n    return a.loc\ndef vis(a):\n    return _hid(a) + _loc(a)\nclass K:\n    def __init__(self, a):\n        self.a = _loc(a)\n"},
     "exclude": ["_.*"], "exclude_imports": [], "level": 1, "channel": "toml"},
    {"files": {"target.py": "from rattr.analyser.annotations import rattr_ignore, rattr_results\n@rattr_ignore\ndef ig(a):\n    return a.i\n"
                            "@rattr_results(gets={'a.x'})\ndef decl(a):\n    return a.never\n@rattr_ignore\nclass IgC:\n    def __init__(self, a):\n        self.a = a.b\n"
                            "def keep(a):\n    return ig(a) + decl(a) + IgC(a).a\n"},
     "exclude": ["keep_not"], "exclude_imports": [], "level": 0, "channel": "argv"},
    {"files": {"target.py": "import mb\nfrom mb import f as g, K\ndef pub(x):\n    return mb.f(x) + g(x) + K(x).v\n",
               "mb.py": "def f(a):\n    return a.fa\nclass K:\n    def __init__(self, v):\n        self.v = v.kv\n"},
     "exclude": ["f", "K"], "exclude_imports": ["mb"], "level": 1, "channel": "both"},
]


# ---------------------------------------------------------------------- running


def write_project(case):
    tmp = Path(tempfile.mkdtemp(prefix="rattr-c17opts-"))
    for rel, text in case["files"].items():
        p = tmp / rel
        p.parent.mkdir(parents=True, exist_ok=True)
        p.write_text(text)
    argv = ["-w", "all", "-o", "silent"]
    toml = {}
    ch = case["channel"]
    if ch in ("argv", "both"):
        argv += ["-f", str(case["level"])]
        for p in case["exclude"]:
            argv += ["-x", p]
    else:
        toml["follow-imports"] = case["level"]
        if case["exclude"]:
            toml["exclude"] = case["exclude"]
    if ch == "argv":
        for p in case["exclude_imports"]:
            argv += ["-F", p]
    elif case["exclude_imports"]:
        toml["exclude-imports"] = case["exclude_imports"]
    if ch != "argv":
        lines = ["[tool.rattr]"]
        for k, v in toml.items():
            lines.append(f"{k} = {json.dumps(v)}")
        (tmp / "rattr_cfg.toml").write_text("\n".join(lines) + "\n")
        argv += ["--config", "rattr_cfg.toml"]
    return tmp, argv + ["target.py"]


def parse_warnings(text):
    out = []
    for line in ANSI.sub("", text).splitlines():
        m = UNDEF.match(line.strip())
        if m:
            out.append((m.group(1), int(m.group(2)), int(m.group(3)), m.group(4)))
    return out


def _drop_config():
    from rattr.config._types import ConfigMetaclass
    from rattr.config import Config
    ConfigMetaclass._instance = None
    try:
        Config._instance = None
    except Exception:   # noqa
        pass


def run_inprocess(project: Path, argv):
    """`rattr.__main__.main` the way the entry point does it: parse_arguments(argv) -> Config -> main."""
    import rattr.__main__ as main_mod
    from rattr.cli import parse_arguments
    from rattr.config import Config, State

    out = io.StringIO()
    with impl.in_dir(str(project)):
        _drop_config()
        impl.clear_caches_fast()
        try:
            with impl.Tap() as tap, contextlib.redirect_stdout(out):
                def go():
                    args = parse_arguments(sys_args=list(argv))
                    cfg = Config(arguments=args, state=State())
                    return main_mod.main(cfg)
                oc = impl.outcome_of(go)
        finally:
            _drop_config()
    return {"outcome": oc[0], "exc": "" if oc[0] == "ok" else str(oc[1]), "warnings": parse_warnings(tap.stderr),
            "stderr": tap.stderr}


def run_cli(project: Path, argv):
    env = dict(os.environ, PYTHONHASHSEED="0", PYTHONDONTWRITEBYTECODE="1")
    p = subprocess.run([sys.executable, "-m", "rattr", *argv], cwd=str(project), env=env, capture_output=True, text=True,
                       timeout=300)
    tb = "Traceback (most recent call last)" in p.stderr
    return {"outcome": "crash" if tb else ("ok" if p.returncode == 0 else "fatal"), "exit": p.returncode,
            "exc": p.stderr.strip().splitlines()[-1][:200] if tb else "", "warnings": parse_warnings(p.stderr)}


# ---------------------------------------------------------------------- the oracle


def cpython_namespaces(project: Path, files):
    """What CPython binds at module level: import every module of the project for real."""
    names = {}
    mods = {rel: (rel[:-3].replace("/", ".") if not rel.endswith("__init__.py") else rel[:-12].replace("/", "."))
            for rel in files}
    before = set(sys.modules)
    with impl.in_dir(str(project)):
        importlib.invalidate_caches()
        try:
            for rel, mn in mods.items():
                if not mn:
                    continue
                try:
                    with contextlib.redirect_stdout(io.StringIO()):
                        m = importlib.import_module(mn)
                    names[rel] = set(vars(m))
                except BaseException as e:   # noqa
                    names[rel] = None
                    names[rel + ":error"] = f"{type(e).__name__}: {e}"
        finally:
            for k in set(sys.modules) - before:
                if k.split(".")[0] in ("target", "ma", "mb", "pk"):
                    del sys.modules[k]
            importlib.invalidate_caches()
    return names


def binder_kinds(tree: ast.Module):
    """name -> list of syntactic kinds of the module-level constructs binding it (my own reading of
    the grammar; nothing of rattr is consulted)."""
    kinds = {}
    state = {"match": False}

    def add(n, k):
        # a construct that is second-class wherever it stands keeps its own class inside a `match` too
        inside = state["match"] and k not in ("dotted-import", "walrus-outside-assignment-statement")
        kinds.setdefault(n, []).append("binding-inside-match" if inside else k)

    def targets(t, k):
        if isinstance(t, ast.Name):
            add(t.id, k)
        elif isinstance(t, (ast.Tuple, ast.List)):
            for e in t.elts:
                targets(e, "tuple-" + k if not k.startswith("tuple-") else k)
        elif isinstance(t, ast.Starred):
            targets(t.value, k)

    def walrus(e, k):
        if e is None:
            return
        for n in ast.walk(e):
            if isinstance(n, ast.NamedExpr) and isinstance(n.target, ast.Name):
                add(n.target.id, k)

    def go(stmts):
        for s in stmts:
            if isinstance(s, ast.Import):
                for a in s.names:
                    if a.asname:
                        add(a.asname, "import-as")
                    elif "." in a.name:
                        add(a.name.split(".")[0], "dotted-import")
                    else:
                        add(a.name, "import")
            elif isinstance(s, ast.ImportFrom):
                for a in s.names:
                    if a.name == "*":
                        add("*", "star-import:" + (s.module or ""))
                    else:
                        add(a.asname or a.name, ("relative-" if s.level else "") + "from-import" + ("-as" if a.asname else ""))
            elif isinstance(s, ast.FunctionDef):
                add(s.name, "def")
            elif isinstance(s, ast.AsyncFunctionDef):
                add(s.name, "async-def")
            elif isinstance(s, ast.ClassDef):
                add(s.name, "class")
            elif isinstance(s, ast.Assign):
                v = s.value
                if isinstance(v, ast.Lambda):
                    k = "lambda"
                elif isinstance(v, ast.Call) and isinstance(v.func, ast.Name) and v.func.id == "namedtuple":
                    k = "namedtuple"
                else:
                    k = "assign" if len(s.targets) == 1 else "chained-assign"
                for t in s.targets:
                    targets(t, k)
                walrus(v, "walrus-in-assigned-value")
            elif isinstance(s, ast.AnnAssign):
                if s.value is not None:
                    targets(s.target, "ann-assign")
                    walrus(s.value, "walrus-in-assigned-value")
            elif isinstance(s, ast.AugAssign):
                targets(s.target, "aug-assign")
            elif isinstance(s, ast.Expr):
                walrus(s.value, "walrus-outside-assignment-statement")
            elif isinstance(s, (ast.If, ast.While)):
                walrus(s.test, "walrus-outside-assignment-statement")
                go(s.body)
                go(s.orelse)
            elif isinstance(s, (ast.For, ast.AsyncFor)):
                targets(s.target, "for-target")
                go(s.body)
                go(s.orelse)
            elif isinstance(s, (ast.With, ast.AsyncWith)):
                for i in s.items:
                    if i.optional_vars is not None:
                        targets(i.optional_vars, "with-target")
                go(s.body)
            elif isinstance(s, (ast.Try, getattr(ast, "TryStar", ast.Try))):
                go(s.body)
                for h in s.handlers:
                    go(h.body)
                go(s.orelse)
                go(s.finalbody)
            elif isinstance(s, ast.Match):
                old = state["match"]
                state["match"] = True
                for c in s.cases:
                    go(c.body)
                state["match"] = old
    go(tree.body)
    return kinds


# constructs that bind in Python but are (were) known not to reach rattr's root context: a name counts as bound
# by one of them only when nothing else binds it. "binding-inside-match" is repaired since /repo 6e8e4cc (visit_Match);
# the label stays as the syntactic class of the signature, which is no longer a known finding
SECOND_CLASS = ("dotted-import", "binding-inside-match", "walrus-outside-assignment-statement")
# [interp] the property lists "module-level definition, import or assignment": targets of a module-level
# `for` / `with` are bindings but none of the three; warnings about them are counted, not judged
NOT_JUDGED = ("for-target", "tuple-for-target", "with-target", "tuple-with-target")


def kind_of(kinds, name):
    ks = kinds.get(name)
    if not ks:
        return "via-star-import" if "*" in kinds else "not-syntactically-bound"
    first = [k for k in ks if k not in SECOND_CLASS and k not in NOT_JUDGED]
    if first:
        return first[0]            # the FIRST binding construct (rattr keeps the first symbol)
    second = [k for k in ks if k in SECOND_CLASS]
    return second[0] if second else ks[0]


def decorators_of(tree, name):
    out = set()
    for s in ast.walk(tree):
        if isinstance(s, (ast.FunctionDef, ast.AsyncFunctionDef, ast.ClassDef)) and s.name == name:
            for d in s.decorator_list:
                f = d.func if isinstance(d, ast.Call) else d
                if isinstance(f, ast.Name):
                    out.add(f.id)
    return out


def import_source(tree, name):
    """the module a from-import / import of `name` comes from (dotted), or None"""
    for s in ast.walk(tree):
        if isinstance(s, ast.Import):
            for a in s.names:
                if (a.asname or a.name.split(".")[0]) == name:
                    return a.name
        elif isinstance(s, ast.ImportFrom):
            for a in s.names:
                if (a.asname or a.name) == name:
                    return ("." * s.level) + (s.module or "")
    return None


def option_state(case, tree, name, kind):
    """every option-related syntactic fact about the binder of `name`, joined by `+` (`plain` if none)."""
    if kind in SECOND_CLASS or kind in NOT_JUDGED:
        return "plain"          # never registered whatever the options say: one root cause, one signature
    facts = []
    if kind in ("def", "async-def", "class"):
        decos = decorators_of(tree, name)
        if "rattr_ignore" in decos:
            facts.append("rattr_ignore")
        if "rattr_results" in decos:
            facts.append("rattr_results")
    if "import" in kind:
        src = (import_source(tree, name) or "").lstrip(".")
        if src and any(re.fullmatch(p, src) for p in case["exclude_imports"]):
            facts.append("from-F-excluded-module")
    if any(re.fullmatch(p, name) for p in case["exclude"]):
        facts.append("name-matches-exclude-pattern")
    return "+".join(facts) or "plain"


def file_of(case, shown):
    """the project file a printed path refers to (longest path-suffix match)"""
    best = None
    sp = Path(shown).parts
    for rel in case["files"]:
        rp = Path(rel).parts
        if len(rp) <= len(sp) and tuple(sp[-len(rp):]) == tuple(rp):
            if best is None or len(rp) > len(Path(best).parts):
                best = rel
    return best


def enclosing_function(tree, line, col):
    best = None
    for n in ast.walk(tree):
        if isinstance(n, (ast.FunctionDef, ast.AsyncFunctionDef, ast.Lambda)) and hasattr(n, "end_lineno"):
            if (n.lineno, n.col_offset) <= (line, col) < (n.end_lineno, n.end_col_offset):
                if best is None or (n.lineno, n.col_offset) > (best.lineno, best.col_offset):
                    best = n
    return best


def locally_bound(fn, name):
    """`name` is (also) bound inside the enclosing function: parameter or any store / del."""
    if fn is None:
        return False
    for n in ast.walk(fn):
        if isinstance(n, ast.arg) and n.arg == name:
            return True
        if isinstance(n, ast.Name) and n.id == name and isinstance(n.ctx, (ast.Store, ast.Del)):
            return True
        if isinstance(n, (ast.FunctionDef, ast.AsyncFunctionDef, ast.ClassDef)) and n is not fn and n.name == name:
            return True
    return False


def judge(case, run, trees, cpy, where_label, res, via):
    """violations of one run (in-process or CLI)."""
    out = []
    warned = {}
    for shown, line, col, name in run["warnings"]:
        rel = file_of(case, shown)
        if rel is None:
            res.count("opts:warning-in-file-outside-project")
            continue
        warned.setdefault(rel, set()).add(name)
        tree = trees[rel]
        ns = cpy.get(rel)
        is_builtin = name in BUILTINS or name in DUNDERS
        if not is_builtin and (ns is None or name not in ns):
            res.count("opts:warning:justified-or-unjudged")
            continue
        fn = enclosing_function(tree, line, col)
        if locally_bound(fn, name):
            res.count("opts:warning:name-also-bound-locally")
            continue
        kind = "builtin" if (is_builtin and (ns is None or name not in ns or name in DUNDERS)) else kind_of(binder_kinds(tree), name)
        if kind == "via-star-import":
            # the construct that binds the name in the star-imported module decides
            for star in binder_kinds(tree).get("*", []):
                src_rel = star.split(":", 1)[1].replace(".", "/") + ".py"
                if src_rel in trees:
                    k2 = kind_of(binder_kinds(trees[src_rel]), name)
                    if k2 in SECOND_CLASS or k2 in NOT_JUDGED:
                        kind = k2
                    break
        if kind in NOT_JUDGED:
            res.count("opts:warning:module-level-for-or-with-target:not-judged")
            continue
        state = option_state(case, tree, name, kind)
        sig = "spurious-warning:module-level-" + kind + ("" if state == "plain" else ":" + state)
        res.count("opts:verdict:" + sig)
        out.append({"signature": sig, "name": name, "file": rel, "line": line, "col": col, "via": via,
                    "where": "target" if rel == "target.py" else "followed-import"})
    # must-warn: a name bound nowhere, loaded by a plain module-level def that the options leave analysed
    if run["outcome"] == "ok":
        for rel, tree in trees.items():
            if rel != "target.py":
                continue        # which imports are followed is C12's subject; the target always is analysed
            bound_anywhere = {n.id for n in ast.walk(tree) if isinstance(n, ast.Name) and isinstance(n.ctx, (ast.Store, ast.Del))} \
                | {n.arg for n in ast.walk(tree) if isinstance(n, ast.arg)} | set(cpy.get(rel) or ())
            for s in tree.body:
                if not isinstance(s, (ast.FunctionDef, ast.AsyncFunctionDef)):
                    continue
                if s.decorator_list or any(re.fullmatch(p, s.name) for p in case["exclude"]):
                    continue
                for n in ast.walk(s):
                    if isinstance(n, ast.Name) and isinstance(n.ctx, ast.Load) and n.id.startswith("undef_") \
                            and n.id not in bound_anywhere and n.id not in BUILTINS:
                        if n.id in warned.get(rel, ()):
                            res.count("opts:must-warn:warned")
                        else:
                            sig = "missing-warning:undefined-name:in-analysed-function-under-options"
                            res.count("opts:verdict:" + sig)
                            out.append({"signature": sig, "name": n.id, "file": rel, "line": n.lineno, "col": n.col_offset,
                                        "via": via, "where": "target"})
    return out


# ---------------------------------------------------------------------- the stage


def case_json(case, argv):
    return {"stage": "options", "argv": argv, "exclude": case["exclude"], "exclude_imports": case["exclude_imports"],
            "level": case["level"], "channel": case["channel"], "files": case["files"]}


def model_stage(res, case, project, model):
    """every module of the project through the Lean root-context / file-analyser model under the
    run's exclusion patterns."""
    cases = []
    for rel, src in case["files"].items():
        if not src:
            continue
        try:
            c = filelib.run_case(project, rel, src, excluded=case["exclude"], excluded_imports=case["exclude_imports"],
                                 extra_config={"_follow_imports_level": case["level"]})
        except SyntaxError:
            continue
        cases.append(c)
    live = [c for c in cases if c.skipped is None]
    for c in cases:
        if c.skipped is not None:
            res.skipped_outside_fragment += 1
            res.count("opts:model:skipped:" + c.skipped[:40])
    reqs = []
    for c in live:
        reqs.append(("root_context", c.payload))
        reqs.append(("analyse_file", c.payload))
    return live, reqs


def run_options_stage(res, rng, n, model, n_cli=24, n_model=40, keep=None):
    gen = ProjectGen(rng)
    work = [gen.project() for _ in range(n)] + [dict(c) for c in CURATED]       # generated first: they own the replays
    cli_idx = set(range(n, len(work))) | set(rng.sample(range(n), min(n_cli, n)))
    model_idx = set(range(n, len(work))) | set(rng.sample(range(n), min(n_model, n)))
    projects = []
    pending = []           # (index, live cases, first request offset)
    reqs = []
    try:
        for i, case in enumerate(work):
            project, argv = write_project(case)
            projects.append(project)
            case["argv"], case["project"] = argv, project
            trees = {rel: ast.parse(src) for rel, src in case["files"].items() if src}
            cpy = cpython_namespaces(project, [rel for rel in case["files"] if case["files"][rel]])
            for rel in trees:
                if cpy.get(rel) is None:
                    res.internal_errors.append({"what": "generated module does not import under CPython", "file": rel,
                                                "error": cpy.get(rel + ":error"), "case": case_json(case, argv)})
            case["trees"], case["cpy"] = trees, cpy
            run = run_inprocess(project, argv)
            case["run"] = run
            res.evaluations += 1
            res.count("opts:level:%d" % case["level"])
            res.count("opts:channel:" + case["channel"])
            res.count("opts:exclude-patterns:%d" % len(case["exclude"]))
            res.count("opts:exclude-imports:%d" % len(case["exclude_imports"]))
            res.count("opts:outcome:" + run["outcome"] + ((":" + run["exc"][:60]) if run["outcome"] == "crash" else ""))
            for rel, tree in trees.items():
                kinds = binder_kinds(tree)
                for name, ks in kinds.items():
                    if name == "*":
                        continue
                    k = kind_of(kinds, name)
                    st = option_state(case, tree, name, k)
                    res.count("opts:binder:" + k + ("" if st == "plain" else ":" + st))
            for v in judge(case, run, trees, cpy, "in-process", res, "in-process"):
                v["case"] = case_json(case, argv)
                res.violations.append(v)
            if any(case["exclude"]) and run["outcome"] == "ok":
                res.nontrivial.add(common.digest(json.dumps(case["files"], sort_keys=True) + repr(argv)))
            if i in model_idx:
                live, rq = model_stage(res, case, project, model)
                pending.append((i, live, len(reqs)))
                reqs += rq
        # the real CLI, in parallel subprocesses
        idx = sorted(cli_idx)
        with ThreadPoolExecutor(max_workers=8) as ex:
            outs = list(ex.map(lambda j: run_cli(work[j]["project"], work[j]["argv"]), idx))
        for j, cr in zip(idx, outs):
            case = work[j]
            res.evaluations += 1
            res.count("opts:cli:outcome:" + cr["outcome"])
            same = sorted(set(cr["warnings"])) == sorted(set(case["run"]["warnings"])) and cr["outcome"] == case["run"]["outcome"]
            res.count("opts:cli:" + ("same-warnings-as-in-process" if same else "differs-from-in-process"))
            for v in judge(case, cr, case["trees"], case["cpy"], "cli", res, "cli"):
                v["case"] = case_json(case, case["argv"])
                res.violations.append(v)
        # the model
        outs = model.batch(reqs) if reqs else []
        for i, live, off in pending:
            case = work[i]
            for k, c in enumerate(live):
                rmo, fmo = outs[off + 2 * k], outs[off + 2 * k + 1]
                res.evaluations += 1
                res.count("opts:model:root:" + c.root_im["outcome"])
                d = filelib.compare_root(c.root_im, rmo)
                if d is None and c.file_im is not None:
                    res.count("opts:model:file:" + c.file_im["outcome"])
                    d = filelib.compare_file(c.file_im, fmo)
                if d is not None:
                    res.disagreements.append({"case": {"stage": "options/root-context+file-analyser", "target": c.target,
                                                       "exclude": case["exclude"], "module": c.src}, "diff": d[:2000]})
                if keep is not None:
                    keep.append((case, c, d))
    finally:
        for p in projects:
            shutil.rmtree(p, ignore_errors=True)
    for case in work:
        res.sample({"argv": case["argv"], "files": sorted(case["files"]), "warnings": [list(w) for w in case["run"]["warnings"]][:6]}, cap=5)
    return work


def replay(d):
    """re-run one recorded options case through the real CLI and in-process; 1 if the violation reproduces."""
    cj = d["case"]
    case = {"files": cj["files"], "exclude": cj["exclude"], "exclude_imports": cj["exclude_imports"], "level": cj["level"],
            "channel": cj["channel"]}
    res = common.Result("REPLAY")
    project, argv = write_project(case)
    try:
        trees = {rel: ast.parse(src) for rel, src in case["files"].items() if src}
        cpy = cpython_namespaces(project, list(trees))
        print("$ (cd <project>; python -m rattr " + " ".join(argv) + ")")
        for rel, src in case["files"].items():
            print(f"--- {rel}")
            print(src)
        hit = 0
        for via, run in (("cli", run_cli(project, argv)), ("in-process", run_inprocess(project, argv))):
            print(f"[{via}] outcome={run['outcome']} undefined-name warnings: {sorted(set(run['warnings']))}")
            for v in judge(case, run, trees, cpy, via, res, via):
                mark = "  <== the recorded violation" if (v["signature"], v["name"], v["file"]) == (d.get("signature"), d.get("name"), d.get("file")) else ""
                print(f"[{via}] VIOLATION {v['signature']}: '{v['name']}' at {v['file']}:{v['line']}:{v['col']}{mark}")
                hit += bool(mark)
    finally:
        shutil.rmtree(project, ignore_errors=True)
    print("reproduced" if hit else "not reproduced")
    return 1 if hit else 0


if __name__ == "__main__":      # development aid: python py/props/c17opts.py [seed] [n] [n_cli]
    import random
    import warnings as _w

    _w.simplefilter("ignore")
    seed = int(sys.argv[1]) if len(sys.argv) > 1 else 0
    n = int(sys.argv[2]) if len(sys.argv) > 2 else 20
    ncli = int(sys.argv[3]) if len(sys.argv) > 3 else 4
    res = common.Result("DEV")
    import time
    t0 = time.time()
    keep = []
    run_options_stage(res, random.Random(seed), n, common.Model(), n_cli=ncli, n_model=n, keep=keep)
    print(json.dumps(res.distribution, indent=1, sort_keys=True))
    print("evaluations", res.evaluations, "violations", len(res.violations), "disagreements", len(res.disagreements),
          "internal", len(res.internal_errors), "wall %.1fs" % (time.time() - t0))
    seen = set()
    for v in res.violations:
        if v["signature"] in seen:
            continue
        seen.add(v["signature"])
        print("=" * 100)
        print(v["signature"], v["name"], v["file"], v["line"], v["via"], v["case"]["argv"])
        print(v["case"]["files"][v["file"]])
    for d in res.disagreements[:3]:
        print("=" * 100)
        print(d["case"]["target"], d["case"]["exclude"])
        print(d["case"]["module"])
        print(d["diff"])
    for e in res.internal_errors[:3]:
        print("INTERNAL", e["what"], e["file"], e["error"])
        print(e["case"]["files"][e["file"]])

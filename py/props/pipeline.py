"""Correspondence of the WHOLE single-file pipeline (S2 root context -> S4 file / class / function
analysers -> S6 result generation -> the printed document).

`run_pipeline_stage(res, rng, n, model)` generates `n` single-file modules with a call graph among
their callables (+ a curated list), and demands for each: the Lean model `Pipeline.run` (op
`pipeline`, input = the module's AST encoding + location facts) produces exactly

  * the outcome class of the REAL `rattr.__main__.main` run in-process with
    `-o results --follow-imports 0` (results / fatal + which / exception class),
  * the printed results document (function name -> sorted gets / sets / dels / calls),
  * every diagnostic of the three stages, in emission order (pre-filter tap).

A sample is also run through the real CLI in a subprocess (`python -m rattr …`) and its stdout /
exit status compared with the model.  Disagreements go to `res.disagreements`.

Outside the fragment (counted in `res.skipped_outside_fragment`, keys `pipeline:skipped:*`):
  * what `filelib.Encoder` cannot encode (see filelib / FileAnalyser.lean header);
  * starred imports (`expand_starred_imports` reads other files; the generator does not emit them);
  * modules whose document depends on CPython's hash order: some function holds >= 2 distinct
    resolvable Call symbols with one name, and the model's answer differs between the two orders of
    the tie (a C05 known finding, not this stage's subject); >= 3-way ties are skipped outright.
"""
from __future__ import annotations

import contextlib
import io
import json
import os
import re
import subprocess
import sys
from unittest import mock
from pathlib import Path

sys.path.insert(0, str(Path(__file__).resolve().parent.parent))

import common  # noqa: E402
import impl  # noqa: E402
from props import filegen, filelib
from props import visitlib as vl

from rattr.analyser.util import is_excluded_name
from rattr.cli import parse_arguments
from rattr.config import Config, State
from rattr.config._types import ConfigMetaclass
from rattr.module_locator.util import find_module_name_and_spec, is_in_import_blacklist

EXCLUDE = filegen.EXCLUDE_PATTERNS
EXCLUDE_IMPORTS = ["ghost_.*"]      # a blacklisted module need not exist: calls to its members raise ImportError in S6


def argv_for(target_rel):
    a = ["-o", "results", "-f", "0", "-w", "all"]
    for p in EXCLUDE:
        a += ["-x", p]
    for p in EXCLUDE_IMPORTS:
        a += ["-F", p]
    return a + [target_rel]


# ------------------------------------------------------------------ diagnostics of the results stage


def _lst(s):
    return ".".join(x.strip().strip("'\"") for x in s.split(",") if x.strip())


RESULT_TEMPLATES = [
    (re.compile(r"^unable to resolve call to '(.*)' in '(.*)', the target matches an exclusion$"), "call-excluded", lambda m: f"{m[1]}|{m[2]}"),
    (re.compile(r"^unable to resolve call to '(.*)' in '(.*)', the target is likely a nested function or @rattr_ignore'd$"),
     "call-unresolved-nested", lambda m: f"{m[1]}|{m[2]}"),
    (re.compile(r"^unable to resolve call to '(.*)' in '([^']*)'$"), "call-unresolved-member", lambda m: f"{m[1]}|{m[2]}"),
    (re.compile(r"^unable to resolve initialiser for '(.*)'$"), "init-unresolved", lambda m: m[1]),
    (re.compile(r"^ignoring call to '(.*)' imported from local module$"), "import-ignored-local", lambda m: m[1]),
    (re.compile(r"^call to '(.*)' expected \d+ posonlyargs but only received \d+ positional arguments$"), "swaps-posonly-short", lambda m: m[1]),
    (re.compile(r"^call to '(.*)' received too many positional arguments$"), "swaps-too-many-positional", lambda m: m[1]),
    (re.compile(r"^call to '(.*)' received unexpected keyword arguments: \[(.*)\]$"), "swaps-unexpected-keywords", lambda m: f"{m[1]}|{_lst(m[2])}"),
    (re.compile(r"^call to '(.*)' received the arguments \[(.*)\] by position and name$"), "swaps-by-position-and-name", lambda m: f"{m[1]}|{_lst(m[2])}"),
]


def template_of(ev):
    msg = ev["message"]
    for pat, tid, arg in RESULT_TEMPLATES:
        m = pat.match(msg)
        if m:
            return [ev["level"], tid, arg(m)]
    return filelib.template_of(ev)


# ------------------------------------------------------------------ the real thing, in-process


def _drop_config():
    ConfigMetaclass._instance = None
    try:
        Config._instance = None
    except Exception:
        pass


def real_pipeline(project: Path, target_rel: str):
    """`rattr.__main__.main` on project/target_rel: outcome, printed document, tapped diagnostics."""
    import rattr.__main__ as main_mod

    out = io.StringIO()
    with impl.in_dir(str(project)):
        _drop_config()
        impl.clear_caches_fast()
        try:
            with impl.Tap():            # argument validation may warn ("follow imports not set"): not the pipeline's
                args = parse_arguments(sys_args=argv_for(target_rel))
                cfg = Config(arguments=args, state=State())
            captured = {}
            orig = main_mod.generate_results_from_ir

            def gen(*, target_ir, import_irs):
                captured["ir"] = target_ir
                return orig(target_ir=target_ir, import_irs=import_irs)

            with impl.Tap() as tap, contextlib.redirect_stdout(out), mock.patch.object(main_mod, "generate_results_from_ir", gen):
                oc = impl.outcome_of(main_mod.main, cfg)
        finally:
            _drop_config()
    diags = [template_of(e) for e in tap.events]
    r = {"diags": filelib.canon_diags(diags), "stdout": out.getvalue(), "store": None}
    if oc[0] == "ok" and "ir" in captured:
        # the FileIr as result generation left it (what `-o ir` would print afterwards)
        r["store"] = [{"name": k.name, "gets": vl.names_json(v["gets"]), "sets": vl.names_json(v["sets"]),
                       "dels": vl.names_json(v["dels"])} for k, v in captured["ir"]._file_ir.items()]
    if oc[0] == "ok":
        r["outcome"], r["exc"] = "ok", ""
        try:
            doc = json.loads(out.getvalue())
            r["doc"] = {k: {f: sorted(v[f]) for f in ("gets", "sets", "dels", "calls")} for k, v in doc.items()}
        except Exception as e:  # noqa
            r["outcome"], r["exc"] = "crash", "unparseable-stdout:" + type(e).__name__
    elif oc[0] == "fatal":
        fat = [d for d in diags if d[0] == "fatal"]
        r["outcome"], r["exc"] = "fatal", (fat[0][1] if fat else "")
    else:
        r["outcome"], r["exc"] = "crash", oc[1]
    return r


def import_fact(qual):
    mn = find_module_name_and_spec(qual)[0]          # = Import(qualified_name=qual).module_name
    return {"found": mn is not None, "blacklisted": bool(mn is not None and is_in_import_blacklist(mn))}


def cli_run(project: Path, target_rel: str, hashseed=0):
    env = dict(os.environ, PYTHONHASHSEED=str(hashseed), PYTHONDONTWRITEBYTECODE="1")
    p = subprocess.run([sys.executable, "-m", "rattr", *argv_for(target_rel)], cwd=str(project), env=env,
                       capture_output=True, text=True, timeout=120)
    r = {"exit": p.returncode, "traceback": "Traceback (most recent call last)" in p.stderr}
    if p.returncode == 0:
        try:
            doc = json.loads(p.stdout)
            r["doc"] = {k: {f: sorted(v[f]) for f in ("gets", "sets", "dels", "calls")} for k, v in doc.items()}
        except Exception:  # noqa
            r["doc"] = None
    return r


# ------------------------------------------------------------------ comparison


def model_doc(mo):
    d = {}
    for name, ent in mo["doc"]:
        d[name] = {f: list(ent[f]) for f in ("gets", "sets", "dels", "calls")}     # later key overwrites, as a dict
    return d


def compare(im, mo):
    if "__error__" in mo:
        return "model error: " + str(mo["__error__"])
    if im["outcome"] != mo["outcome"]:
        return f"outcome: impl={im['outcome']}/{im['exc']} model={mo['outcome']}/{mo.get('exc')}"
    if im["outcome"] == "crash":
        return None if im["exc"] == mo["exc"] else f"crash class: impl={im['exc']} model={mo['exc']}"
    md = filelib.canon_diags(mo["diags"])
    if im["diags"] != md:
        for i, (a, b) in enumerate(zip(im["diags"], md)):
            if a != b:
                return f"diag #{i}: impl={a} model={b}"
        return f"diags: impl has {len(im['diags'])}, model {len(md)}: impl tail={im['diags'][len(md):][:3]} model tail={md[len(im['diags']):][:3]}"
    if im["outcome"] == "fatal":
        return None         # the fatal diagnostic is the last of the (equal) diagnostic lists
    want, got = im["doc"], model_doc(mo)
    if sorted(want) != sorted(got):
        return f"document functions: impl={sorted(want)} model={sorted(got)}"
    for fn in want:
        for f in ("gets", "sets", "dels", "calls"):
            if want[fn][f] != got[fn][f]:
                return f"document[{fn}].{f}: impl={want[fn][f]} model={got[fn][f]}"
    if im.get("store") is not None:
        ms = [{"name": e["name"], **{f: sorted(map(list, {tuple(n) for n in e[f]})) for f in ("gets", "sets", "dels")}}
              for e in (mo.get("store") or [])]
        if im["store"] != ms:
            for a, b in zip(im["store"], ms):
                if a != b:
                    return f"IR after result generation, {a['name']}: impl={a} model={b}"
            return f"IR after result generation: impl has {len(im['store'])} keys, model {len(ms)}"
    return None


def compare_cli(cli, mo):
    if "__error__" in mo:
        return "model error: " + str(mo["__error__"])
    if mo["outcome"] == "ok":
        if cli["exit"] != 0 or cli.get("doc") is None:
            return f"CLI exit {cli['exit']} / unparseable, model: results"
        got = model_doc(mo)
        if cli["doc"] != got:
            for fn in sorted(set(cli["doc"]) | set(got)):
                if cli["doc"].get(fn) != got.get(fn):
                    return f"CLI document[{fn}]: cli={cli['doc'].get(fn)} model={got.get(fn)}"
        return None
    if mo["outcome"] == "fatal":
        return None if (cli["exit"] == 1 and not cli["traceback"]) else f"CLI exit {cli['exit']} traceback={cli['traceback']}, model: fatal"
    return None if (cli["exit"] != 0 and cli["traceback"]) else f"CLI exit {cli['exit']} traceback={cli['traceback']}, model: crash {mo['exc']}"


# ------------------------------------------------------------------ the stage


class PCase:
    __slots__ = ("src", "target", "project", "payload", "im", "mo", "mo_rev", "skipped", "diff")


def run_pipeline_stage(res, rng, n, model, cli_sample=6, hostile=0.02, keep=None, curated=True, class_targets=False, extra=None):
    work = list(filegen.PIPELINE_CURATED) if curated else []
    if class_targets:
        work += list(filegen.PIPELINE_CURATED_INSTANCES)
    work += list(extra or [])       # (additive) further (target, source) modules of the caller
    for _ in range(n):
        src, target = filegen.gen_pipeline_module(rng, hostile=hostile, class_targets=class_targets)
        work.append((target, src))
    cases, projects = [], []
    try:
        for target, src in work:
            c = PCase()
            c.src, c.target, c.skipped, c.diff, c.mo, c.mo_rev, c.im = src, target, None, None, None, None, None
            c.project = filelib.make_project()
            projects.append(c.project)
            try:
                fc = filelib.run_case(c.project, target, src, excluded=EXCLUDE, excluded_imports=EXCLUDE_IMPORTS)
            except SyntaxError:
                continue
            if fc.skipped is not None:
                c.skipped = fc.skipped
                cases.append(c)
                continue
            c.payload = fc.payload
            c.im = real_pipeline(c.project, target)
            cases.append(c)
        live = [c for c in cases if c.skipped is None]
        # pass 1: what facts does the results stage need?
        outs = model.batch([("pipeline", c.payload) for c in live])
        for c, mo in zip(live, outs):
            c.mo = mo
            if "__error__" in mo:
                continue
            names = mo.get("callTargets", [])
            quals = mo.get("needImports", [])
            with impl.in_dir(str(c.project)):
                impl.reset_config(target=Path(c.target), _excluded_names=list(EXCLUDE), _follow_imports_level=0,
                                  _excluded_imports=list(EXCLUDE_IMPORTS))
                ex = set(c.payload["facts"]["excluded"]) | {x for x in names if is_excluded_name(x)}
                c.payload = {**c.payload, "facts": {**c.payload["facts"], "excluded": sorted(ex)},
                             "imports": [[q, import_fact(q)] for q in quals]}
        # pass 2: the run; pass 3: the reversed tie order where a 2-way tie exists
        live2 = [c for c in live if "__error__" not in c.mo]
        for c, mo in zip(live2, model.batch([("pipeline", c.payload) for c in live2])):
            c.mo = mo
        live3 = [c for c in live2 if "__error__" not in c.mo and c.mo.get("maxTie", 0) == 2]
        for c, mo in zip(live3, model.batch([("pipeline", {**c.payload, "ties": "reversed"}) for c in live3])):
            c.mo_rev = mo
        for c in cases:
            if c.skipped is not None:
                res.skipped_outside_fragment += 1
                res.count("pipeline:skipped:" + c.skipped[:40])
                continue
            mo = c.mo
            if "__error__" not in mo and mo.get("outcome") == "crash" and str(mo.get("exc", "")).startswith("Outside:"):
                res.skipped_outside_fragment += 1
                res.count("pipeline:skipped:" + mo["exc"])
                c.skipped = mo["exc"]
                continue
            if "__error__" not in mo and mo.get("maxTie", 0) >= 3:
                res.skipped_outside_fragment += 1
                res.count("pipeline:skipped:hash-order:3-way tie of equal-named calls")
                c.skipped = "tie3"
                continue
            if c.mo_rev is not None and "__error__" not in c.mo_rev and "__error__" not in mo:
                def proj(m):
                    st = [{k: (sorted(map(tuple, v)) if isinstance(v, list) else v) for k, v in e.items()} for e in (m.get("store") or [])]
                    return (m.get("outcome"), m.get("doc"), m.get("diags"), st)
                if proj(mo) != proj(c.mo_rev):
                    res.skipped_outside_fragment += 1
                    res.count("pipeline:skipped:hash-order:document depends on the order of a tie")
                    c.skipped = "tie2"
                    continue
                res.count("pipeline:tie-order-irrelevant")
            res.evaluations += 1
            im = c.im
            res.count("pipeline:outcome:" + im["outcome"] + (":" + im["exc"] if im["outcome"] != "ok" else ""))
            if im["outcome"] == "ok":
                nfn = len(im["doc"])
                for d in im["diags"]:
                    if d[1].startswith(("call-", "init-", "import-", "swaps-")) and d[1] not in vl_ids():
                        res.count("pipeline:results-diag:" + d[1])
                res.count("pipeline:functions", nfn)
                if "__error__" not in mo:
                    res.count("pipeline:resolvable-call-edges", mo.get("edges", 0))
                    res.count("pipeline:resolvable-class-initialiser-edges", mo.get("clsEdges", 0))
                    res.count(f"pipeline:call-tree-depth:{min(mo.get('depth', 0), 4)}")
                    if mo.get("edges", 0) >= 1:
                        res.nontrivial.add(common.digest(c.src))
            c.diff = compare(im, mo)
            if c.diff is not None:
                res.disagreements.append({"case": {"stage": "pipeline", "target": c.target, "module": c.src}, "diff": c.diff[:2000]})
            if keep is not None:
                keep.append(c)
        # the real CLI in a subprocess, on a sample
        sample = [c for c in cases if c.skipped is None and c.mo is not None and "__error__" not in c.mo][:]
        rng.shuffle(sample)
        sample = sample[:cli_sample]
        for c in sample:
            # the file of this case is still on disk in its own project
            cli = cli_run(c.project, c.target, hashseed=rng.randrange(1, 1000))
            res.count("pipeline:cli:exit:" + str(cli["exit"]))
            d = compare_cli(cli, c.mo)
            if d is not None:
                res.disagreements.append({"case": {"stage": "pipeline-cli", "target": c.target, "module": c.src}, "diff": d[:2000]})
    finally:
        for p in projects:
            filelib.drop_project(p)
    return cases


_VL = None


def vl_ids():
    global _VL
    if _VL is None:
        _VL = {t for _, t in vl.TEMPLATES}
    return _VL


if __name__ == "__main__":      # development aid: python py/props/pipeline.py [seed] [n] [show]
    import random
    import time
    import warnings

    warnings.simplefilter("ignore")
    seed = int(sys.argv[1]) if len(sys.argv) > 1 else 0
    n = int(sys.argv[2]) if len(sys.argv) > 2 else 20
    res = common.Result("DEV")
    t0 = time.time()
    keep = []
    run_pipeline_stage(res, random.Random(seed), n, common.Model(), keep=keep)
    print(json.dumps(res.distribution, indent=1, sort_keys=True))
    print("evaluations", res.evaluations, "skipped", res.skipped_outside_fragment, "nontrivial", len(res.nontrivial),
          "disagreements", len(res.disagreements), "wall", round(time.time() - t0, 1))
    for d in res.disagreements[:int(sys.argv[3]) if len(sys.argv) > 3 else 3]:
        print("=" * 100)
        print(d["case"]["target"], d["case"]["stage"])
        m = d["case"]["module"]
        print(m[m.index("other_glob = [1, 2]"):] if "other_glob = [1, 2]" in m else m)
        print("-" * 100)
        print(d["diff"])

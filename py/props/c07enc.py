"""C07, round 4 (b) — the OUTPUT side: every document rattr writes x text that stresses the encoder x environment.

"exits 0 with well-formed JSON output": the analysis can succeed and the run still die while WRITING — `print(serialise(…))`
(`-o results | ir | cacheable`) and `cache_file.write_text(serialise(…))` (`-C`, also under `-o silent`) hand a str to a
stream with an encoding. rattr is safe exactly because `serialise` leaves json's `ensure_ascii=True`: the text is pure
ASCII whatever the names are (lean/RattrModel/OutputEncode.lean proves that, Tie A pins `serialise` and its callers).
Names come from identifiers (PEP 3131: any XID letters) and from STRING LITERALS (getattr / setattr / hasattr / delattr
second argument), which may hold code points no UTF codec accepts (lone surrogates), control characters, quotes.

    text     : literal attribute names (lone high / low surrogate, an unpaired pair written as two escapes, astral, NUL, ESC,
               newline, U+2028, DEL, Latin-1, U+FFFF, BOM, quote, backslash, empty, dotted, CJK) in each getattr-family call, in
               string subscripts / dict keys / keyword values / namedtuple fields / rattr_results names; non-ASCII identifiers in
               every role (function, parameter, attribute, class, method, lambda, import alias, enum member, module FILE name)
    document : -o results | ir | cacheable | stats | silent, -C cache (with silent / results), second run on the cache
    place    : target, followed import
    env      : default, PYTHONIOENCODING = ascii | ascii:strict | utf-8 | latin-1 | cp1252, LANG/LC_ALL = C (Python coerces to
               UTF-8), LC_ALL=C with coercion and UTF-8 mode off (a real ASCII locale: ASCII-only SOURCE files, the text is in escapes)

Oracle: the usual classes; in addition stdout must DECODE in the stream's encoding before it is parsed, and a cache file
written by an exit-0 run must be JSON.
"""
from __future__ import annotations

from common import digest as common_digest

LITERALS = [
    ("lone-high-surrogate", "\\ud83d"), ("lone-low-surrogate", "\\udc00"), ("surrogateescape-byte", "\\udcff"),
    ("unpaired-pair", "\\ud83d\\ude00"), ("reversed-pair", "\\ude00\\ud83d"), ("astral-escape", "\\U0001F600"), ("astral-char", "\U0001F600"),
    ("nul", "\\x00"), ("esc", "\\x1b[31m"), ("newline", "a\\nb"), ("line-separator", "\\u2028"), ("del", "\\x7f"), ("c1", "\\x85"),
    ("latin1-escape", "h\\xf6he"), ("latin1-char", "höhe"), ("ffff", "\\uffff"), ("bom", "\\ufeff"), ("quote", "\\\"q\\\""),
    ("backslash", "\\\\n"), ("empty", ""), ("dotted", "a.b"), ("space", "a b"), ("cjk", "名字"), ("cjk-escape", "\\u540d\\u5b57"),
    ("max", "\\U0010ffff"), ("mixed", "x\\ud800y\\U0001F600z\\x01"),
]
LIT = dict(LITERALS)
ASCII_ONLY = [k for k, v in LITERALS if v.isascii()]
FAMILY = ["getattr", "setattr", "hasattr", "delattr"]


def xattr_call(fn, lit, obj="o"):
    return f'setattr({obj}, "{LIT[lit]}", 1)' if fn == "setattr" else f'{fn}({obj}, "{LIT[lit]}")'


def literal_module(lits, fns=FAMILY, shapes=("call",)):
    """one function per (literal, builtin): the literal is the attribute NAME of a getattr-family call; + a caller."""
    out, names = [], []
    for i, lit in enumerate(lits):
        for fn in fns:
            n = f"f_{fn}_{i}"
            names.append(n)
            lines = [f"def {n}(o):"]
            if "call" in shapes:
                lines.append(f"    r = {xattr_call(fn, lit)}")
            if "chain" in shapes:
                lines.append(f"    r = {xattr_call('getattr', lit)}.tail")
                lines.append(f"    r = getattr({xattr_call('getattr', lit)}, 'plain')")
            if "subscript" in shapes:
                lines.append(f'    r = o["{LIT[lit]}"].sub')
                lines.append(f'    o.d["{LIT[lit]}"] = 1')
            if "other" in shapes:
                lines.append(f'    r = o.call(key="{LIT[lit]}", **{{"{LIT[lit]}": o.v}})')
                lines.append(f'    r = {{"{LIT[lit]}": o.k}}, b"\\xff", f"{{o.fs}}{LIT[lit] if lit not in ("quote", "backslash") else ""}"')
            lines.append("    return r")
            out.append("\n".join(lines))
    caller = "def caller(thing):\n    return [" + ", ".join(f"{n}(thing)" for n in names[:40]) + "]"
    return "\n\n\n".join(out + [caller]) + "\n"


IDENT_MODULE = '''\
from enum import Enum
from collections import namedtuple
import json as jäson
from os.path import join as verknüpfe


class Färbe(Enum):
    RÖT = 1
    γράμμα = 2


class Kästen:
    def __init__(self, größe, *übrige, **schlüssel):
        self.höhe = größe.höhe
        self.名字 = größe.名字

    @staticmethod
    def fläche(kiste):
        return kiste.höhe * kiste.breite


Paär = namedtuple("Paär", ["lïnks", "rechts"])
λ = lambda α: α.β


def größe(kiste, *, größer=None):
    örtlich = kiste.höhe
    return örtlich * kiste.breite, λ(kiste), jäson.dumps(kiste.j), verknüpfe(kiste.a, kiste.b)


def fläche(kiste, \U0001d431=1):
    return größe(kiste, größer=kiste.größer), Kästen(kiste), Kästen.fläche(kiste), Färbe(kiste.f), Paär(kiste.l, kiste.r)


def ungültig(kiste):
    return nicht_definiert_ä(kiste.wert)
'''

ANNOTATED = '''\
from rattr.analyser.annotations import rattr_results


@rattr_results(gets={{"a.{0}"}}, sets={{"a.ok"}})
def annotated(a):
    return a.x


def caller(q):
    return annotated(q)
'''

NAMEDTUPLE = '''\
from collections import namedtuple

P = namedtuple("P", ["x", "{0}"])
Q = namedtuple("{0}", "a b")


def make(o):
    return P(o.x, o.y), Q(o.a, o.b)
'''

MODES = {
    "results": ["-o", "results"], "ir": ["-o", "ir"], "cacheable": ["-o", "cacheable"], "stats": ["-o", "stats"], "silent": ["-o", "silent"],
    "cache+silent": ["-o", "silent", "-C", "enc-cache.json"], "cache+results": ["-C", "enc-cache.json"], "default": [],
    "strict+results": ["--strict"], "wall+ir": ["-w", "all", "-o", "ir"],
}
JSON_MODES = ["results", "ir", "cacheable", "cache+silent", "cache+results"]
ENVS = {
    "default": ({}, "utf-8"),
    "io-ascii": ({"PYTHONIOENCODING": "ascii", "PYTHONUTF8": "1"}, "ascii"),
    "io-ascii-strict": ({"PYTHONIOENCODING": "ascii:strict", "PYTHONUTF8": "1"}, "ascii"),
    "io-utf8": ({"PYTHONIOENCODING": "utf-8"}, "utf-8"),
    "io-latin1": ({"PYTHONIOENCODING": "latin-1", "PYTHONUTF8": "1"}, "latin-1"),
    "io-cp1252": ({"PYTHONIOENCODING": "cp1252", "PYTHONUTF8": "1"}, "cp1252"),
    "lang-c": ({"LANG": "C", "LC_ALL": "C"}, "utf-8"),
    "lang-c-utf8": ({"LANG": "C.UTF-8", "LC_ALL": "C.UTF-8"}, "utf-8"),
    # a real ASCII locale: no coercion, no UTF-8 mode (stdin/stdout ascii:strict, open() ascii) — ASCII-only source files
    "ascii-locale": ({"LANG": "C", "LC_ALL": "C", "PYTHONUTF8": "0", "PYTHONCOERCECLOCALE": "0"}, "ascii"),
}
UTF8_SOURCE_ENVS = [e for e in ENVS if e != "ascii-locale"]


def encoding_corpus(rng, tier):
    rows = []

    def add(name, text, mode, env, where="target", pre_runs=0, target_name="target.py", extra_files=None):
        files = dict(extra_files or {})
        if where == "target":
            files[target_name] = text
            target = target_name
        elif where == "followed":
            files["lib.py"] = text
            files["target.py"] = "import lib\nfrom lib import caller\n\n\ndef main(r):\n    return caller(r), lib.caller(r)\n"
            target = "target.py"
        else:
            raise ValueError(where)
        vars_, enc = ENVS[env]
        row = {"row": f"enc:{name}:{mode}:{env}:{where}" + (f":run{pre_runs + 1}" if pre_runs else ""), "files": files, "target": target,
               "opts": list(MODES[mode]), "env": dict(vars_), "stdout_encoding": enc, "kind": "encoding", "pre_runs": pre_runs,
               "tags": [f"enc-env:{env}", f"enc-mode:{mode}", f"enc-text:{name.split(':')[0]}"]}
        if "-C" in row["opts"]:
            row["cache_check"] = "enc-cache.json"
        rows.append(row)

    surrogate = literal_module(["lone-high-surrogate"], ["getattr"])                       # pure ASCII file
    escapes = literal_module(ASCII_ONLY, shapes=("call", "chain"))                           # pure ASCII file, every literal
    everything = literal_module([k for k, _ in LITERALS], shapes=("call", "subscript", "other"))
    # (1) the documents x the environments, on three texts
    for mode in JSON_MODES + ["stats", "silent"]:
        for env in ("default", "io-ascii", "ascii-locale"):
            add("surrogate-attribute", surrogate, mode, env)
        for env in ("default", "io-ascii", "lang-c"):
            add("non-ascii-identifiers", IDENT_MODULE, mode, env)
    for mode in JSON_MODES:
        add("all-escaped-literals", escapes, mode, "ascii-locale" if mode != "ir" else "io-ascii-strict")
        add("all-literals", everything, mode, "io-latin1" if mode == "results" else "default")
    # (2) every environment at least once per text kind
    for i, env in enumerate(ENVS):
        mode = JSON_MODES[i % len(JSON_MODES)]
        add("all-escaped-literals", escapes, mode, env)
        if env in UTF8_SOURCE_ENVS:
            add("non-ascii-identifiers", IDENT_MODULE, mode, env, where="followed" if i % 2 else "target")
            add("all-literals", everything, JSON_MODES[(i + 2) % len(JSON_MODES)], env)
    # (3) every literal alone (a failure names it), builtin / document / environment rotating
    for i, (lit, text) in enumerate(LITERALS):
        fn = FAMILY[i % 4]
        env = ("ascii-locale" if i % 3 == 0 else "io-ascii") if text.isascii() else ("io-ascii" if i % 2 else "io-cp1252")
        add(f"literal:{lit}:{fn}", literal_module([lit], [fn], shapes=("call", "chain", "subscript")), JSON_MODES[i % len(JSON_MODES)], env)
    # (4) the other places a string literal may become a name; the second run reads the cache back
    for i, lit in enumerate(("lone-high-surrogate", "latin1-char", "astral-escape", "nul", "cjk")):
        env = "io-ascii" if not LIT[lit].isascii() else "ascii-locale"
        add(f"annotation:{lit}", ANNOTATED.format(LIT[lit]), JSON_MODES[i % 3], env)
        add(f"namedtuple:{lit}", NAMEDTUPLE.format(LIT[lit]), JSON_MODES[(i + 1) % 3], env)
    for name, text, env in (("surrogate-attribute", surrogate, "ascii-locale"), ("surrogate-attribute", surrogate, "default"),
                            ("non-ascii-identifiers", IDENT_MODULE, "io-ascii"), ("all-literals", everything, "lang-c")):
        add(name, text, "cache+silent", env, pre_runs=1)
        add(name, text, "cache+results", env, where="followed", pre_runs=1)
    # (5) non-ASCII FILE names (the name of the target is part of the ir document and of every diagnostic)
    mod = "def lies(kiste):\n    return kiste.höhe\n"
    for mode, env in (("ir", "default"), ("results", "io-ascii"), ("cache+results", "lang-c"), ("stats", "io-ascii")):
        add("non-ascii-target-name", IDENT_MODULE, mode, env, target_name="größe.py")
        add("non-ascii-module-name", "import mödul\nfrom mödul import lies\n\n\ndef main(k):\n    return lies(k), mödul.lies(k)\n", mode, env,
            extra_files={"mödul.py": mod})
        add("non-ascii-package-name", "from päck.mödul import lies\n\n\ndef main(k):\n    return lies(k)\n", mode, env,
            extra_files={"päck/__init__.py": "", "päck/mödul.py": mod})
    # (6) seed-dependent: random literal subsets x builtin x shape x document x environment x place
    n = 24 if tier == "quick" else 500
    for _ in range(n):
        lits = rng.sample([k for k, _ in LITERALS], rng.choice((1, 2, 4)))
        ascii_only = all(LIT[k].isascii() for k in lits)
        env = rng.choice(list(ENVS) if ascii_only else UTF8_SOURCE_ENVS)
        shapes = tuple(rng.sample(("call", "chain", "subscript", "other"), rng.choice((1, 2))))
        fns = rng.sample(FAMILY, rng.choice((1, 2)))
        add("random:" + "+".join(lits) + ":" + "+".join(fns) + ":" + "+".join(shapes), literal_module(lits, fns, shapes),
            rng.choice(list(MODES)), env, where=rng.choice(("target", "followed")), pre_runs=rng.choice((0, 0, 0, 1)))
    if tier != "quick":
        for mode in MODES:
            for env in ENVS:
                add("all-escaped-literals", escapes, mode, env, where="followed")
                if env in UTF8_SOURCE_ENVS:
                    add("non-ascii-identifiers", IDENT_MODULE, mode, env)
                    add("all-literals", everything, mode, env, where="followed")
    good, seen = [], set()
    for r in rows:
        if r["row"] in seen:
            continue
        seen.add(r["row"])
        ok = True
        for rel, text in r["files"].items():
            if rel.endswith(".py") and isinstance(text, str):
                try:
                    compile(text, "<enc>", "exec", dont_inherit=True)
                except (SyntaxError, ValueError):
                    ok = False
        if ok:
            good.append(r)
    return good


# ------------------------------------------------------------------------------------ Tie B of RattrModel/OutputEncode.lean

EDGE_CPS = [0, 1, 8, 9, 10, 12, 13, 0x1f, 0x20, 0x22, 0x27, 0x2f, 0x5c, 0x7e, 0x7f, 0x80, 0x85, 0xa0, 0xff, 0x100, 0x7ff, 0x800, 0x2028, 0x221e,
            0xd7ff, 0xd800, 0xd83d, 0xdbff, 0xdc00, 0xde00, 0xdfff, 0xe000, 0xfeff, 0xfffd, 0xfffe, 0xffff, 0x10000, 0x1f600, 0xfffff, 0x10ffff]
CODECS = ["ascii", "latin-1", "utf-8"]


def _encodes(text, codec):
    try:
        text.encode(codec)
        return True
    except UnicodeEncodeError:
        return False


def encode_tie(rng, tier, res, model):
    """Lean `OutEnc.dumpStr` / `writable` (driver op c07_out_encode) vs CPython's json + codecs (the independent oracle of
    the model) vs the REAL `rattr.models.util.serialise.serialise` (the implementation): the text rattr hands to the stream
    for a str must be the model's `ensure_ascii=True` rendering, and that text must encode under every codec."""
    import ast as _ast
    import json as _json

    from rattr.models.util.serialise import serialise

    strs = []
    for _, text in LITERALS:
        strs.append(_ast.literal_eval('"' + text + '"'))
    strs += ["größe", "名字", "\U0001d431", "o.\ud83d", "a.b[]", "@Str", ""]
    strs += [chr(c) for c in EDGE_CPS]
    n = 200 if tier == "quick" else 3000
    for _ in range(n):
        k = rng.choice((1, 2, 3, 5, 9))
        strs.append("".join(chr(rng.choice(EDGE_CPS) if rng.random() < 0.6 else rng.randrange(0x110000)) for _ in range(k)))
    outs = []
    for i in range(0, len(strs), 100):
        r = model.batch([("c07_out_encode", {"strs": [[ord(c) for c in s] for s in strs[i:i + 100]]})])[0]
        if isinstance(r, dict) and "__error__" in r:
            res.internal_errors.append({"what": "c07_out_encode failed", "error": str(r["__error__"])[:300]})
            return
        outs.extend(r)
    n_raw_fail = 0
    for s, m in zip(strs, outs):
        res.evaluations += 1
        case = {"stage": "encode-tie", "code_points": [ord(c) for c in s]}
        m_ascii, m_raw = "".join(map(chr, m["ascii"])), "".join(map(chr, m["raw"]))
        # the model against CPython (spec vs oracle: my own machinery)
        if m_ascii != _json.dumps(s) or m_raw != _json.dumps(s, ensure_ascii=False):
            res.internal_errors.append({"what": "OutEnc.dumpStr differs from json.dumps", "case": case, "model": [m_ascii, m_raw]})
            continue
        if m["ascii_ok"] != [_encodes(m_ascii, c) for c in CODECS] or m["raw_ok"] != [_encodes(m_raw, c) for c in CODECS]:
            res.internal_errors.append({"what": "OutEnc.writable differs from str.encode", "case": case})
            continue
        n_raw_fail += not all(m["raw_ok"])
        # the implementation against the model: the pinned flag
        real = serialise(s)
        expect = m_ascii if m["pinned"] else m_raw
        if real != expect:
            res.disagreements.append({"case": case, "diff": f"serialise(str) = {real!r:.80}, the model (ensure_ascii pinned {m['pinned']}) = {expect!r:.80}"})
        elif not all(_encodes(real, c) for c in CODECS):
            res.disagreements.append({"case": case, "diff": "the text serialise() returns does not encode under " +
                                      ", ".join(c for c in CODECS if not _encodes(real, c))})
        if not s.isascii():
            res.nontrivial.add(common_digest([ord(c) for c in s]))
    res.count("encode-tie:strings", len(strs))
    res.count("encode-tie:strings-unencodable-without-ensure_ascii", n_raw_fail)

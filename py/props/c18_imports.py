"""C18, import graphs: the part of the `-o ir` / `-o results` / `-o cacheable` documents that is decided by
the import BFS (`rattr/analyser/file.py::parse_and_analyse_imports`).

`import_irs` is an insertion-ordered dict filled in BFS order and `serialise_irs` prints it as it is (only
the inside of each file IR is sorted), so the bytes of the IR document are a function of the analysis only
if the BFS queue is fed from ordered collections at EVERY level (the target's imports, the imports of an
imported file, the imports of a file imported by an imported file, ...).  One level of imports (what the
ordinary project generator of c18.py produces) never reaches the code that queues the imports found in an
imported file with >= 2 followed modules.

This module provides
  * `gen_import_graph`   projects whose import graph has depth 2..3, fan-out 2..4 at each level, diamonds,
                         cross-level edges, cycles, packages, every import spelling;
  * `CORPUS`             fixed small graphs (hub, diamond, chain of hubs, package, same-named classes);
  * `graph_facts`        the module graph as the REAL locator / contexts see it (the Lean model's input);
  * the worker           `python c18_imports.py --worker <out.json> <project dir>...`: run under a given
                         PYTHONHASHSEED, analyses every project in-process (the same calls the CLI makes)
                         and writes the three documents per project.
"""
from __future__ import annotations

import ast
import json
import os
import subprocess
import sys
from pathlib import Path

WORDS = ["alpha", "beta", "gamma", "delta", "epsilon", "zeta", "eta", "theta", "iota", "kappa", "lamda", "mu",
         "nu", "xi", "omicron", "pi", "rho", "sigma", "tau", "upsilon", "phi", "chi", "psi", "omega"]

FORMS = ["import", "import_as", "from_fn", "from_fn_as", "from_cls", "from_multi", "star", "from_shared"]


# ------------------------------------------------------------------ sources

def _import_lines(child, form):
    """(import statement, statements calling into the child with argument `x`)"""
    if form == "import":
        return f"import {child}", [f"{child}.fn_{child}(x)"]
    if form == "import_as":
        return f"import {child} as al_{child}", [f"al_{child}.fn_{child}(x)"]
    if form == "from_fn":
        return f"from {child} import fn_{child}", [f"fn_{child}(x)"]
    if form == "from_fn_as":
        return f"from {child} import fn_{child} as g_{child}", [f"g_{child}(x)"]
    if form == "from_cls":
        return f"from {child} import Cls_{child}", [f"Cls_{child}(x)"]
    if form == "from_multi":
        return f"from {child} import fn_{child}, Cls_{child}", [f"fn_{child}(x)", f"Cls_{child}(x.m_{child})"]
    if form == "star":
        return f"from {child} import *", [f"fn_{child}(x)"]
    if form == "from_shared":
        # a class of the same name exists in (almost) every module of the graph
        return f"from {child} import Shared as Sh_{child}", [f"Sh_{child}(x)"]
    raise ValueError(form)


def module_source(name, children, shared=True, extra_imports=()):
    """children: [(child module, form)] in declaration order."""
    head, calls = [], []
    for child, form in children:
        line, cs = _import_lines(child, form)
        head.append(line)
        calls += cs
    head += list(extra_imports)
    tag = name.replace(".", "_")
    src = "\n".join(head) + ("\n\n\n" if head else "")
    src += f"def fn_{tag}(x):\n    x.seen_{tag} = x.payload_{tag}\n"
    src += "".join(f"    {c}\n" for c in calls)
    src += f"    return x.res_{tag}\n\n\n"
    src += f"class Cls_{tag}:\n    def __init__(self, a):\n        self.w = a.w_{tag}\n"
    if shared:
        src += f"\n\nclass Shared:\n    def __init__(self, a):\n        self.v = a.init_{tag}\n"
    return src


def target_source(children, extra=""):
    head, calls = [], []
    for child, form in children:
        line, cs = _import_lines(child, form)
        head.append(line)
        calls += cs
    src = "\n".join(head) + "\n\n\n"
    src += "def run(x, y):\n    x.job = y.result\n" + "".join(f"    {c}\n" for c in calls) + "    return x.status\n"
    src += "\n\ndef other(x):\n    return run(x, x.peer)\n"
    return src + extra


# ------------------------------------------------------------------ generator

def gen_import_graph(rng, idx):
    """target -> L1 -> L2 (-> L3), fan-out 2..4 at each level below the target, shared children
    (diamonds), cross-level edges, back edges (cycles), every import spelling.
    Returns (files, meta)."""
    names = [w + rng.choice(["", "_m", "x", "_lib", "2"]) for w in rng.sample(WORDS, len(WORDS))]
    take = iter(names)
    n1 = rng.choice([1, 1, 2, 2, 3, 4])
    l1 = [next(take) for _ in range(n1)]
    depth = rng.choice([2, 2, 3])
    pool2 = [next(take) for _ in range(rng.randint(2, 6))]
    pool3 = [next(take) for _ in range(rng.randint(2, 4))] if depth == 3 else []
    edges = {}            # module -> [(child, form)]
    forms_used = set()

    def pick_children(pool, lo, hi):
        k = min(len(pool), rng.randint(lo, hi))
        out = []
        for c in rng.sample(pool, k):
            f = rng.choice(FORMS)
            forms_used.add(f)
            out.append((c, f))
        return out

    for m in l1:
        edges[m] = pick_children(pool2, 2, 4)
    hubs3 = rng.sample(pool2, rng.randint(1, min(2, len(pool2)))) if pool3 else []
    for m in pool2:
        edges[m] = pick_children(pool3, 2, 3) if m in hubs3 else []
    for m in pool3:
        edges[m] = []
    feats = []
    # cross-level edge: an L1 module also imports an L3 module directly / the target an L2 module
    tchildren = []
    for m in l1:
        f = rng.choice(FORMS)
        forms_used.add(f)
        tchildren.append((m, f))
    if rng.random() < 0.35:
        tchildren.insert(rng.randint(0, len(tchildren)), (rng.choice(pool2), rng.choice(["import", "from_fn"])))
        feats.append("cross:target->L2")
    if pool3 and rng.random() < 0.4:
        m = rng.choice(l1)
        c = rng.choice(pool3)
        if c not in [x for x, _ in edges[m]]:
            edges[m].insert(rng.randint(0, len(edges[m])), (c, rng.choice(["import", "from_fn"])))
            feats.append("cross:L1->L3")
    # nested star imports: the target star-imports an L1 module all of whose imports are star imports, and so
    # are the imports of its hub children (the BFS of expand_starred_imports sees a fan-out >= 2 below the target)
    if rng.random() < 0.3:
        m = rng.choice(l1)
        tchildren = [(c, "star" if c == m else f) for c, f in tchildren]
        edges[m] = [(c, "star") for c, _ in edges[m]]
        for c, _ in edges[m]:
            edges[c] = [(d, "star") for d, _ in edges[c]]
        forms_used.add("star")
        feats.append("star-nested")
    extra = {m: [] for m in edges}
    # back edge (cycle): a deeper module imports an L1 module again (no call: results need no recursion)
    if rng.random() < 0.4:
        deep = rng.choice(pool3 or pool2)
        extra[deep].append(f"import {rng.choice(l1)}")
        feats.append("cycle")
    # an edge between two siblings of one level
    if len(pool2) >= 2 and rng.random() < 0.3:
        a, b = rng.sample(pool2, 2)
        extra[a].append(f"import {b}")
        feats.append("sibling-edge")
    # stdlib imports in between (never followed at the default level, but they are popped from the queue)
    for m in rng.sample(sorted(edges), min(2, len(edges))):
        extra[m].insert(0, rng.choice(["import math", "import os.path", "from collections import OrderedDict"]))
    files = {f"{m}.py": module_source(m, edges[m], shared=rng.random() < 0.8, extra_imports=extra[m]) for m in edges}
    files["target.py"] = target_source(tchildren)
    indeg = {}
    for m, cs in edges.items():
        for c, _ in cs:
            indeg[c] = indeg.get(c, 0) + 1
    if any(v >= 2 for v in indeg.values()):
        feats.append("diamond")
    meta = {"depth": depth, "fanout_target": len(tchildren),
            "fanout_max_below_target": max((len(cs) for cs in edges.values()), default=0),
            "hubs_below_target": sum(1 for cs in edges.values() if len(cs) >= 2),
            "modules": len(edges), "features": sorted(feats), "forms": sorted(forms_used)}
    return files, meta


def _hub(leaves, form="import"):
    files = {"target.py": target_source([("hub", "import")])}
    files["hub.py"] = module_source("hub", [(l, form) for l in leaves])
    for l in leaves:
        files[f"{l}.py"] = module_source(l, [])
    return files


def _diamond():
    files = {"target.py": target_source([("left", "from_fn"), ("right", "import_as")])}
    files["left.py"] = module_source("left", [("shared_leaf", "from_fn"), ("only_left", "import"), ("zz_leaf", "from_cls")])
    files["right.py"] = module_source("right", [("zz_leaf", "import"), ("only_right", "from_fn_as"), ("shared_leaf", "star")])
    for l in ("shared_leaf", "only_left", "only_right", "zz_leaf"):
        files[f"{l}.py"] = module_source(l, [])
    return files


def _chain_of_hubs():
    files = {"target.py": target_source([("top", "import")])}
    files["top.py"] = module_source("top", [("mid_b", "import"), ("mid_a", "from_fn"), ("mid_c", "import_as")])
    files["mid_a.py"] = module_source("mid_a", [("leaf_q", "import"), ("leaf_p", "from_fn")])
    files["mid_b.py"] = module_source("mid_b", [("leaf_r", "from_multi"), ("leaf_p", "import"), ("leaf_s", "import")])
    files["mid_c.py"] = module_source("mid_c", [], extra_imports=["import top"])
    for l in ("leaf_p", "leaf_q", "leaf_r", "leaf_s"):
        files[f"{l}.py"] = module_source(l, [])
    return files


def _package():
    files = {"target.py": target_source([("hubpk", "import")])}
    files["hubpk.py"] = ("from pk import sub_b, sub_a\nimport pk.sub_c\nfrom pk.sub_d import fn_sub_d\n\n\n"
                         "def fn_hubpk(x):\n    sub_b.fn_sub_b(x)\n    sub_a.fn_sub_a(x)\n    pk.sub_c.fn_sub_c(x)\n"
                         "    fn_sub_d(x)\n    return x.res_hubpk\n")
    files["pk/__init__.py"] = "PK = 1\n"
    for s in ("sub_a", "sub_b", "sub_c", "sub_d"):
        files[f"pk/{s}.py"] = module_source(s, [], shared=False)
    return files


def _same_named_classes():
    """Two depth-2 modules define a class of one name and the target reaches it through a star import of the
    hub: which `Shared` a call resolves to must not depend on the order of import_irs."""
    files = {"target.py": "from hubs import *\n\n\ndef run(x):\n    return Shared(x)\n\n\ndef run2(x):\n    return fn_hubs(x)\n"}
    files["hubs.py"] = module_source("hubs", [("impl_b", "from_shared"), ("impl_a", "from_shared"), ("impl_c", "import")],
                                     shared=False)
    for l in ("impl_a", "impl_b", "impl_c"):
        files[f"{l}.py"] = module_source(l, [])
    return files


def _stars_nested():
    """Star imports two levels deep with a fan-out of 2..3 (the BFS of `expand_starred_imports` and the
    BFS of the import follower both see >= 2 children of an imported file); every module defines `Shared`,
    so which one a name denotes after the expansion depends on the order of that BFS."""
    files = {"target.py": target_source([("hubstar", "star")],
                                        extra="\n\ndef deep(x):\n    fn_s1(x)\n    fn_deep2(x)\n    return Shared(x)\n")}
    files["hubstar.py"] = module_source("hubstar", [("s2", "star"), ("s1", "star"), ("s3", "star")])
    files["s1.py"] = module_source("s1", [("deep2", "star"), ("deep1", "star")])
    for l in ("s2", "s3", "deep1", "deep2"):
        files[f"{l}.py"] = module_source(l, [])
    return files


CORPUS = [
    ("hub5", _hub(["alpha", "beta", "gamma", "delta", "epsilon"])),
    ("hub2:from", _hub(["zeta", "eta"], "from_fn")),
    ("hub3:star", _hub(["theta", "iota", "kappa"], "star")),
    ("diamond", _diamond()),
    ("chain-of-hubs", _chain_of_hubs()),
    ("package", _package()),
    ("same-named-classes", _same_named_classes()),
    ("stars-nested", _stars_nested()),
]


def write_project(root, files):
    root = Path(root)
    for n, s in files.items():
        p = root / n
        p.parent.mkdir(parents=True, exist_ok=True)
        p.write_text(s)


# ------------------------------------------------------------------ the module graph as rattr sees it

def graph_facts(target_ctx, import_irs):
    """The module graph for the Lean model of the BFS (`Imports.bfs`), computed by rattr's REAL locator and
    classification functions; the imports of a file are the `Import` symbols of its root context in
    symbol-table order (what `context.symbol_table.symbols` iterates).  Must be called inside the project's
    cwd / Config.  Returns {"target": [...], "modules": [...]} (graph closed under import targets)."""
    from rattr.models.symbol import Import
    from rattr.module_locator.util import find_module_name_and_spec, is_in_import_blacklist, is_in_pip, is_in_stdlib

    def declared(sym):
        # the module named in the import statement (what make_import_symbol tests against the blacklist)
        q = sym.qualified_name
        return q[: -len(sym.name) - 1] if sym.name != "*" and q.endswith("." + sym.name) and q != sym.name else q

    def imps(ctx):
        return [{"target": s.module_name, "declBl": bool(is_in_import_blacklist(declared(s)))}
                for s in ctx.symbol_table.symbols if isinstance(s, Import)]

    target = imps(target_ctx)
    modules, work = {}, [i["target"] for i in target]
    while work:
        n = work.pop(0)
        if n is None or n in modules:
            continue
        _, spec = find_module_name_and_spec(n)
        origin = None if spec is None else spec.origin
        readable = False
        if origin is not None:
            try:
                ast.parse(Path(origin).read_text())
                readable = True
            except Exception:  # noqa
                readable = False
        m = {"name": n, "origin": origin, "readable": readable, "blacklisted": bool(is_in_import_blacklist(n)),
             "inPip": bool(is_in_pip(n)), "inStdlib": bool(is_in_stdlib(n)), "excluded": False,
             "imports": imps(import_irs[n].context) if n in import_irs else []}
        modules[n] = m
        work.extend(i["target"] for i in m["imports"])
    from rattr.config import Config
    from rattr.models.results.cacheable import CacheableImportInfo
    from rattr.models.symbol._util import PYTHON_BUILTINS_LOCATION

    def infos(ctx):
        """Per `Import` symbol (symbol-table order): the CacheableImportInfo `make_cacheable_import_info`
        creates for it, or None when one of its five filters drops the symbol."""
        out = []
        for s in ctx.symbol_table.symbols:
            if not isinstance(s, Import):
                continue
            if (s.module_name is None or is_in_import_blacklist(s.module_name) or s.module_spec is None
                    or s.module_spec.origin is None or s.module_spec.origin == PYTHON_BUILTINS_LOCATION):
                out.append(None)
            else:
                i = CacheableImportInfo.from_file(s.module_spec.origin)
                out.append([str(i.filepath), i.filehash])
                if str(i.filepath) != str(Path(s.module_spec.origin)):
                    not_origin.append([s.module_name, str(s.module_spec.origin), str(i.filepath)])
        return out

    not_origin = []

    a = Config().arguments
    return {"target": target, "modules": list(modules.values()),
            "cacheInfos": {"target": infos(target_ctx),
                           "modules": sorted([[n, infos(f.context)] for n, f in import_irs.items()])},
            "recordedNotOrigin": not_origin,
            "flags": {"loc": bool(a.follow_local_imports), "pip": bool(a.follow_pip_imports),
                      "stdlib": bool(a.follow_stdlib_imports)}}


# ------------------------------------------------------------------ worker (one hash seed, many projects)

def analyse_documents(projdir):
    """What `python -m rattr -o ir|results|cacheable target.py` computes, in this process.
    Returns {"ir": str, "results": str, "cacheable": str, "keys": [...]}."""
    import impl
    from rattr.analyser.file import parse_and_analyse_file
    from rattr.models.results.util import make_cacheable_results
    from rattr.models.util import serialise, serialise_irs
    from rattr.results import generate_results_from_ir

    from props import c18_alias

    with impl.in_dir(str(projdir)), c18_alias.extra_sys_path(projdir):
        impl.reset_config(target=Path("target.py"))
        with impl.Tap():
            file_ir, import_irs, _ = parse_and_analyse_file()
            keys = list(import_irs)
            results = generate_results_from_ir(target_ir=file_ir, import_irs=import_irs)
            cache = make_cacheable_results(results, file_ir, import_irs)
            return {"keys": keys,
                    "ir": serialise_irs(target_name="target.py", target_ir=file_ir, import_irs=import_irs),
                    "results": serialise(results, indent=4),
                    "cacheable": serialise(cache, indent=4)}


OUTS = ("ir", "results", "cacheable")


def worker_main(argv):
    """argv: <out.json> <project dir>...; the documents go to <out.json>.d/<index>.<kind> (raw bytes), the
    json holds their md5 and the key order of import_irs."""
    import hashlib
    out_path, dirs = argv[0], argv[1:]
    sys.path.insert(0, str(Path(__file__).resolve().parent.parent))
    import impl
    docdir = Path(out_path + ".d")
    docdir.mkdir(parents=True, exist_ok=True)
    out = {"hashseed": os.environ.get("PYTHONHASHSEED"), "projects": []}
    for i, d in enumerate(dirs):
        o = impl.outcome_of(analyse_documents, d)
        if o[0] != "ok":
            out["projects"].append({"dir": d, "fail": [str(x) for x in o]})
            continue
        rec = {"dir": d, "keys": o[1]["keys"], "md5": {}, "file": {}}
        for k in OUTS:
            b = o[1][k].encode("utf8")
            (docdir / f"{i}.{k}").write_bytes(b)
            rec["md5"][k] = hashlib.md5(b).hexdigest()
            rec["file"][k] = str(docdir / f"{i}.{k}")
        out["projects"].append(rec)
    Path(out_path).write_text(json.dumps(out))
    return 0


def run_worker(hashseed, out_path, dirs, timeout=900):
    env = dict(os.environ)
    env["PYTHONHASHSEED"] = str(hashseed)
    p = subprocess.run([sys.executable, str(Path(__file__).resolve()), "--worker", str(out_path), *map(str, dirs)],
                       env=env, capture_output=True, timeout=timeout)
    if p.returncode != 0 or not Path(out_path).exists():
        return {"error": p.stderr[-600:].decode("utf8", "replace"), "rc": p.returncode}
    return json.loads(Path(out_path).read_text())


if __name__ == "__main__":
    if len(sys.argv) >= 3 and sys.argv[1] == "--worker":
        sys.exit(worker_main(sys.argv[2:]))
    sys.exit("usage: c18_imports.py --worker <out.json> <project dir>...")

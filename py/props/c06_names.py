"""C06 — module naming and exclusion patterns of the generated split projects.

The precondition of C06 is "a local module that rattr is CONFIGURED TO FOLLOW".  What is configured is a
set of regular expressions (the perennial `Config.MODULE_BLACKLIST_PATTERNS`, plus `-F/--exclude-import`,
plus the toml `exclude-imports`) that exclude a module iff one of them matches its FULL dotted name (or
the full path of its file).  Oracle used here (independent of rattr: CPython's `re`): a module whose full
name is not fully matched by any pattern is followed exactly as if no pattern were given and as if it had
any other name.

  * `choose_renaming`: gives the modules / packages of a split project (generated with the neutral unique
    tokens `zm3`, `zp1`, …) names that stand in a NEAR-MISS relation to a pattern: a pattern is a proper
    prefix / suffix / infix of the name, the name differs in case, the dotted name merely contains an
    excluded name as one component, …
  * `choose_patterns`: user patterns that are near-misses of the project's actual module names.
  * `relation`: the (syntactic, implementation-independent) relation of a name to a pattern set, used for
    the signature and for the distribution.
"""
from __future__ import annotations

import importlib.util
import re
import sys

NEUTRAL = re.compile(r"\bz[mprxysq]\d+\b")

# the perennial patterns as DATA come from the configuration of the repo under test (they are part of the
# configuration the property quantifies over); their MEANING is CPython's re.fullmatch.
def builtin_patterns():
    from rattr.config import Config
    return sorted(Config.MODULE_BLACKLIST_PATTERNS)


# names for any component (module or package)
ANY_POOL = [
    "rattr_helpers", "rattrkit", "rattr_plugins", "rattrs", "rattr2", "rattr_", "rattrx",   # `rattr` is a proper prefix
    "myrattr", "my_rattr", "xrattr", "unrattr", "_rattr",                                  # … a proper suffix
    "xrattrx", "my_rattr_lib",                                                              # … an infix
    "Rattr", "RATTR", "rAttr",                                                              # case
    "ratt", "ratt_r", "attr_zz",                                                             # a proper prefix/suffix OF the pattern
    "utilities", "util_extra", "xutil", "helpers_zz", "corelib_zz", "zxy", "zxyz",
]
# names for a package component (something is below it)
PKG_POOL = ["packages", "package", "mypackages", "packagess", "packagesx", "xpackage", "Packages"]
# names for a component that has a parent package
CHILD_POOL = ["rattr", "rattr", "rattrs", "rattr_x", "xrattr"]


def _usable(name):
    if name in sys.stdlib_module_names:
        return False
    try:
        return importlib.util.find_spec(name) is None
    except Exception:
        return False


_USABLE = {}


def usable(name):
    if name not in _USABLE:
        _USABLE[name] = _usable(name)
    return _USABLE[name]


def components(modules):
    """neutral component -> {"top": occurs as first component, "parent": has children, "child": has a parent}"""
    info = {}
    for mod in modules:
        parts = mod.split(".")
        for i, c in enumerate(parts):
            if not NEUTRAL.fullmatch(c):
                continue
            d = info.setdefault(c, {"top": False, "parent": False, "child": False})
            d["top"] |= i == 0
            d["child"] |= i > 0
            d["parent"] |= i + 1 < len(parts)
    return info


def rename(s, mapping):
    if not mapping:
        return s
    return NEUTRAL.sub(lambda m: mapping.get(m.group(0), m.group(0)), s)


def excluded_by(patterns, name):
    return [p for p in patterns if re.fullmatch(p, name)]


def choose_renaming(rng, modules, builtin, p_each=0.55):
    """Mapping neutral component -> varied name such that NO resulting full module name is excluded by a
    perennial pattern (and no top-level component shadows an installed module)."""
    info = components(modules)
    used, mapping = set(), {}
    for c in sorted(info, key=lambda c: (len(c), c)):
        if rng.random() >= p_each:
            continue
        d = info[c]
        pool = list(ANY_POOL)
        if d["parent"]:
            pool += PKG_POOL * 2
        if d["child"] and not d["top"]:
            pool += CHILD_POOL
        rng.shuffle(pool)
        for name in pool:
            if name in used or (d["top"] and not usable(name)):
                continue
            mapping[c] = name
            used.add(name)
            break
    # validation: drop renamings until nothing is (exactly) excluded
    while True:
        bad = [m for m in modules if excluded_by(builtin, rename(m, mapping))]
        if not bad:
            return mapping
        for c in bad[0].split("."):
            mapping.pop(c, None)


def _esc(s):
    return s.replace(".", r"\.")


def candidate_patterns(rng, name):
    """Near-miss patterns for one dotted module name (all inside the model's regex fragment)."""
    n = len(name)
    out = []
    if n >= 2:
        k = rng.randint(1, n - 1)
        out.append(("prefix", _esc(name[:k])))
        out.append(("prefix", _esc(name[:n - 1])))
        k = rng.randint(1, n - 1)
        out.append(("suffix", _esc(name[k:])))
        out.append(("suffix", _esc(name[1:])))
    if n >= 3:
        a = rng.randint(1, n - 2)
        b = rng.randint(a + 1, n - 1)
        out.append(("infix", _esc(name[a:b])))
    out.append(("longer", _esc(name) + rng.choice("x_1")))
    out.append(("longer", rng.choice("x_") + _esc(name)))
    out.append(("child", _esc(name) + r"\..*"))               # everything BELOW the name, not the name
    out.append(("optional", _esc(name[:n - 1]) + "x?" if n >= 2 else _esc(name) + "x"))
    if name != name.swapcase():
        out.append(("case", _esc(name.swapcase())))
        out.append(("case", _esc(name.capitalize() if name.capitalize() != name else name.upper())))
    if "." in name:
        parent, last = name.rsplit(".", 1)
        out.append(("component", _esc(last)))                  # the last component alone
        out.append(("sibling", _esc(parent) + r"\." + _esc(last[:max(1, len(last) - 1)])))
        out.append(("unescaped-dot", name[:n - 1]))            # `pkg.x` (dot = any character) vs pkg.xy
        out.append(("prefix-star", _esc(parent) + r"\.x.*"))
    else:
        out.append(("prefix-dotstar", _esc(name[:max(1, n - 1)]) + r"\..*"))
    return [(k, p) for k, p in out if p and not p.startswith(("?", "*"))]


def choose_patterns(rng, modules, paths, how_many):
    """`how_many` user patterns, each a near-miss of some module of the project and fully matching NO module
    name and NO file path of the project."""
    names = sorted(modules)
    out = []
    for _ in range(how_many * 6):
        if len(out) >= how_many:
            break
        name = rng.choice(names)
        kind, pat = rng.choice(candidate_patterns(rng, name))
        try:
            rx = re.compile(pat)
        except re.error:
            continue
        if any(rx.fullmatch(m) for m in names) or any(rx.fullmatch(p) for p in paths):
            continue
        if pat in [p for _, p in out]:
            continue
        out.append((kind, pat))
    return out


REL_ORDER = ["prefix", "suffix", "infix", "case", "none"]


def relation_one(pattern, name):
    """How `pattern` (not fully matching `name`) relates to `name`; CPython's `re` is the judge."""
    try:
        rx = re.compile(pattern)
    except re.error:
        return "none"
    if rx.fullmatch(name):
        return "exact"
    if rx.match(name):
        return "prefix"
    for m in rx.finditer(name):
        if m.end() == len(name) and m.start() < m.end():
            return "suffix"
    if any(m.start() < m.end() for m in rx.finditer(name)):
        return "infix"
    if re.compile(pattern, re.I).fullmatch(name):
        return "case"
    return "none"


def relation(names, builtin, user):
    """Strongest near-miss relation between any of `names` (full dotted names, their dotted prefixes
    included) and the two pattern sets: ("builtin"|"user"|"", rel)."""
    full = set()
    for n in names:
        parts = n.split(".")
        full.update(".".join(parts[:i]) for i in range(1, len(parts) + 1))
    best = ("", "none")
    for src, pats in (("builtin", builtin), ("user", user)):
        for p in pats:
            for n in full:
                r = relation_one(p, n)
                if r in REL_ORDER and REL_ORDER.index(r) < REL_ORDER.index(best[1]):
                    best = (src, r)
    return best


def relation_tag(names, builtin, user):
    src, rel = relation(names, builtin, user)
    return "no-pattern-relation" if rel == "none" else f"{src}-pattern-is-proper-{rel}-of-module-name" if rel != "case" \
        else f"{src}-pattern-differs-in-case-from-module-name"


def rename_back(obj, mapping):
    """Map a results document of the renamed project back to the neutral names."""
    import json
    inv = {v: k for k, v in mapping.items()}
    if not inv:
        return obj
    rx = re.compile(r"(?<!\w)(" + "|".join(sorted(map(re.escape, inv), key=len, reverse=True)) + r")(?!\w)")
    return json.loads(rx.sub(lambda m: inv[m.group(1)], json.dumps(obj)))

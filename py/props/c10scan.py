"""C10 / Tie A: every place in the rattr package that CONSUMES the result of a namer.

Pure `ast` scan of the source files of the repo under test (no import of rattr), used by

  * py/tables/t_c10.py  -> `Generated.C10.consumerSites` (compared with the table the Lean model
    hard-codes, `Rattr.NamingSites.sites`, by the theorem `tieA_consumer_sites`), and
  * py/props/c10sites.py -> the coverage report of the consumer-site stage (a site found in the
    source that the model's table does not list is reported as `uncovered`).

A *site* is one reference (call, or the function passed as a value) to one of `NAMERS` in a file
that binds that name at module level (`from … import name`, `def name`), or an attribute reference
`….name` for the two `Context` methods / a namer reached through a module object. The key

    (file, enclosing qualified name, referenced namer, ordinal among the references to that namer
     in that scope, source text of the enclosing simple statement / compound-statement header)

does not contain line numbers, so unrelated edits do not disturb it; a changed consuming statement
(e.g. a swapped unpacking order) or a new reference does.
"""
from __future__ import annotations

import ast
import copy
from pathlib import Path

# the six namers, and the helpers that hand a namer's result on unchanged
ROOT_NAMERS = ("names_of", "fullname_of", "basename_of",
               "get_basename_fullname_pair", "get_basename", "get_fullname")
WRAPPERS = ("unravel_names", "get_xattr_obj_name_pair", "get_python_attr_access_fn_obj_attr_pair",
            "get_dynamic_name", "get_attrname", "get_decorator_name", "arg_name", "kwarg_name", "base_names",
            "__ast_call_name", "__ast_compound_name", "__safe_name")
METHODS = ("add_identifiers_to_context", "remove_identifiers_from_context")
NAMERS = frozenset(ROOT_NAMERS + WRAPPERS)
BY_ATTRIBUTE = frozenset(ROOT_NAMERS + METHODS)


def header(stmt: ast.AST) -> str:
    """Source text of a simple statement; of a compound statement only its header."""
    if isinstance(getattr(stmt, "body", None), list):
        s = copy.copy(stmt)
        s.body = [ast.Expr(ast.Constant(...))]
        for f in ("orelse", "finalbody", "handlers"):
            if hasattr(s, f):
                setattr(s, f, [])
        if hasattr(s, "decorator_list"):
            s.decorator_list = []
        text = ast.unparse(s)
        return text.rsplit("\n", 1)[0].strip()
    return ast.unparse(stmt)


def _module_bound(tree: ast.Module):
    """Names a `from … import name` (anywhere in the file: rattr has function-level imports to break
    cycles) or a module-level `def` binds."""
    out = set()
    for s in ast.walk(tree):
        if isinstance(s, ast.ImportFrom):
            out |= {a.asname or a.name for a in s.names}
    for s in tree.body:
        if isinstance(s, (ast.FunctionDef, ast.AsyncFunctionDef)):
            out.add(s.name)
    return out


class _Scan:
    def __init__(self, rel, tree):
        self.rel = rel
        self.bound = _module_bound(tree) & NAMERS
        self.out = []

    def expr(self, e, qual, stmt):
        refs = []
        for n in ast.walk(e):
            if isinstance(n, ast.Name) and isinstance(n.ctx, ast.Load) and n.id in self.bound:
                refs.append((n.lineno, n.col_offset, n.id))
            elif isinstance(n, ast.Attribute) and isinstance(n.ctx, ast.Load) and n.attr in BY_ATTRIBUTE:
                refs.append((n.end_lineno, n.end_col_offset, n.attr))
        for _, _, nm in sorted(refs):
            self.out.append({"file": self.rel, "func": qual or "<module>", "callee": nm, "stmt": header(stmt),
                             "lineno": stmt.lineno, "end_lineno": _header_end(stmt)})

    def stmt(self, s, qual):
        if isinstance(s, (ast.Import, ast.ImportFrom)):
            return
        if isinstance(s, (ast.FunctionDef, ast.AsyncFunctionDef, ast.ClassDef)):
            outer = list(s.decorator_list)
            if isinstance(s, ast.ClassDef):
                outer += list(s.bases) + [k.value for k in s.keywords]
            else:
                outer += list(s.args.defaults) + [d for d in s.args.kw_defaults if d is not None]
            for e in outer:
                self.expr(e, qual, s)
            inner = (qual + "." if qual else "") + s.name
            for b in s.body:
                self.stmt(b, inner)
            return
        for _, val in ast.iter_fields(s):
            for v in (val if isinstance(val, list) else [val]):
                if isinstance(v, ast.stmt):
                    self.stmt(v, qual)
                elif isinstance(v, (ast.excepthandler, ast.match_case)):
                    for sub in ast.iter_child_nodes(v):
                        if isinstance(sub, ast.stmt):
                            self.stmt(sub, qual)
                        else:
                            self.expr(sub, qual, s)
                elif isinstance(v, ast.AST):
                    self.expr(v, qual, s)


def _header_end(stmt):
    body = getattr(stmt, "body", None)
    if isinstance(body, list) and body and isinstance(body[0], ast.AST):
        return max(stmt.lineno, body[0].lineno - 1)
    return stmt.end_lineno


def scan(repo_root) -> list[dict]:
    """All sites, in (file, position) order, with the ordinal `idx` filled in."""
    pkg = Path(repo_root) / "rattr"
    out = []
    for f in sorted(pkg.rglob("*.py")):
        rel = str(f.relative_to(pkg.parent))
        try:
            tree = ast.parse(f.read_text())
        except SyntaxError:
            continue
        sc = _Scan(rel, tree)
        for s in tree.body:
            sc.stmt(s, "")
        out += sc.out
    seen = {}
    for s in out:
        k = (s["file"], s["func"], s["callee"])
        seen[k] = seen.get(k, 0) + 1
        s["idx"] = seen[k]
    return out


def key(s) -> tuple:
    return (s["file"], s["func"], s["callee"], s["idx"], s["stmt"])


if __name__ == "__main__":      # development aid
    import sys

    for s in scan(sys.argv[1] if len(sys.argv) > 1 else "/repo"):
        print(f"{s['file']}:{s['lineno']}-{s['end_lineno']} {s['func']} {s['callee']}#{s['idx']} :: {s['stmt'][:100]!r}")

"""C19 — a cache hit is declared only when a fresh run would give the cached results.

Tie B, five streams.

(1) Histories through the REAL CLI in a temp project outside /verif and /repo. The project has the target,
    two local modules (direct -> transitive), a capitalised local module, two modules in a fake
    `site-packages` directory and two stdlib-NAMED modules on PYTHONPATH; any of them is edited, the
    options change (follow level 0..3, excluded imports / names incl. near-collisions: letter case, order,
    repetition, white space, equivalent regexes, the other field; through short / long flags or
    pyproject.toml), runs with `--cache-file` and `-r` in between. After every run we record: the
    'cache is up-to-date' info line, the exit status, whether the cache file was rewritten, its bytes.
    Independent oracle: a from-scratch run (`-o cacheable`, no cache file) in the same project state:
    a hit is legal only if that run succeeds and prints exactly the cached document; after a miss the
    written cache is exactly that document. The Lean state machine (`CacheDeps.stepG` over the modelled
    dependency computation: import follower of C12 + make_cacheable_import_info + is_in_import_blacklist
    / is_in_pip + the hashed option tuple) is fed the same op sequence with content hashes, my own scan
    of every file's imports, `re.fullmatch` / isort verdicts, and — as the only facts taken from the
    from-scratch run — its results digest and whether it ended fatally for a reason other than the
    import stage; it must predict hit / miss / fatal and the document on disk (incl. the import list
    and the arguments key) after every step. The model's follower / recorded list is additionally
    compared with a second, independent Python reading (`expected_analysis`).

(2) make_arguments_hash in-process on ~1100 option sets vs the Lean `argsKey`: equal hashes iff equal
    keys; oracle: equal hashes only for equal follow level and equal pattern SETS.

(3) The real import follower + make_cacheable_import_info in-process with an audit hook on open():
    every source file opened while the follower runs must be the target or a recorded origin; the Lean
    model must predict exactly the files opened, the keys of import_irs and the recorded origins.

(4) Corruptions of a real cache file through `target_cache_file_is_up_to_date` in-process
    (`impl.outcome_of`): truncation at EVERY byte offset, every node of the document replaced by
    null / numbers / bool / strings / lists / dicts, top-level scalars, arrays, strings naming a
    field, empty file, BOM, invalid UTF-8, values json.loads itself refuses (nesting depth, int size),
    import paths that are not files / cannot be stat'ed / cannot be read; a sample re-run through the
    CLI. Expected: stale. The Lean model of `deserialise` + gate (`Cache.structureDoc`, `Cache.gateJIO`)
    must predict the exact outcome class of every case.

    Since the upstream fix 16f7ad6 (`except Exception` around read_text/deserialise) every former
    `cache-gate-crash:*` class is answered stale; the stream is kept unchanged so that a regression is
    a VIOLATION (those signatures are `fixed`, not `known`, in known_findings.json). What can still
    raise is the conjunction after the try: OSError from hash_file_content on an unreadable regular file.

(5) hash_file_content vs md5 of the whole file around the block-size boundaries.

Round 3 (the Lean machine is now `CacheRun.stepX`, op `cache_x_history`). The project family also has
  * a package `pkg` (`__init__`, `impl`, `consts`; absolute, relative and `import a.b` forms) and a
    plain module `reexp` whose variants have NO function / class of their own (re-export only, empty,
    constants only, import only) — on the path to the module that is edited, as the target's import,
    one level down, in site-packages and among the stdlib-named modules;
  * a module file that is a symbolic link (`settings.py -> impl/settings_{dev,prod}.py`) and a
    package directory that is one (`plugins -> plugins_v{1,2}`): ops `relink` (re-pointed between
    runs) and `editlink` (in-place edit through the link), plus edits of the link targets;
  * op `damage`: the cache file is removed / truncated / made non-JSON / given a wrong shape between
    two runs, crossed with every strictness setting (`--strict`, `--threshold N` for N at / around
    the target's own badness, through flags and pyproject.toml). Oracle: the run on the damaged file
    is the run without a cache file (exit status, stdout, cache rewritten) and the run after it hits.
    The target's own badness is observed from outside (a `--strict` from-scratch run) and given to the
    model, which then decides fatal-or-not for every strictness setting itself.
Every run with a cache file now prints the cacheable document (`-o cacheable`), compared with the
from-scratch run's output. In-process: the gate's badness and diagnostic level on every corruption
case vs `CacheRun.gateDiag`; the follower stream covers the new shapes (paths through links are
reported as opened, `module-read-but-not-recorded:local:via-link`).
"""
from __future__ import annotations

import concurrent.futures as cf
import copy
import hashlib
import importlib.util
import itertools
import json
import os
import random
import re
import shutil
import subprocess
import sys
import tempfile
from pathlib import Path

import common
import impl

PID = "C19"
TABLES = ["C12"]      # the import follower of the dependency theorems is C12's model: its Tie A tables too
TMPROOT = "/tmp"
HITLINE = "cache is up-to-date"

# ------------------------------------------------------------------ project family

# (source, imported module names)
TARGET = [
    ("from direct import helper\n\n\ndef top(a):\n    a.x = 1\n    return helper(a)\n", ["direct"]),
    ("# a comment\nfrom direct import helper\n\n\ndef top(a):\n    a.x = 1\n    return helper(a)\n", ["direct"]),
    ("from direct import helper\n\n\ndef top(a):\n    a.x = 1\n    return helper(a.inner)\n\n\ndef other(b):\n    return b.q\n", ["direct"]),
    ("from direct import helper\n\n\ndef top(a):\n    a.x = 1\n    return helper(a) + undefined_fn(a.k)\n", ["direct"]),  # badness 2
]
DIRECT = [
    ("from trans import leaf\n\n\ndef helper(b):\n    b.y\n    return leaf(b)\n", ["trans"]),
    ("from trans import leaf\n\n\ndef helper(b):\n    b.yy\n    return leaf(b)\n", ["trans"]),
    ("def helper(b):\n    return b.solo\n", []),
    ("import math\nfrom trans import leaf\n\n\ndef helper(b):\n    b.y\n    return leaf(b.m)\n", ["math", "trans"]),
]
TRANS = [
    ("def leaf(c):\n    return c.z\n", []),
    ("def leaf(c):\n    return c.zz\n", []),
    ("# note\ndef leaf(c):\n    return c.z\n", []),
]


def _block_size():
    """Default block size of the chunked read in hash_file_content (read from the live signature)."""
    try:
        import inspect

        from rattr.models.util.hash import hash_file_content

        b = inspect.signature(hash_file_content).parameters["blocksize"].default
        return b if isinstance(b, int) and 0 < b <= 1 << 24 else 1 << 20
    except Exception:
        return 1 << 20


BLOCK = _block_size()
_LINE = "# padding line {:07d} " + "." * 56 + "\n"
# more than two read blocks of comment lines: the code (and every edit) lies after the 2nd block boundary
PAD = "".join(_LINE.format(i) for i in range((2 * BLOCK + 300_000) // len(_LINE.format(0)) + 1))
# big-file variants: identical padding, the small variants' code at the very END of the file
BIG = {"target": (4, 5), "direct": (4, 5), "trans": (3, 4)}
TARGET += [(PAD + TARGET[0][0], ["direct"]), (PAD + TARGET[2][0], ["direct"])]
DIRECT += [(PAD + DIRECT[0][0], ["trans"]), (PAD + DIRECT[1][0], ["trans"])]
TRANS += [(PAD + TRANS[0][0], []), (PAD + TRANS[1][0], [])]

# ---- the generalised family: every module class x every follow level ---------------------------
# Besides the two local modules the project has a capitalised local module (`Helpers`: the case of
# an exclusion pattern matters), two modules in a fake `site-packages` directory on PYTHONPATH
# (`is_in_pip`: followed from -f 2) and two modules whose NAMES isort classifies as stdlib but which
# are absent from this interpreter, so that the files on PYTHONPATH are the ones found
# (`is_in_stdlib`: followed at -f 3 only; never excludable). Every file is editable.
HELPERS = [
    "def make(h):\n    return h.inner\n",
    "def make(h):\n    return h.inner2\n",
    "def make(h):\n    return h.inner\n\n\ndef Make(h):\n    return h.cap\n",
]
PIPMOD = [
    "def pfn(p):\n    return p.p1\n",
    "def pfn(p):\n    return p.p2\n",
    "from pipdeep import deep\n\n\ndef pfn(p):\n    return deep(p.p1)\n",
    "from trans import leaf\n\n\ndef pfn(p):\n    return leaf(p.p1)\n",
    "import pipdeep\n\n\ndef pfn(p):\n    return pipdeep.deep(p)\n",
]
PIPDEEP = [
    "def deep(q):\n    return q.d1\n",
    "def deep(q):\n    return q.d2\n",
]
STDMOD = [
    "def sfn(s):\n    return s.s1\n",
    "def sfn(s):\n    return s.s2\n",
    "from asynchat import ac\n\n\ndef sfn(s):\n    return ac(s.s1)\n",
]
STDDEEP = [
    "def ac(t):\n    return t.t1\n",
    "def ac(t):\n    return t.t2\n",
]
_T_ALL = ("from direct import helper\nfrom pipmod import pfn\nfrom smtpd import sfn\nfrom Helpers import make\n\n\n"
          "def top(a):\n    a.x = 1\n    return helper(a) + pfn(a.p) + sfn(a.s) + make(a.h)\n\n\n"
          "def Top(b):\n    return b.cap\n")
N_OLD_TARGET = len(TARGET)
TARGET += [
    (_T_ALL, ["direct", "pipmod", "smtpd", "Helpers"]),                                             # 6
    ("from pipmod import pfn\n\n\ndef top(a):\n    return pfn(a.only)\n", ["pipmod"]),              # 7
    ("import pipmod\nimport smtpd\nimport Helpers\n\n\ndef top(a):\n    a.x = 1\n"
     "    return pipmod.pfn(a.p) + smtpd.sfn(a.s) + Helpers.make(a.h)\n", ["pipmod", "smtpd", "Helpers"]),  # 8
    ("from direct import helper\nfrom smtpd import sfn\n\n\ndef top(a):\n    return helper(a) + sfn(a)\n\n\n"
     "def leaf(z):\n    return z.own\n", ["direct", "smtpd"]),                                      # 9
]
DIRECT += [
    ("from trans import leaf\nfrom pipdeep import deep\n\n\ndef helper(b):\n    b.y\n    return leaf(b) + deep(b.d)\n",
     ["trans", "pipdeep"]),                                                                        # 6: local -> pip
    ("from nosuch import ghost\n\n\ndef helper(b):\n    return ghost(b.g)\n", ["nosuch"]),          # 7: unresolvable
    ("from asynchat import ac\n\n\ndef helper(b):\n    return ac(b.via_std)\n",
     ["asynchat"]),                                                                                # 8: local -> stdlib
]
TRANS += [("def leaf(c):\n    return c.z\n\n\ndef Leaf(c):\n    return c.capital\n", [])]            # 5

# ---- round 3: modules WITHOUT a function / class of their own on the path to the edited module -----
# (a package `__init__` that only re-exports, a module that only imports, an empty module, a
# constants-only module), as the target's direct import, deeper in the chain, in site-packages and
# among the stdlib-named modules; and modules behind symbolic links (file link, directory link).
# A `FileIr` is a mapping of the functions / classes of a file: for these modules it is EMPTY.
PKGINIT = [
    "from pkg.impl import thing\n",                                                        # 0 re-export only
    "",                                                                                    # 1 empty
    "LIMIT = 3\nNAMES = (\"a\", \"b\")\n",                                                 # 2 constants only
    "import pkg.impl\n",                                                                   # 3 plain import only
    "from pkg.impl import thing\n\n\ndef wrap(w):\n    return thing(w.wrapped)\n",           # 4 has a function
    "from pkg.impl import thing as thing\nfrom pkg.consts import LIMIT\n",                  # 5 two re-exports
    "from pkg import impl\n",                                                              # 6 sub-module as a member
    "from .impl import thing\n",                                                           # 7 relative re-export
    "from pkg.impl import thing\n\n\nclass Box:\n    def get(self):\n        return self.boxed\n",  # 8 has a class
]
PKGIMPL = [
    "def thing(x):\n    return x.alpha\n",
    "def thing(x):\n    return x.beta\n",
    "from trans import leaf\n\n\ndef thing(x):\n    return leaf(x.alpha)\n",
    "from pkg.consts import LIMIT\n\n\ndef thing(x):\n    return x.alpha\n",
    "from .consts import LIMIT\n\n\ndef thing(x):\n    return x.gamma\n",
]
PKGCONSTS = [
    "LIMIT = 3\n",
    "LIMIT = 4\n",
    "from trans import leaf\nLIMIT = 3\n",                  # constants + an import, still nothing defined
]
REEXP = [
    "from trans import leaf\n",                                                            # 0 re-export only
    "from trans import leaf as leaf2\nfrom trans import leaf\n",                            # 1
    "import trans\nleaf = trans.leaf\n",                                                   # 2 alias by assignment
    "from pkg import thing\nfrom trans import leaf\n",                                      # 3 through the package
    "from trans import leaf\n\n\ndef own(o):\n    return leaf(o.own)\n",                     # 4 control: has a function
    "from trans import leaf\nFLAG = True\n",                                               # 5 re-export + constant
]
N_R2_TARGET, N_R2_DIRECT = len(TARGET), len(DIRECT)
TARGET += [
    ("from pkg import thing\n\n\ndef top(a):\n    return thing(a)\n", ["pkg"]),                                    # 10
    ("from reexp import leaf\n\n\ndef top(a):\n    return leaf(a.r)\n", ["reexp"]),                                # 11
    ("import pkg\n\n\ndef top(a):\n    return pkg.thing(a)\n", ["pkg"]),                                           # 12
    ("from direct import helper\nfrom pkg import thing\nfrom reexp import leaf\n\n\ndef top(a):\n    a.x = 1\n"
     "    return helper(a) + thing(a.t) + leaf(a.r)\n", ["direct", "pkg", "reexp"]),                               # 13
    ("from settings import load\n\n\ndef top(a):\n    return load(a)\n", ["settings"]),                            # 14 file link
    ("from plugins.core import run\n\n\ndef top(a):\n    return run(a.plug)\n", ["plugins.core"]),                 # 15 dir link
    ("from direct import helper\nfrom settings import load\nfrom plugins.core import run\nimport plugins\n\n\n"
     "def top(a):\n    return helper(a) + load(a.env) + run(a.plug)\n", ["direct", "settings", "plugins.core", "plugins"]),  # 16
    ("from pkg.impl import thing\nfrom pkg import consts\n\n\ndef top(a):\n    return thing(a.d)\n",
     ["pkg.impl", "pkg.consts"]),                                                                                # 17
    ("def top(a):\n    return a.clean\n", []),                                                                    # 18 badness 0, no import
    ("from direct import helper\n\n\ndef top(a):\n    return helper(a) + undefined_fn(a.k) + other_undefined(a.j)\n",
     ["direct"]),                                                                                                # 19 more badness
]
DIRECT += [
    ("from pkg import thing\n\n\ndef helper(b):\n    return thing(b.viapkg)\n", ["pkg"]),                          # 9  def-less one level down
    ("from trans import leaf as helper\n", ["trans"]),                                                            # 10 direct itself def-less
    ("from reexp import leaf\n\n\ndef helper(b):\n    return leaf(b.viare)\n", ["reexp"]),                         # 11
    ("from settings import load\n\n\ndef helper(b):\n    return load(b.env)\n", ["settings"]),                     # 12 link one level down
    ("from pkg import thing as helper\nLEVEL = 2\n", ["pkg"]),                                                    # 13 def-less -> def-less
]
PIPMOD += ["from pipdeep import deep as pfn\n"]                                            # 5 def-less in site-packages
STDMOD += ["from asynchat import ac as sfn\n"]                                             # 3 def-less stdlib-named
SDEV = ["def load(env):\n    return env.debug_flag\n", "def load(env):\n    return env.debug_flag2\n",
        "from trans import leaf\n\n\ndef load(env):\n    return leaf(env.debug_flag)\n"]
SPROD = ["def load(env):\n    return env.secret_key\n", "def load(env):\n    return env.secret_key2\n"]
PLUGV1 = ["def run(p):\n    return p.v1\n", "def run(p):\n    return p.v1b\n"]
PLUGV2 = ["def run(p):\n    return p.v2\n", "def run(p):\n    return p.v2b\n"]
PINIT1 = [""]
PINIT2 = ["VERSION = 2\n"]

ROLES = ["target", "direct", "trans", "helpers", "pipmod", "pipdeep", "stdmod", "stddeep",
         "pkginit", "pkgimpl", "pkgconsts", "reexp", "sdev", "sprod", "plugv1", "plugv2", "pinit1", "pinit2"]
SP_DIR, STD_DIR = "_sp/site-packages", "_std"
FILES = {"target": ("target.py", TARGET), "direct": ("direct.py", DIRECT), "trans": ("trans.py", TRANS),
         "helpers": ("Helpers.py", [(x, None) for x in HELPERS]),
         "pipmod": (SP_DIR + "/pipmod.py", [(x, None) for x in PIPMOD]),
         "pipdeep": (SP_DIR + "/pipdeep.py", [(x, None) for x in PIPDEEP]),
         "stdmod": (STD_DIR + "/smtpd.py", [(x, None) for x in STDMOD]),
         "stddeep": (STD_DIR + "/asynchat.py", [(x, None) for x in STDDEEP]),
         "pkginit": ("pkg/__init__.py", [(x, None) for x in PKGINIT]),
         "pkgimpl": ("pkg/impl.py", [(x, None) for x in PKGIMPL]),
         "pkgconsts": ("pkg/consts.py", [(x, None) for x in PKGCONSTS]),
         "reexp": ("reexp.py", [(x, None) for x in REEXP]),
         "sdev": ("impl/settings_dev.py", [(x, None) for x in SDEV]),
         "sprod": ("impl/settings_prod.py", [(x, None) for x in SPROD]),
         "plugv1": ("plugins_v1/core.py", [(x, None) for x in PLUGV1]),
         "plugv2": ("plugins_v2/core.py", [(x, None) for x in PLUGV2]),
         "pinit1": ("plugins_v1/__init__.py", [(x, None) for x in PINIT1]),
         "pinit2": ("plugins_v2/__init__.py", [(x, None) for x in PINIT2])}
# modules that ARE a file of the project (found under their own path)
MODNAME = {"direct": "direct", "trans": "trans", "helpers": "Helpers", "pipmod": "pipmod", "pipdeep": "pipdeep",
           "stdmod": "smtpd", "stddeep": "asynchat", "pkginit": "pkg", "pkgimpl": "pkg.impl", "pkgconsts": "pkg.consts",
           "reexp": "reexp"}
ROLE_OF_MOD = {v: k for k, v in MODNAME.items()}
CLASS = {"target": "target", "direct": "local", "trans": "local", "helpers": "local", "pipmod": "pip", "pipdeep": "pip",
         "stdmod": "stdlib", "stddeep": "stdlib", "pkginit": "local", "pkgimpl": "local", "pkgconsts": "local",
         "reexp": "local", "sdev": "local", "sprod": "local", "plugv1": "local", "plugv2": "local", "pinit1": "local",
         "pinit2": "local"}
# symbolic links: name -> (path of the link, kind, {choice: what it points to (relative to the link's directory)})
LINKS = {"settings": ("settings.py", "file", {"dev": "impl/settings_dev.py", "prod": "impl/settings_prod.py"}),
         "plugins": ("plugins", "dir", {"v1": "plugins_v1", "v2": "plugins_v2"})}
LINK0 = {"settings": "dev", "plugins": "v1"}
# modules found THROUGH a link: name -> (origin = path through the link, link name, {choice: role read})
LINKMODS = {"settings": ("settings.py", "settings", {"dev": "sdev", "prod": "sprod"}),
            "plugins": ("plugins/__init__.py", "plugins", {"v1": "pinit1", "v2": "pinit2"}),
            "plugins.core": ("plugins/core.py", "plugins", {"v1": "plugv1", "v2": "plugv2"})}
ALL_MODS = list(ROLE_OF_MOD) + list(LINKMODS)
EDIT_OPS = {"editTarget": "target", "editDirect": "direct", "editTransitive": "trans"}
STATE0 = {**{r: 0 for r in ROLES}, **{"link:" + k: v for k, v in LINK0.items()}}


def lkey(name):
    return "link:" + name


def role_of(mod, state):
    """The role (file of the family) whose content is read when module `mod` is opened in `state`."""
    if mod in ROLE_OF_MOD:
        return ROLE_OF_MOD[mod]
    origin, link, choices = LINKMODS[mod]
    return choices[state[lkey(link)]]


def package_of(path):
    """Dotted package a file at project-relative `path` belongs to (for relative imports)."""
    for root in (SP_DIR + "/", STD_DIR + "/"):
        if path.startswith(root):
            path = path[len(root):]
    parts = path[:-3].split("/")
    return ".".join(parts[:-1] if parts[-1] != "__init__" else parts[:-1])


def src_of(role, i):
    return FILES[role][1][i][0]


_SRC_MD5 = {}


def src_md5(role, i):
    if (role, i) not in _SRC_MD5:
        _SRC_MD5[(role, i)] = md5(src_of(role, i))
    return _SRC_MD5[(role, i)]


# hashed = (follow level, excluded imports, excluded names); other = un-hashed options.
# `via`: how the hashed options reach rattr — short / long command-line flags, or pyproject.toml.
def _opt(follow=1, F=(), x=(), other=(), via="short", legacy_args=None, toml_extra=""):
    F, x, other = list(F), list(x), list(other)
    if via == "toml":
        args = []
        toml = "[tool.rattr]\nfollow-imports = %d\n" % follow
        if F:
            toml += "exclude-imports = [%s]\n" % ", ".join(json.dumps(p) for p in F)
        if x:
            toml += "exclude = [%s]\n" % ", ".join(json.dumps(p) for p in x)
    else:
        f_, F_, x_ = ("-f", "-F", "-x") if via == "short" else ("--follow-imports", "--exclude-import", "--exclude")
        args = ([] if (follow == 1 and via == "short") else [f_, str(follow)])
        for p_ in F:
            args += [F_, p_]
        for p_ in x:
            args += [x_, p_]
        toml = ("[tool.rattr]\n" if toml_extra else "")
    toml += toml_extra
    if legacy_args is not None:
        args = list(legacy_args)
    # the strictness in force (un-hashed): None = no limit, "strict", or the threshold N
    limit = None
    if "--strict" in other or "strict = true" in toml_extra:
        limit = "strict"
    elif "--threshold" in other:
        limit = int(other[other.index("--threshold") + 1])
    elif "threshold" in toml_extra:
        limit = int(re.search(r"threshold = (\d+)", toml_extra).group(1))
    okey = " ".join(other) + (("|toml:" + toml_extra.strip().replace("\n", ";")) if toml_extra else "")
    return {"args": args + other, "follow": follow, "F": F, "x": x, "other": okey, "via": via, "toml": toml,
            "limit": limit}


OPTIONS = [
    _opt(),
    _opt(follow=0),
    _opt(F=["trans"]),
    _opt(x=["leaf"]),
    _opt(other=["-H"]),
    _opt(other=["--threshold", "1"]),
    _opt(F=["direct"]),
    _opt(follow=2),
    # exclusion patterns that match the dotted name of an imported MEMBER (trans.leaf, direct.helper)
    # but no module: nothing is excluded, every module is still followed and must be recorded
    _opt(F=[r".*\.leaf"]),
    _opt(F=[r"direct\.helper"]),
    _opt(F=[r".*\.[hl]\w+", r".*\._\w+"]),
]
N_OLD_OPTIONS = len(OPTIONS)

# ---- near-collisions of the hashed options: groups of option sets that a sloppy key could conflate.
# Within a group the from-scratch oracle decides which changes matter (state: target 6, trans 5).
F_GROUPS = {
    "case": [["helpers"], ["Helpers"], ["HELPERS"]],
    "case2": [["Direct"], ["direct"]],
    "case-pip": [["PIPMOD"], ["pipmod"], ["PipMod"]],
    "case-class": [[r"\w+"], [r"\W+"]],
    "case-class2": [[r"[A-Z]\w+"], [r"[a-z]\w+"]],
    "order-dup": [["trans", "Helpers"], ["Helpers", "trans"], ["trans", "trans", "Helpers"], ["Helpers", "trans", "Helpers"]],
    "space": [["trans"], [" trans"], ["trans "], ["tr ans"]],
    "regex-equiv": [["trans"], ["tran[s]"], ["(trans)"], ["trans|trans"]],
    "split-join": [["trans", "direct"], ["trans|direct"], ["trans, direct"], ["trans', 'direct"], ["transdirect"]],
    "origin": [[r".*/direct\.py"], [r".*/Direct\.py"], [r".*/site-packages/.*"], [r".*/SITE-PACKAGES/.*"]],
    "stdlib-name": [["smtpd"], ["SMTPD"], [r".*/smtpd\.py"]],
    "empty": [[], [""], ["", ""]],
}
X_GROUPS = {
    "case": [["top"], ["Top"], ["TOP"]],
    "case-followed": [["leaf"], ["Leaf"]],
    "case-class": [[r"[a-z]+"], [r"[A-Z]+"]],
    "order-dup": [["leaf", "Top"], ["Top", "leaf"], ["leaf", "leaf", "Top"]],
    "space": [["leaf"], [" leaf"], ["leaf "]],
    "regex-equiv": [["leaf"], ["lea[f]"], ["(leaf)"]],
    "split-join": [["leaf", "top"], ["leaf|top"], ["leaftop"]],
}
GROUPS = {}      # (field, group name) -> list of option indices


def _add_groups():
    for field, groups in (("F", F_GROUPS), ("x", X_GROUPS)):
        for gname, members in groups.items():
            idx = []
            for k, pats in enumerate(members):
                via = ("short", "long", "toml")[k % 3] if gname in ("case", "order-dup") else "short"
                OPTIONS.append(_opt(**{field: pats}, via=via))
                idx.append(len(OPTIONS) - 1)
            GROUPS[(field, gname)] = idx
    # the same pattern moved between the two fields, and follow levels through every channel
    OPTIONS.append(_opt(F=["leaf"]))
    OPTIONS.append(_opt(x=["trans"]))
    GROUPS[("Fx", "swap")] = [3, len(OPTIONS) - 2, 2, len(OPTIONS) - 1]
    lv = []
    for follow in (0, 1, 2, 3):
        for via in ("short", "long", "toml"):
            OPTIONS.append(_opt(follow=follow, via=via))
            lv.append(len(OPTIONS) - 1)
    GROUPS[("follow", "levels")] = lv
    # exclusions combined with the higher follow levels
    for follow in (2, 3):
        at = {}
        for pats in (["pipmod"], ["Pipmod"], ["pipdeep"], ["smtpd"], [r".*/site-packages/.*"], ["Helpers"], ["helpers"]):
            OPTIONS.append(_opt(follow=follow, F=pats))
            at[pats[0]] = len(OPTIONS) - 1
        # near-collisions at the levels where the module's class IS followed
        GROUPS[("F", f"case-pip-follow{follow}")] = [at["pipmod"], at["Pipmod"], at["pipdeep"]]
        GROUPS[("F", f"case-follow{follow}")] = [at["Helpers"], at["helpers"]]
        OPTIONS.append(_opt(follow=follow, x=["pfn"]))
        OPTIONS.append(_opt(follow=follow, x=["deep"]))
        OPTIONS.append(_opt(follow=follow, other=["--threshold", "1"]))


_add_groups()
N_R2_OPTIONS = len(OPTIONS)
# ---- round 3: every strictness setting (un-hashed), through the command line and pyproject.toml
STRICT_OPT = {}          # limit -> option index (command line); ("toml", limit) -> option index
OPTIONS.append(_opt(other=["--strict"]))
STRICT_OPT["strict"] = len(OPTIONS) - 1
STRICT_OPT[1] = 5
for _n in (2, 3, 4, 5, 6):
    OPTIONS.append(_opt(other=["--threshold", str(_n)]))
    STRICT_OPT[_n] = len(OPTIONS) - 1
OPTIONS.append(_opt(other=["--threshold", "0"]))
STRICT_OPT[0] = len(OPTIONS) - 1
OPTIONS.append(_opt(toml_extra="strict = true\n"))
STRICT_OPT[("toml", "strict")] = len(OPTIONS) - 1
for _n in (1, 2, 4):
    OPTIONS.append(_opt(toml_extra="threshold = %d\n" % _n))
    STRICT_OPT[("toml", _n)] = len(OPTIONS) - 1
OPTIONS.append(_opt(follow=2, other=["--strict"]))
STRICT_OPT[("follow2", "strict")] = len(OPTIONS) - 1
OPTIONS.append(_opt(follow=0, other=["--strict"], via="long"))
STRICT_OPT[("follow0", "strict")] = len(OPTIONS) - 1
# exclusion by the origin of a package / of a path through a link / of a link's target
PATH_OPT = {}
for _f in (1, 2):
    for _pat in ([r".*/pkg/__init__\.py"], ["pkg"], [r"pkg\..*"], [r".*/settings\.py"], [r".*/impl/settings_dev\.py"],
                 [r".*/plugins/.*"], [r".*/plugins_v1/.*"]):
        OPTIONS.append(_opt(follow=_f, F=_pat))
        PATH_OPT[(_f, _pat[0])] = len(OPTIONS) - 1


def limit_json(o):
    return "strict" if o["limit"] == "strict" else int(o["limit"] or 0)


def limit_class(o):
    return "none" if o["limit"] in (None, 0) else ("strict" if o["limit"] == "strict" else "threshold")
LEVEL_OPT = {f: next(i for i, o in enumerate(OPTIONS) if o["follow"] == f and not o["F"] and not o["x"]
                     and not o["other"] and o["via"] == "short") for f in (0, 1, 2, 3)}


def md5(b) -> str:
    return hashlib.md5(b if isinstance(b, bytes) else b.encode()).hexdigest()


def optkey(o) -> str:
    """The hashed options as a canonical value [interp: the patterns are a SET]."""
    return json.dumps([o["follow"], sorted(set(o["F"])), sorted(set(o["x"]))])


_STDLIB_ORIGIN = {}


def stdlib_origin(name):
    if name not in _STDLIB_ORIGIN:
        spec = importlib.util.find_spec(name)
        _STDLIB_ORIGIN[name] = spec.origin if spec else None
    return _STDLIB_ORIGIN[name]


_IS_STDLIB = {}


def is_stdlib_name(name):
    """isort's verdict, asked directly (trusted classifier; not through rattr)."""
    if name not in _IS_STDLIB:
        from isort import sections
        from isort.api import place_module

        _IS_STDLIB[name] = place_module(name) == sections.STDLIB
    return _IS_STDLIB[name]


# modules outside the project that variants import: name -> (origin, readable as source)
EXTERNAL = {"math": (stdlib_origin("math"), False), "sys": ("built-in", False)}


def longest_module(dotted):
    """`find_module_name_and_spec`, read independently: the longest right-stripped prefix of a dotted
    name that is a module of the family (or one of the external ones)."""
    parts = dotted.split(".")
    for k in range(len(parts), 0, -1):
        m = ".".join(parts[:k])
        if m in ROLE_OF_MOD or m in LINKMODS or m in EXTERNAL:
            return m
    return None


def scan_imports(src, path=""):
    """My own reading of the `Import` symbols of a file's root context: [(module named in the
    statement, module the symbol belongs to | None)] in order of appearance (plain `import M`,
    `from M import a, b` and relative `from .M import a` at module level; the symbol of
    `from M import a` belongs to `M.a` when that is a module, else to `M`, else to the longest
    prefix of `M` that is one)."""
    import ast as _ast

    out = []
    for node in _ast.parse(src).body:
        if isinstance(node, _ast.Import):
            for a in node.names:
                out.append((a.name, longest_module(a.name)))
        elif isinstance(node, _ast.ImportFrom):
            mod = node.module
            if node.level:
                base = package_of(path).split(".") if package_of(path) else []
                base = base[:len(base) - (node.level - 1)] if node.level > 1 else base
                mod = ".".join(base + ([node.module] if node.module else []))
            for a in node.names:
                out.append((mod, longest_module(mod + "." + a.name)))
    return out


_SCAN = {}


def imports_of(role, i):
    if (role, i) not in _SCAN:
        _SCAN[(role, i)] = scan_imports(src_of(role, i), FILES[role][0])
    return _SCAN[(role, i)]


def origin_rel(mod):
    """Origin of a module name: project-relative for the family's files (for a module behind a
    symbolic link: the path THROUGH the link, which is what the search path yields)."""
    if mod in ROLE_OF_MOD:
        return FILES[ROLE_OF_MOD[mod]][0]
    if mod in LINKMODS:
        return LINKMODS[mod][0]
    return EXTERNAL[mod][0]


def known_mod(mod):
    return mod in ROLE_OF_MOD or mod in LINKMODS or mod in EXTERNAL


def names_right(mod):
    parts = mod.split(".")
    return [".".join(parts[:k]) for k in range(len(parts), 0, -1)]


def permanent_patterns():
    from rattr.config._types import Config as _C

    pats = set(getattr(_C, "MODULE_BLACKLIST_PATTERNS", ()) or ())
    return sorted(pats) or ["packages?\\.rattr", "packages?\\.rattr\\..*", "rattr", "rattr\\..*"]


def abs_origin(org, d):
    return org if os.path.isabs(org) or org == "built-in" else (d + "/" + org if d else "/proj/" + org)


def excluded_mod(o, mod, d=""):
    """My own reading of is_in_import_blacklist: stdlib names are never excluded; otherwise a user or
    permanent pattern fully matches the module's name or the origin of the module or of one of its
    parent packages."""
    if not mod:
        return True
    if is_stdlib_name(mod):
        return False
    texts = [mod]
    for m in names_right(mod):
        if known_mod(m) and origin_rel(m):
            texts.append(abs_origin(origin_rel(m), d))
    return any(re.fullmatch(p, t) for p in list(o["F"]) + permanent_patterns() for t in texts)


def mod_class(mod):
    if mod in ROLE_OF_MOD:
        return CLASS[ROLE_OF_MOD[mod]]
    if mod in LINKMODS:
        return "local"
    return "stdlib" if is_stdlib_name(mod) else "local"


def expected_analysis(state, d=""):
    """My own reading of parse_and_analyse_imports + make_cacheable_import_info for this family:
    (analysed module names in order, recorded origins) or None when the import stage does not complete."""
    o = OPTIONS[state["opt"]]
    follow = o["follow"]

    contexts = [imports_of("target", state["target"])]
    for stmt, tgt in contexts[0]:
        if tgt is None and not excluded_mod(o, stmt, d):
            return None                      # fatal: unable to find module
    analysed, seen = [], set()
    queue = list(contexts[0]) if follow >= 1 else []
    while queue:
        stmt, mod = queue.pop(0)
        if mod is None:
            continue
        org = origin_rel(mod)
        if org in seen or excluded_mod(o, mod, d):
            continue
        if mod_class(mod) == "pip" and follow < 2:
            continue
        if mod_class(mod) == "stdlib" and follow < 3:
            continue
        if mod not in ROLE_OF_MOD and mod not in LINKMODS:
            return None                      # crash: not a source file
        role = role_of(mod, state)
        syms = imports_of(role, state[role])
        for s2, t2 in syms:
            if t2 is None and not excluded_mod(o, s2, d):
                return None
        analysed.append(mod)
        seen.add(org)
        contexts.append(syms)
        queue += syms
    rec = set()
    for c in contexts:
        for stmt, mod in c:
            if mod is None or excluded_mod(o, mod, d):
                continue
            org = origin_rel(mod)
            if org and org != "built-in":
                rec.add(org)
    return analysed, sorted(rec)


# ------------------------------------------------------------------ history generation

def random_history(rng, maxlen):
    """Legacy family (target / direct / trans, the first options): kept as it was."""
    n = rng.randint(2, maxlen)
    ops = []
    for _ in range(n):
        r = rng.random()
        if r < 0.34:
            ops.append(["runWithCache"])
        elif r < 0.42:
            ops.append(["forceRefresh"])
        elif r < 0.56:
            ops.append(["editTarget", rng.randrange(N_OLD_TARGET)])
        elif r < 0.70:
            ops.append(["editDirect", rng.randrange(6)])
        elif r < 0.84:
            ops.append(["editTransitive", rng.randrange(5)])
        else:
            ops.append(["changeOption", rng.randrange(N_OLD_OPTIONS)])
    return close(ops)


SMALL = {"target": [0, 2, 6, 7, 8, 9, 10, 11, 12, 13, 14, 15, 16, 17], "direct": [0, 1, 2, 3, 6, 7, 8, 9, 10, 11, 12, 13],
         "trans": [0, 1, 2, 5]}


def random_history2(rng, maxlen):
    """Generalised family: any file of any class is edited, any option set of OPTIONS (follow 0..3,
    the near-collision groups, every delivery channel, every strictness setting) is switched to, links
    are re-pointed, files edited through links, the cache file damaged — in random order."""
    n = rng.randint(3, maxlen)
    ops = [["edit", "target", rng.choice([6, 6, 8, 9, 13, 16, 10, 11])], ["changeOption", rng.randrange(len(OPTIONS))]]
    for _ in range(n):
        r = rng.random()
        if r < 0.34:
            ops.append(["runWithCache"])
        elif r < 0.38:
            ops.append(["forceRefresh"])
        elif r < 0.66:
            role = rng.choice(ROLES)
            ops.append(["edit", role, rng.choice(SMALL.get(role) or list(range(len(FILES[role][1]))))])
        elif r < 0.72:
            name = rng.choice(sorted(LINKS))
            ops.append(["relink", name, rng.choice(sorted(LINKS[name][2]))])
        elif r < 0.75:
            mod = rng.choice(["settings", "plugins.core"])
            ops.append(["editlink", mod, rng.randrange(2)])
        elif r < 0.80:
            ops += [["damage", rng.choice(DAMAGE_KINDS)], ["runWithCache"]]
        elif r < 0.89:
            ops.append(["changeOption", rng.randrange(len(OPTIONS))])
        else:
            # a near-collision: another member of a group the current... any group
            g = rng.choice(sorted(GROUPS))
            ops.append(["changeOption", rng.choice(GROUPS[g])])
            ops.append(["runWithCache"])
            ops.append(["changeOption", rng.choice(GROUPS[g])])
    return close(ops)


def class_level_histories():
    """follow level 0..3 x module class (local / pip / stdlib-named, imported directly or
    transitively, by `from` and by `import`) x 'edit the module between two runs sharing a cache'."""
    out = []
    for tgt in (6, 8):
        for lvl in (0, 1, 2, 3):
            if tgt == 8 and lvl < 2:
                continue                     # the `import M` form: the levels that follow pip / stdlib
            h = [["edit", "target", tgt], ["edit", "pipmod", 2], ["edit", "stdmod", 2],
                 ["changeOption", LEVEL_OPT[lvl]], ["runWithCache"], ["runWithCache"]]
            for role, v in (("pipmod", 4), ("stdmod", 1), ("helpers", 1), ("pipdeep", 1), ("stddeep", 1),
                            ("direct", 1), ("trans", 1), ("pipmod", 2), ("stdmod", 2)):
                h += [["edit", role, v], ["runWithCache"]]
            out.append(h)
    # the dependency reaches another class: local -> pip, local -> stdlib, pip -> local
    for lvl in (1, 2, 3):
        out.append([["edit", "target", 9], ["edit", "direct", 6], ["changeOption", LEVEL_OPT[lvl]], ["runWithCache"],
                    ["edit", "pipdeep", 1], ["runWithCache"], ["edit", "direct", 8], ["runWithCache"],
                    ["edit", "stddeep", 1], ["runWithCache"], ["edit", "target", 7], ["edit", "pipmod", 3],
                    ["runWithCache"], ["edit", "trans", 1], ["runWithCache"], ["edit", "trans", 0], ["runWithCache"]])
    # level changes between runs, every delivery channel, with an edit of a module whose class the
    # new level starts / stops following
    lv = GROUPS[("follow", "levels")]
    seq = [lv[3 * 2 + 0], lv[3 * 1 + 1], lv[3 * 2 + 2], lv[3 * 3 + 1], lv[3 * 2 + 1], lv[3 * 0 + 2], lv[3 * 3 + 2],
           lv[3 * 3 + 0]]
    h = [["edit", "target", 6]]
    for k, oi in enumerate(seq):
        h += [["changeOption", oi], ["runWithCache"], ["edit", ("pipmod", "stdmod", "helpers")[k % 3], k % 2],
              ["runWithCache"]]
    out.append(h)
    # excluded modules of each class at the levels that would follow them
    for oi, o in enumerate(OPTIONS):
        if o["follow"] in (2, 3) and (o["F"] or o["x"]) and o["via"] == "short":
            h = [["edit", "target", 6], ["edit", "pipmod", 2], ["changeOption", oi], ["runWithCache"],
                 ["edit", "pipmod", 4], ["runWithCache"], ["edit", "pipdeep", 1], ["runWithCache"],
                 ["edit", "stdmod", 1], ["runWithCache"]]
            if any("elpers" in p_ for p_ in o["F"]):
                h += [["edit", "helpers", 1], ["runWithCache"]]
            out.append(h)
    # an unresolvable import: fatal unless excluded; the exclusion is part of the key
    out.append([["edit", "direct", 7], ["runWithCache"], ["changeOption", 1], ["runWithCache"], ["changeOption", 0],
                ["runWithCache"], ["edit", "direct", 0], ["runWithCache"], ["runWithCache"]])
    return out


def option_pair_histories():
    """Two runs sharing a cache whose hashed options differ only by a near-collision (letter case,
    order, repetition, white space, an equivalent regex, the same text in the other field), in both
    directions, in a state where the difference can matter for a module / function name."""
    out = []
    base = [["edit", "target", 6], ["edit", "trans", 5], ["edit", "helpers", 2], ["edit", "pipmod", 2]]
    for key in sorted(GROUPS):
        idx = GROUPS[key]
        if key == ("follow", "levels"):
            continue
        # a tour through the group and back: every adjacent pair in both directions
        tour = idx + idx[::-1][1:]
        if len(idx) > 2:
            tour += [idx[0], idx[2], idx[0]]
        h = list(base)
        for oi in tour:
            h += [["changeOption", oi], ["runWithCache"]]
        out.append(h)
    return out


def defless_histories(tier="quick"):
    """Round 3: a module WITHOUT a function / class of its own (re-export-only `__init__`, import-only
    module, empty module, constants-only module) lies on the path to the module that is edited — as
    the target's direct import, one level down, in site-packages, among the stdlib-named modules —
    and the intermediate module itself changes between its def-less and def-ful variants."""
    out = []
    full = tier != "quick"
    # target -> pkg/__init__ (variant) -> pkg/impl: edit impl, edit consts behind a second def-less hop
    for tgt, inits in ((10, (0, 7, 5, 4, 6) if full else (0, 7, 5)), (12, (0, 3, 8) if full else (3, 8)),
                       (13, (0, 5) if full else (5,))):
        h = [["edit", "target", tgt]]
        for k, iv in enumerate(inits):
            h += [["edit", "pkginit", iv], ["runWithCache"]] + ([["runWithCache"]] if k == 0 or full else []) + \
                 [["edit", "pkgimpl", (k + 1) % 2], ["runWithCache"]]
        if tgt == 10 or full:
            h += [["edit", "pkginit", 5], ["edit", "pkgimpl", 3], ["runWithCache"], ["edit", "pkgconsts", 2], ["runWithCache"],
                  ["edit", "trans", 1], ["runWithCache"], ["edit", "pkgconsts", 1], ["runWithCache"], ["runWithCache"]]
        out.append(h)
    # empty / constants-only __init__: nothing behind it is a dependency
    out.append([["edit", "target", 10], ["edit", "pkginit", 0], ["runWithCache"], ["edit", "pkginit", 1], ["runWithCache"],
                ["edit", "pkgimpl", 1], ["runWithCache"], ["edit", "pkginit", 2], ["runWithCache"], ["edit", "pkgimpl", 0],
                ["runWithCache"], ["edit", "pkginit", 0], ["runWithCache"]])
    # a plain module that only imports; aliases; through the package
    for rv in ((0, 1, 2, 5, 3, 4) if full else (0, 2, 3)):
        h = [["edit", "target", 11], ["edit", "reexp", rv], ["runWithCache"], ["edit", "trans", 1],
             ["runWithCache"], ["runWithCache"]]
        if rv == 3:
            h += [["edit", "pkgimpl", 1], ["runWithCache"], ["edit", "pkgimpl", 2], ["runWithCache"], ["edit", "trans", 0],
                  ["runWithCache"]]
        out.append(h)
    # the def-less module one level down (in a followed import), and the followed import itself def-less
    for dv, leaf_role in ((9, "pkgimpl"), (10, "trans"), (11, "trans"), (13, "pkgimpl")):
        out.append([["edit", "direct", dv], ["runWithCache"], ["edit", leaf_role, 1], ["runWithCache"],
                    ["changeOption", 1], ["runWithCache"], ["edit", leaf_role, 0], ["runWithCache"]])
    # def-less modules of the other classes at the levels that follow them
    for lvl in (2, 3):
        out.append([["edit", "target", 6], ["edit", "pipmod", 5], ["edit", "stdmod", 3], ["changeOption", LEVEL_OPT[lvl]],
                    ["runWithCache"], ["edit", "pipdeep", 1], ["runWithCache"], ["edit", "stddeep", 1],
                    ["runWithCache"], ["edit", "pipmod", 2], ["runWithCache"], ["edit", "pipdeep", 0], ["runWithCache"]])
    # sub-modules imported directly, the package __init__ is then not a dependency
    out.append([["edit", "target", 17], ["runWithCache"], ["edit", "pkgconsts", 1], ["runWithCache"], ["edit", "pkginit", 4],
                ["runWithCache"], ["edit", "pkgimpl", 4], ["runWithCache"], ["edit", "pkgconsts", 2], ["runWithCache"],
                ["edit", "trans", 2], ["runWithCache"]])
    return out


def link_histories(tier="quick"):
    """Round 3: module files / package directories that are symbolic links: re-pointed between two runs
    (nothing else changes), edited in place through the link, the file the link no longer points to
    edited; as the target's direct import and one level down; the link path / the link's target named
    by an exclusion pattern."""
    out = []
    out.append([["edit", "target", 14], ["runWithCache"], ["runWithCache"], ["relink", "settings", "prod"], ["runWithCache"],
                ["runWithCache"], ["edit", "sdev", 1], ["runWithCache"], ["editlink", "settings", 1], ["runWithCache"],
                ["relink", "settings", "dev"], ["edit", "sdev", 2], ["runWithCache"], ["edit", "trans", 1],
                ["runWithCache"], ["relink", "settings", "prod"], ["runWithCache"], ["edit", "trans", 0], ["runWithCache"]])
    out.append([["edit", "target", 15], ["runWithCache"], ["runWithCache"], ["relink", "plugins", "v2"], ["runWithCache"],
                ["runWithCache"], ["edit", "plugv1", 1], ["runWithCache"], ["editlink", "plugins.core", 1], ["runWithCache"],
                ["relink", "plugins", "v1"], ["runWithCache"]])
    out.append([["edit", "target", 16], ["runWithCache"], ["relink", "plugins", "v2"], ["runWithCache"],
                ["relink", "settings", "prod"], ["runWithCache"], ["relink", "plugins", "v1"], ["relink", "settings", "dev"],
                ["runWithCache"], ["edit", "sprod", 1], ["edit", "plugv2", 1], ["runWithCache"]])
    for oi in ((0, LEVEL_OPT[2], LEVEL_OPT[0]) if tier != "quick" else (0,)):
        out.append([["edit", "direct", 12], ["changeOption", oi], ["runWithCache"], ["relink", "settings", "prod"],
                    ["runWithCache"], ["editlink", "settings", 1], ["runWithCache"],
                    ["relink", "settings", "dev"], ["runWithCache"]])
    # exclusion by the path through the link (excluded: not a dependency, whichever way it points) and by the
    # link's target (not what the module locator yields: not excluded)
    out.append([["edit", "target", 16], ["changeOption", PATH_OPT[(1, r".*/settings\.py")]], ["runWithCache"],
                ["relink", "settings", "prod"], ["runWithCache"], ["changeOption", PATH_OPT[(1, r".*/impl/settings_dev\.py")]],
                ["runWithCache"], ["relink", "settings", "dev"], ["runWithCache"],
                ["changeOption", PATH_OPT[(1, r".*/plugins_v1/.*")]], ["runWithCache"], ["relink", "plugins", "v2"],
                ["runWithCache"], ["changeOption", PATH_OPT[(1, r".*/plugins/.*")]], ["runWithCache"],
                ["relink", "plugins", "v1"], ["runWithCache"]])
    return out


PLANNED_BADNESS = {18: 0, 0: 0, 3: 2, 19: 4}


def strict_damage_histories(rng, tier):
    """Round 3: damage to the cache file x every strictness setting. A run on a damaged cache file must
    be the run without a cache file (exit status, output, cache rewritten), and the run after it must
    find a good cache — for a clean target and for targets whose own badness is at / around the
    threshold (the thresholds are chosen around the badness observed by `probe_badness`)."""
    out = []
    # target variant, its own badness by construction (checked against the probe in run()), limits
    plans = [(18, ["strict", ("toml", "strict"), 1, 0, ("follow0", "strict")]),
             (0, ["strict", ("follow2", "strict"), ("toml", 1)][0 if tier != "quick" else 1:]),
             (3, [1, 2, 3, ("toml", 2), "strict", 0]),
             (19, [3, 4, 5, ("toml", 4)] if tier != "quick" else [3, 4, ("toml", 4)])]
    kinds = list(DAMAGE_KINDS)
    rng.shuffle(kinds)
    k = 0
    for tgt, limits in plans:
        b = PLANNED_BADNESS[tgt]
        for lim in limits:
            n = lim[1] if isinstance(lim, tuple) else lim
            fatal = (b > 0) if n == "strict" else (n != 0 and b > n)
            # where the from-scratch run is fatal anyway one damaged run suffices (nothing may change)
            per = 1 if fatal else (2 if tier == "quick" else len(kinds))
            h = [["edit", "target", tgt], ["changeOption", STRICT_OPT[lim]], ["runWithCache"]]
            for j in range(per):
                kind = kinds[k % len(kinds)]
                k += 1
                h += [["damage", kind], ["runWithCache"]]
                if j == 0 and not fatal:
                    h += [["runWithCache"]]
            out.append(h)
    # damage, then a DIFFERENT strictness than the one the cache was written under; damage + -r
    out.append([["edit", "target", 3], ["runWithCache"], ["damage", "truncate-half"], ["changeOption", STRICT_OPT[2]],
                ["runWithCache"], ["runWithCache"], ["damage", "null"], ["changeOption", STRICT_OPT[1]], ["runWithCache"],
                ["forceRefresh"], ["changeOption", STRICT_OPT[3]], ["damage", "wrong-type"], ["forceRefresh"],
                ["runWithCache"]])
    return out


def close(ops):
    """Drop trailing ops nobody observes, end with a run."""
    ops = [list(o) for o in ops]
    if not ops or ops[-1][0] not in ("runWithCache", "forceRefresh"):
        ops.append(["runWithCache"])
    return ops


CORPUS = [
    # the strictness-bypass history (known finding)
    [["editTarget", 3], ["runWithCache"], ["changeOption", 5], ["runWithCache"]],
    # DESIGN §5: edit of a transitive import, option change, repeat
    [["runWithCache"], ["runWithCache"], ["editTransitive", 1], ["runWithCache"], ["runWithCache"],
     ["changeOption", 3], ["runWithCache"], ["runWithCache"], ["changeOption", 0], ["runWithCache"]],
    # the dependency set shrinks, then the dropped module changes, then it is needed again
    [["runWithCache"], ["editDirect", 2], ["runWithCache"], ["editTransitive", 1], ["runWithCache"],
     ["editDirect", 0], ["runWithCache"], ["editTransitive", 0], ["runWithCache"]],
    # revert to earlier content (hash equal again), forced refresh, failed run keeps the old cache
    [["runWithCache"], ["editTarget", 2], ["editTarget", 0], ["runWithCache"], ["forceRefresh"],
     ["changeOption", 5], ["editTarget", 3], ["runWithCache"], ["forceRefresh"], ["changeOption", 0],
     ["runWithCache"]],
    # not followed / excluded modules are not dependencies
    [["changeOption", 2], ["runWithCache"], ["editTransitive", 1], ["runWithCache"], ["changeOption", 6],
     ["runWithCache"], ["editDirect", 1], ["runWithCache"], ["changeOption", 1], ["runWithCache"],
     ["editTransitive", 2], ["runWithCache"], ["editDirect", 3], ["runWithCache"]],
    # big files (> 2 read blocks of padding): edits confined to the END of the transitive import,
    # of the direct import and of the target must each be noticed
    [["editTransitive", 3], ["runWithCache"], ["runWithCache"], ["editTransitive", 4], ["runWithCache"],
     ["editDirect", 4], ["runWithCache"], ["editDirect", 5], ["runWithCache"], ["runWithCache"]],
    [["editTarget", 4], ["runWithCache"], ["editTarget", 5], ["runWithCache"], ["editTarget", 4],
     ["runWithCache"], ["runWithCache"]],
    # -F patterns matching only member names: the followed modules stay dependencies
    [["changeOption", 8], ["runWithCache"], ["editTransitive", 1], ["runWithCache"], ["runWithCache"],
     ["changeOption", 9], ["runWithCache"], ["editDirect", 1], ["runWithCache"], ["editTransitive", 0],
     ["runWithCache"]],
    [["changeOption", 10], ["runWithCache"], ["editDirect", 1], ["runWithCache"], ["editTransitive", 2],
     ["runWithCache"], ["editTransitive", 1], ["runWithCache"]],
]

# exhaustive alphabet: parameterless toggles
TOGGLE = {"editTarget": [0, 2], "editDirect": [0, 2], "editTransitive": [0, 1], "changeOption": [0, 3]}


def exhaustive_histories(maxlen):
    alpha = ["editTarget", "editDirect", "editTransitive", "changeOption", "runWithCache", "forceRefresh"]
    seen, out = set(), []
    for n in range(1, maxlen + 1):
        for seq in itertools.product(alpha, repeat=n):
            st = {"editTarget": 0, "editDirect": 0, "editTransitive": 0, "changeOption": 0}
            ops = []
            for a in seq:
                if a in st:
                    st[a] = 1 - st[a]
                    ops.append([a, TOGGLE[a][st[a]]])
                else:
                    ops.append([a])
            ops = close(ops)
            k = json.dumps(ops)
            if k not in seen:
                seen.add(k)
                out.append(ops)
    return out


# ------------------------------------------------------------------ implementation side (CLI)

CLI_CALLS = [0]


def cli(args, cwd, timeout=120):
    CLI_CALLS[0] += 1
    env = dict(os.environ)
    env["PYTHONHASHSEED"] = "0"
    # the fake site-packages / stdlib directories of the project (if it has them) go on the search
    # path AFTER whatever PYTHONPATH selects the rattr under test
    extra = [str(Path(cwd) / SP_DIR), str(Path(cwd) / STD_DIR)]
    extra = [e for e in extra if os.path.isdir(e)]
    if extra:
        env["PYTHONPATH"] = os.pathsep.join(([env["PYTHONPATH"]] if env.get("PYTHONPATH") else []) + extra)
    p = subprocess.run([sys.executable, "-m", "rattr", *args], cwd=cwd, env=env, capture_output=True,
                       timeout=timeout)
    err = p.stderr.decode("utf-8", "replace")
    tb = "Traceback (most recent call last)" in err
    exc = None
    if tb:
        if "ClassValidationError" in err:
            exc = "ClassValidationError"
        else:
            for line in reversed(err.strip().splitlines()):
                m = re.match(r"^[\s|+]*([A-Za-z_][\w.]*)(:|$)", line)
                if m:
                    exc = m.group(1).split(".")[-1]
                    break
    return {"exit": p.returncode, "out": p.stdout.decode("utf-8", "replace"), "tb": tb, "exc": exc,
            "hit": HITLINE in err, "err_tail": err.strip().splitlines()[-1][-200:] if err.strip() else ""}


def stat_of(p: Path):
    try:
        s = p.stat()
        return [s.st_mtime_ns, s.st_size, s.st_ino]
    except FileNotFoundError:
        return None


def read_or_none(p: Path):
    try:
        return p.read_bytes().decode("utf-8", "replace")
    except FileNotFoundError:
        return None


def make_project(prefix="c19_"):
    d = Path(tempfile.mkdtemp(prefix=prefix, dir=TMPROOT))
    (d / "pyproject.toml").write_text("")
    return d


def write_role(d, role, i):
    f = d / FILES[role][0]
    f.parent.mkdir(parents=True, exist_ok=True)
    f.write_text(src_of(role, i))


def set_link(d, name, choice):
    """(Re-)point the symbolic link `name` (`ln -sfn`)."""
    path, _kind, choices = LINKS[name]
    lp = d / path
    if lp.is_symlink() or lp.exists():
        lp.unlink()
    os.symlink(choices[choice], lp)


def populate(d, state=None):
    """Write every file of the family (variant 0 unless `state` says otherwise) and create the links."""
    state = state or STATE0
    for role in ROLES:
        write_role(d, role, state[role])
    for name in LINKS:
        set_link(d, name, state[lkey(name)])


# What may happen to the cache file behind rattr's back. kind -> (bytes-or-None from the present content,
# class of the model's `Damage`). Every kind leaves something that does NOT read back as a document.
def _truncate(frac):
    def f(good):
        g = (good or b'{"version": "x"}').rstrip()
        return g[:max(1, min(len(g) - 1, int(len(g) * frac)))]
    return f


def _wrong_type(good):
    try:
        doc = json.loads(good)
        doc["imports"] = 1
    except Exception:
        doc = {"imports": 1}
    return json.dumps(doc, indent=4).encode()


DAMAGE = {
    "removed": (lambda good: None, "removed"),
    "empty": (lambda good: b"", "notJson"),
    "truncate-1": (lambda good: (good or b"{")[:1], "notJson"),
    "truncate-half": (_truncate(0.5), "notJson"),
    "truncate-last": (_truncate(1.0), "notJson"),
    "not-json": (lambda good: (good or b'{"a": 1}').replace(b":", b"=", 1), "notJson"),
    "null": (lambda good: b"null", "raises:TypeError"),
    "number": (lambda good: b"17", "raises:TypeError"),
    "wrong-type": (_wrong_type, "raises:ClassValidationError"),
    "filepath-null": (lambda good: b'{"filepath": null}', "raises:ClassValidationError"),
    "string-naming-field": (lambda good: b'"version"', "raises:ClassValidationError"),
    "not-utf8": (lambda good: b"\xff\xfe" + (good or b"{}"), "raises:UnicodeDecodeError"),
}
DAMAGE_KINDS = sorted(DAMAGE)


def damage_file(cache: Path, kind):
    try:
        good = cache.read_bytes()
    except FileNotFoundError:
        good = None
    b = DAMAGE[kind][0](good)
    if b is None:
        cache.unlink(missing_ok=True)
    else:
        cache.write_bytes(b)


def pattern_change_kind(a, b):
    """Syntactic class of the difference between two pattern lists."""
    if list(a) == list(b):
        return None
    if set(a) == set(b):
        return "order-or-repetition"
    if sorted(set(x.lower() for x in a)) == sorted(set(x.lower() for x in b)):
        return "case"
    if sorted(set("".join(x.split()) for x in a)) == sorted(set("".join(x.split()) for x in b)):
        return "white-space"
    return "patterns"


def changes_since(written, state):
    """What differs syntactically between the state the cache on disk was written in and now."""
    if written is None:
        return ["no-cache-written"]
    if isinstance(written, str):
        return [written]                     # "damaged:<kind>"
    # only files that are dependencies by my own reading of the follower, then or now (an edit of a
    # file nobody reads is not a change)
    deps, dep_links = {"target"}, set()
    for st in (written, state):
        exp = expected_analysis(st)
        deps |= set(ROLES) if exp is None else {role_of(m, st) for m in exp[0]}
        dep_links |= set(LINKS) if exp is None else {LINKMODS[m][1] for m in exp[0] if m in LINKMODS}
    out = [f"edit:{r}" for r in ROLES if written[r] != state[r] and r in deps]
    out += [f"relink:{n}" for n in LINKS if written[lkey(n)] != state[lkey(n)] and n in dep_links]
    a, b = OPTIONS[written["opt"]], OPTIONS[state["opt"]]
    if a["follow"] != b["follow"]:
        out.append(f"opt:follow:{a['follow']}->{b['follow']}")
    for fld in ("F", "x"):
        k = pattern_change_kind(a[fld], b[fld])
        if k:
            out.append(f"opt:{fld}:{k}")
    if a["other"] != b["other"]:
        out.append("opt:unhashed")
    return out


def normalise(op):
    """Legacy op names -> the general form."""
    if op[0] in EDIT_OPS:
        return ["edit", EDIT_OPS[op[0]], op[1]]
    return list(op)


_BADNESS = {}
_BADNESS_LOCK = __import__("threading").Lock()


def content_key(state):
    """Everything a from-scratch run's own badness can depend on (not the un-hashed options)."""
    return json.dumps([[state[r] for r in ROLES], [state[lkey(n)] for n in LINKS], optkey(OPTIONS[state["opt"]])])


def probe_badness(state, d):
    """`State.badness` of a from-scratch run in this state, observed from outside: the `--strict` run's
    'exceeded allowed badness (b > 0)' (exit 0 = badness 0). None when the strict run ends otherwise."""
    k = content_key(state)
    with _BADNESS_LOCK:
        return _probe_badness(k, state, d)


def _probe_badness(k, state, d):
    if k not in _BADNESS:
        o = OPTIONS[state["opt"]]
        hashed = _opt(follow=o["follow"], F=o["F"], x=o["x"])
        (d / "pyproject.toml").write_text("")
        r = cli(["-w", "all", *hashed["args"], "--strict", "-o", "silent", "target.py"], d)
        (d / "pyproject.toml").write_text(o["toml"])
        m = re.search(r"exceeded allowed badness \((\d+) > 0\)", r["err_tail"])
        _BADNESS[k] = 0 if (r["exit"] == 0 and not r["tb"]) else (int(m.group(1)) if m else None)
    return _BADNESS[k]


_FRESH = {}
PLACE = "<PROJECT>"


def unplace(x, d):
    """Replace the project directory's name by a placeholder in a text / in the texts of a CLI record."""
    if x is None:
        return None
    if isinstance(x, str):
        return x.replace(str(d), PLACE)
    return {**x, "out": x["out"].replace(str(d), PLACE), "err_tail": x["err_tail"].replace(str(d), PLACE)}


def run_history(ops, init_disk=None, probe=None):
    """Execute one history against the real CLI. Returns one record per op."""
    d = make_project("c19h_")
    if probe is None:
        probe = any(o[0] == "damage" for o in ops)
    try:
        state = dict(STATE0, opt=0)
        populate(d)
        cache = d / "cache.json"
        if init_disk is not None:
            cache.write_bytes(init_disk)
        recs = []
        written = None
        # the from-scratch reference run is repeated for every run of a legacy history (which also
        # checks that it is deterministic) ...
        legacy = all(o[0] in ("runWithCache", "forceRefresh", *EDIT_OPS) or (o[0] == "changeOption" and o[1] < N_OLD_OPTIONS)
                     for o in ops)
        # ... repeated in the hand-written corpus and in the histories with big files; shared elsewhere
        repeat_fresh = legacy and (any(close(h_) == [list(o_) for o_ in ops] for h_ in CORPUS)
                                   or any(o[0] in EDIT_OPS and o[1] in BIG[EDIT_OPS[o[0]]] for o in ops))
        fresh_memo = {}
        for op0 in ops:
            op = normalise(op0)
            name = op[0]
            if name == "edit":
                state[op[1]] = op[2]
                write_role(d, op[1], op[2])
                recs.append({"op": op0})
            elif name == "editlink":
                # an in-place edit THROUGH the link: the file the module name currently leads to
                role = role_of(op[1], state)
                state[role] = op[2]
                (d / origin_rel(op[1])).write_text(src_of(role, op[2]))
                recs.append({"op": op0, "role": role})
            elif name == "relink":
                state[lkey(op[1])] = op[2]
                set_link(d, op[1], op[2])
                recs.append({"op": op0})
            elif name == "damage":
                damage_file(cache, op[1])
                written = "damaged:" + op[1]
                recs.append({"op": op0})
            elif name == "changeOption":
                state["opt"] = op[1]
                (d / "pyproject.toml").write_text(OPTIONS[op[1]]["toml"])
                recs.append({"op": op0})
            else:
                o = OPTIONS[state["opt"]]
                base = ["-w", "all", *o["args"]]
                fkey = json.dumps(state, sort_keys=True)
                if legacy and repeat_fresh:
                    fresh_memo[fkey] = unplace(cli([*base, "-o", "cacheable", "target.py"], d), d)
                elif fkey not in fresh_memo:
                    # one from-scratch run per distinct state of the whole check (the project directory
                    # is the only thing that differs between two projects in the same state: its name is
                    # replaced by a placeholder in every text compared)
                    if fkey not in _FRESH:
                        _FRESH[fkey] = unplace(cli([*base, "-o", "cacheable", "target.py"], d), d)
                    fresh_memo[fkey] = _FRESH[fkey]
                fresh = fresh_memo[fkey]
                before, st_before = unplace(read_or_none(cache), d), stat_of(cache)
                extra = ["-r"] if name == "forceRefresh" else []
                r = unplace(cli([*base, *extra, "--cache-file", "cache.json", "-o", "cacheable", "target.py"], d), d)
                after, st_after = unplace(read_or_none(cache), d), stat_of(cache)
                rec = {"op": op0, "state": dict(state), "fresh": fresh, "run": r, "before": before,
                       "after": after, "rewritten": st_before != st_after, "dir": str(d),
                       "since_write": changes_since(written, state)}
                if probe:
                    rec["badness"] = probe_badness(state, d)
                if st_before != st_after and after is not None:
                    written = dict(state)
                elif after is None:
                    written = None
                recs.append(rec)
        return recs
    finally:
        shutil.rmtree(d, ignore_errors=True)


# ------------------------------------------------------------------ oracle for histories

def diff_fields(a_text, b_text):
    try:
        a, b = json.loads(a_text), json.loads(b_text)
        ks = sorted(k for k in set(a) | set(b) if a.get(k) != b.get(k))
        return "+".join(ks) or "bytes-only"
    except Exception:
        return "unparseable"


def strip_nl(s):
    return s[:-1] if s.endswith("\n") else s


def judge_run(rec):
    """Property oracle on one run record. Returns list of (signature, detail)."""
    out = []
    r, f, name = rec["run"], rec["fresh"], rec["op"][0]
    if f["tb"]:
        return [("__skip__", "from-scratch run crashed: " + str(f["exc"]))]
    fresh_ok = f["exit"] == 0
    fdoc = strip_nl(f["out"]) if fresh_ok else None
    since = rec.get("since_write") or []
    damaged = next((c for c in since if c.startswith("damaged:")), None)
    if r["tb"]:
        return [(f"run-crash:{r['exc']}" + (";" + damaged if damaged else ""), r["err_tail"])]
    if damaged and name != "forceRefresh":
        # "missing, truncated, corrupted or of the wrong shape is treated as stale": never trusted, and
        # the run is the run without a cache file — same exit status, same output, cache rewritten —
        # under whatever strictness option is in force (named syntactically in the signature)
        ctx = ";damage=" + DAMAGE[damaged.split(":", 1)[1]][1] + ";strictness=" + limit_class(OPTIONS[rec["state"]["opt"]])
        if r["hit"]:
            return [("damaged-cache-trusted" + ctx, damaged)]
        if r["exit"] != f["exit"]:
            out.append(("run-on-damaged-cache-differs-from-run-without-cache:exit-status" + ctx,
                        f"{damaged}: exit {r['exit']} ({r['err_tail']}) vs {f['exit']} without a cache file"))
        elif r["out"] != f["out"]:
            out.append(("run-on-damaged-cache-differs-from-run-without-cache:stdout" + ctx, damaged))
        elif fresh_ok and (rec["after"] != fdoc or not rec["rewritten"]):
            out.append(("run-on-damaged-cache-differs-from-run-without-cache:cache-not-rewritten" + ctx, damaged))
        if not fresh_ok and (rec["rewritten"] or rec["after"] != rec["before"]):
            out.append(("other:failed-run-modified-the-cache-file" + ctx, damaged))
        return out
    if r["hit"]:
        if name == "forceRefresh":
            out.append(("force-refresh-hit", "-r answered up-to-date"))
        if r["exit"] != 0:
            out.append(("other:hit-with-nonzero-exit", str(r["exit"])))
        if rec["rewritten"] or rec["after"] != rec["before"]:
            out.append(("other:hit-but-cache-file-modified", ""))
        # WHAT changed since the cache on disk was written (syntactic; a hit with nothing changed but
        # an un-hashed option is the known strictness finding, anything else is a different bug)
        ctx = "" if set(since) <= {"opt:unhashed"} else \
            ";changed=" + ",".join(since) + ";follow=" + str(OPTIONS[rec["state"]["opt"]]["follow"])
        if not fresh_ok:
            out.append(("hit-but-fresh-run-fatal" + ctx, f["err_tail"]))
        elif fdoc != rec["before"]:
            out.append(("hit-but-fresh-run-differs:" + diff_fields(fdoc, rec["before"] or "null") + ctx, ""))
    else:
        if r["exit"] == 0:
            if not fresh_ok:
                out.append(("other:cached-run-ok-but-fresh-run-fatal", f["err_tail"]))
            elif rec["after"] != fdoc:
                out.append(("miss-wrote-non-fresh-cache:" + diff_fields(fdoc, rec["after"] or "null"), ""))
            elif r["out"] != f["out"]:
                out.append(("other:miss-printed-a-document-other-than-the-from-scratch-one", ""))
            if not rec["rewritten"]:
                out.append(("other:miss-but-cache-file-not-written", ""))
        else:
            if fresh_ok:
                out.append(("other:cached-run-fatal-but-fresh-run-ok", r["err_tail"]))
    return out


def impl_out(rec):
    r = rec["run"]
    if r["tb"]:
        return "crash:" + str(r["exc"])
    if r["hit"]:
        return "hit"
    if r["exit"] == 0:
        return "missWritten"
    return "missFatal"


# ------------------------------------------------------------------ model side for histories

def norm_path(p, d):
    for pre in (d + "/", PLACE + "/"):
        if p.startswith(pre):
            return p[len(pre):]
    return p


def results_digest(doc):
    return common.digest(doc.get("results"))


_FACTS = {}


def live_facts():
    """Constants of the running rattr the model is parameterised by."""
    if not _FACTS:
        from rattr.config._types import Config as _C
        from rattr.models.symbol._util import PYTHON_BUILTINS_LOCATION

        _FACTS.update(litPrefix=getattr(_C, "LITERAL_VALUE_PREFIX", "@"), builtins=PYTHON_BUILTINS_LOCATION,
                      permanent=permanent_patterns())
    return _FACTS


def all_patterns():
    pats = set(live_facts()["permanent"])
    for o in OPTIONS:
        pats.update(o["F"])
    return sorted(pats)


_RX = {}


def fullmatch(p, t):
    if p not in _RX:
        _RX[p] = re.compile(p)
    return _RX[p].fullmatch(t) is not None


def static_payload(d):
    """The `Static` record of the Lean model for the project at `d`: the module table of my own layout,
    isort's verdicts, `re.fullmatch` verdicts (patterns x names / origins; origins are matched by their
    real absolute path and keyed by the project-relative one), my scan of every variant's imports."""
    facts = live_facts()
    names = list(ALL_MODS) + list(EXTERNAL) + ["nosuch"]
    mods = [{"name": m, "origin": origin_rel(m), "readable": True} for m in ALL_MODS]
    mods += [{"name": m, "origin": org, "readable": rd} for m, (org, rd) in EXTERNAL.items() if org]
    texts = [(n, n) for n in names]
    for m in mods:
        o = m["origin"]
        texts.append((o, o if (os.path.isabs(o) or o == "built-in") else d + "/" + o))
    matches = [[p_, key] for p_ in all_patterns() for key, real in texts if fullmatch(p_, real)]
    rows, total = [], 0
    for role in ROLES:
        # the origins under which this file can be read: its own path and every link path leading to it
        origins = [FILES[role][0]] if (role == "target" or role in MODNAME) else []
        origins += [org for m, (org, _l, ch) in LINKMODS.items() if role in ch.values()]
        for i in range(len(FILES[role][1])):
            syms = [[a_, b_] for a_, b_ in imports_of(role, i)]
            total += len(syms) * max(1, len(origins))
            for org in origins:
                rows.append({"origin": org, "content": src_md5(role, i), "syms": syms})
    return {"mods": mods, "stdlib": [n for n in names if is_stdlib_name(n)], "matches": matches,
            "permanent": facts["permanent"], "builtins": facts["builtins"], "imports": rows, "fuel": total + 1,
            "litPrefix": facts["litPrefix"]}


def raw_opts(o):
    return {"follow": o["follow"], "F": list(o["F"]), "x": list(o["x"])}


def view_md5(mod, st):
    """Content hash of what is read THROUGH the link path of a module behind a symbolic link."""
    role = role_of(mod, st)
    return src_md5(role, st[role])


KEY_PATHS = [FILES[r][0] for r in ROLES] + [LINKMODS[m][0] for m in LINKMODS]


def model_contents(st):
    return [src_md5(r, st[r]) for r in ROLES] + [view_md5(m, st) for m in LINKMODS]


def model_key(st):
    o = OPTIONS[st["opt"]]
    return model_contents(st) + [optkey(o), o["other"]]


def link_pairs(st, name=None):
    return [[org, FILES[ch[st[lkey(l)]]][0]] for m, (org, l, ch) in LINKMODS.items() if name in (None, l)]


def history_payload(ops, recs, version):
    """The op sequence for the Lean machine `CacheRun.stepX` (op `cache_x_history`): in-place edits of
    real files, re-pointed links, option changes (strictness included), damage to the cache file,
    runs. The only facts taken from the from-scratch runs: the results digest, and either the
    run's own badness (then the model decides fatal-or-not under every strictness setting itself) or
    whether it was fatal for a reason other than the import stage."""
    d = next((r["dir"] for r in recs if "dir" in r), "/nonexistent")
    files = [[FILES[r][0], src_md5(r, 0)] for r in ROLES]
    for m, (org, _) in EXTERNAL.items():
        if org and os.path.isfile(org):
            files.append([org, md5(Path(org).read_bytes())])
    mops, rows, seen = [], [], {}
    st = dict(STATE0, opt=0)
    for op0, rec in zip(ops, recs):
        op = normalise(op0)
        name = op[0]
        if name == "edit":
            st[op[1]] = op[2]
            mops.append({"op": "write", "p": FILES[op[1]][0], "c": src_md5(op[1], op[2])})
        elif name == "editlink":
            role = role_of(op[1], st)
            st[role] = op[2]
            mops.append({"op": "write", "p": FILES[role][0], "c": src_md5(role, op[2])})
        elif name == "relink":
            st[lkey(op[1])] = op[2]
            mops.append({"op": "relink", "ps": link_pairs(st, op[1])})
        elif name == "damage":
            mops.append({"op": "damage", "d": DAMAGE[op[1]][1]})
        elif name == "changeOption":
            st["opt"] = op[1]
            o = OPTIONS[op[1]]
            mops.append({"op": "setOptions", "o": raw_opts(o), "x": o["other"]})
        else:
            mops.append({"op": name})
            st = dict(rec["state"])
            key = model_key(st)
            f = rec["fresh"]
            fails = f["exit"] != 0
            fresh = "<fatal>"
            if not fails:
                try:
                    fresh = results_digest(json.loads(f["out"]))
                except Exception:
                    fresh = "<unparseable>"
            # `fails` of the table = fatal for a reason OTHER than the import stage (which the model
            # decides itself): badness over the threshold
            exp = expected_analysis(st, d)
            bad = rec.get("badness")
            row = {"key": key, "contents": model_contents(st), "opts": raw_opts(OPTIONS[st["opt"]]),
                   "other": OPTIONS[st["opt"]]["other"], "fails": fails and exp is not None and bad is None,
                   "fresh": fresh, "badness": bad}
            k = json.dumps(key)
            if k in seen:
                if seen[k] != row:
                    row["__inconsistent__"] = seen[k]
            else:
                seen[k] = row
                rows.append(row)
    # a row that carries the badness stands for every strictness setting: its results digest must come
    # from a run that succeeded, if any did
    by_content = {}
    for row in rows:
        if row["badness"] is not None:
            ck = json.dumps([row["contents"], row["opts"]])
            if ck not in by_content or by_content[ck]["fresh"] == "<fatal>":
                by_content[ck] = row
    rows = [r_ for r_ in rows if r_["badness"] is None] + list(by_content.values())
    return {"static": static_payload(d),
            "init": {"target": "target.py", "files": files, "links": link_pairs(STATE0), "emptyHash": md5(b""),
                     "opts": raw_opts(OPTIONS[0]), "other": "", "version": "V", "plugins": "P"},
            "limits": sorted([o["other"], limit_json(o)] for o in {o_["other"]: o_ for o_ in OPTIONS}.values()),
            "disk": "absent", "analysis": rows, "keyPaths": KEY_PATHS, "ops": mops}


def model_optkey(k):
    return json.dumps([k["follow"], k["F"], k["x"]]) if isinstance(k, dict) else k


def real_disk_projection(text, d, version, argmap, plugins_seen):
    if text is None:
        return "absent"
    try:
        doc = json.loads(text)
    except Exception:
        return "malformed"
    if not isinstance(doc, dict):
        return "not-a-document"
    plugins_seen.add(doc.get("plugins_hash"))
    return {
        "version": "V" if doc.get("version") == version else doc.get("version"),
        "args": argmap.get(doc.get("arguments_hash"), doc.get("arguments_hash")),
        "plugins": "P",
        "filepath": doc.get("filepath"),
        "filehash": doc.get("filehash"),
        "imports": sorted([norm_path(i["filepath"], d), i["filehash"]] for i in doc.get("imports", [])),
        "results": results_digest(doc),
    }


# ------------------------------------------------------------------ corruption stream

REPS = [None, 1, True, 1.5, -3, "s", "", [], [1], ["x"], {}, {"k": 1}, {"k": "v"}]
SETKEYS = ("gets", "sets", "dels", "calls")


def kind(v):
    if v is None:
        return "null"
    if isinstance(v, bool):
        return "bool"
    if isinstance(v, (int, float)):
        return "number"
    if isinstance(v, str):
        return "string"
    if isinstance(v, list):
        return "list"
    return "dict"


def tag(v):
    if v is None:
        return {"t": "null"}
    if isinstance(v, bool):
        return {"t": "bool", "v": v}
    if isinstance(v, (int, float)):
        return {"t": "num", "r": str(v)}
    if isinstance(v, str):
        return {"t": "str", "v": v}
    if isinstance(v, list):
        return {"t": "arr", "v": [tag(x) for x in v]}
    return {"t": "obj", "v": [[k, tag(x)] for k, x in v.items()]}


def paths(v, p=()):
    yield p
    if isinstance(v, dict):
        for k in v:
            yield from paths(v[k], p + (k,))
    elif isinstance(v, list):
        for i, x in enumerate(v):
            yield from paths(x, p + (i,))


def getp(d, p):
    for k in p:
        d = d[k]
    return d


def setp(d, p, r):
    if not p:
        return copy.deepcopy(r)
    d = copy.deepcopy(d)
    c = d
    for k in p[:-1]:
        c = c[k]
    c[p[-1]] = copy.deepcopy(r)
    return d


def delp(d, p):
    d = copy.deepcopy(d)
    c = d
    for k in p[:-1]:
        c = c[k]
    del c[p[-1]]
    return d


def pathclass(p):
    out = ""
    for i, k in enumerate(p):
        if isinstance(k, int):
            out += "[]"
        else:
            if i == 1 and p[0] == "results":
                k = "*"
            elif i == 2 and p[0] == "results" and k in SETKEYS:
                k = "<set>"
            out += ("." if out else "") + k
    return out


FIELD_NAMES = ["version", "arguments_hash", "plugins_hash", "filepath", "filehash", "imports", "results"]


def top_shape(v):
    k = kind(v)
    if k in ("null", "number", "bool"):
        return "top-level-scalar"
    if k == "string":
        return "top-level-string-naming-a-field" if any(f in v for f in FIELD_NAMES) else "top-level-string"
    if k == "list":
        return "top-level-list-naming-a-field" if any(f in v for f in FIELD_NAMES) else "top-level-list"
    return "top-level-object"


def classify_bytes(b):
    """Independent (CPython json) reading of the file content, for the model's `FileContent`."""
    try:
        t = b.decode("utf-8")
    except UnicodeDecodeError:
        return {"k": "notUtf8"}
    try:
        v = json.loads(t)
    except (ValueError, RecursionError):
        # JSONDecodeError, or json.loads refusing a value it could lex (int digit limit, nesting
        # depth): for the gate all of these are "loads raised"
        return {"k": "notJson"}
    return {"k": "json", "v": tag(v)}


# paths an import entry may be made to name: not files, not stat-able, or files that cannot be read
EXOTIC_PATHS = ["a\x00b", "x" * 5000, ".", "/", "/dev/null", "/proc/self/mem", "no/such/file", "\ud800"]


def path_facts(paths_):
    """Independent reading of what hash_file_content will meet: (files [[p, md5]], unreadable [p])."""
    files, unreadable = [], []
    for p in paths_:
        try:
            isf = os.path.isfile(p)
        except Exception:
            isf = False
        if not isf:
            continue
        try:
            with open(p, "rb") as f:
                files.append([p, md5(f.read(1 << 22))])
        except OSError:
            files.append([p, ""])
            unreadable.append(p)
    return files, unreadable


def corruption_cases(good_bytes, tier, rng):
    """Yield dict(label, shape, bytes, expect) ; expect in {'stale', 'any-but-crash'}."""
    good = json.loads(good_bytes)
    n = len(good_bytes)
    for i in range(n):
        yield {"label": f"truncate@{i}", "shape": "empty-file" if i == 0 else "truncated",
               "bytes": good_bytes[:i], "expect": "stale"}
    seen_cls = {}
    for p in paths(good):
        if not p:
            continue
        orig = getp(good, p)
        cls = pathclass(p)
        # every node in thorough; in quick one node per path class (plus all top-level fields)
        if tier == "quick" and len(p) > 1 and seen_cls.get(cls):
            continue
        seen_cls[cls] = True
        for r in REPS:
            if r == orig:
                continue
            typed = kind(r) != kind(orig) and not (kind(orig) == "string" and False)
            yield {"label": f"{'/'.join(map(str, p))}<-{json.dumps(r)}", "shape": "field:" + cls,
                   "bytes": json.dumps(setp(good, p, r), indent=4).encode(),
                   "expect": "stale" if typed else "any-but-crash", "kind": kind(r)}
        # a missing key is a change of the enclosing object
        if cls in ("imports[].filepath", "filepath") and (len(p) == 1 or p[1] == 0):
            for r in EXOTIC_PATHS:
                yield {"label": f"{'/'.join(map(str, p))}<-{json.dumps(r)[:40]}", "shape": "field:" + cls,
                       "bytes": json.dumps(setp(good, p, r), indent=4).encode(), "expect": "any-but-crash",
                       "kind": "string"}
        yield {"label": f"delete:{'/'.join(map(str, p))}", "shape": "field:" + pathclass(p[:-1]) if len(p) > 1 else "top-level-object",
               "bytes": json.dumps(delp(good, p), indent=4).encode(), "expect": "any-but-crash"}
    tops = [None, 0, 1, -1, 1.5, True, False, "s", "", "version", "xfilepathx", "results", [], [1], ["imports"],
            ["filepath", 1], [["version"]], {}, {"x": 1}, {"version": good["version"]}, float("nan"), float("inf"),
            {**good, "extra": 1},
            # nested wrong types inside otherwise minimal objects (shape named explicitly)
            ({"imports": [{"filepath": 1}]}, "field:imports[].filepath"), ({"imports": 1}, "field:imports"),
            ({"imports": ["filehash"]}, "field:imports[]"), ({"imports": [["filepath"]]}, "field:imports[]"),
            ({"results": {"f": {"gets": [], "sets": [], "dels": []}}}, "field:results.*"),
            {"results": {"f": {"gets": [], "sets": [], "dels": [], "calls": [], "more": 1}}}]
    for v in tops:
        shape = None
        if isinstance(v, tuple):
            v, shape = v
        wellformed_other = isinstance(v, dict)
        yield {"label": "top:" + json.dumps(v)[:60], "shape": shape or top_shape(v), "bytes": json.dumps(v).encode(),
               "expect": "any-but-crash" if wellformed_other else "stale"}
    raws = [(b" ", "whitespace-only"), (b"\n\n", "whitespace-only"), (b"\xff\xfe", "not-utf8"),
            (good_bytes[:40] + b"\xff" + good_bytes[40:], "not-utf8"), (b"\xef\xbb\xbf" + good_bytes, "utf8-bom"),
            (good_bytes + b"}", "trailing-garbage"), (good_bytes + good_bytes, "trailing-garbage"),
            (good_bytes.replace(b":", b"=", 1), "not-json"), (b"{'version': 'dev'}", "not-json"),
            (good_bytes[1:], "not-json"), (b"\x00" * 16, "not-json"),
            ("{\"version\": \"dév\"}".encode("latin-1"), "not-utf8"),
            (b"[" * 100000 + b"]" * 100000, "json-loads-raises"),
            (b'{"version": ' + b"9" * 5000 + b"}", "json-loads-raises")]
    for b, shape in raws:
        yield {"label": "raw:" + shape + ":" + b[:12].hex(), "shape": shape, "bytes": b, "expect": "stale"}
    if tier == "thorough":
        ps = [p for p in paths(good) if p]
        for _ in range(300):
            p1, p2 = rng.sample(ps, 2)
            try:
                dd = setp(setp(good, p1, rng.choice(REPS)), p2, rng.choice(REPS))
            except (KeyError, IndexError, TypeError):
                continue
            yield {"label": f"double:{p1}:{p2}", "shape": "double-mutation", "bytes": json.dumps(dd).encode(),
                   "expect": "correspondence-only"}


def make_cache_project(extra_functions=0):
    d = make_project("c19c_")
    tsrc = TARGET[2][0] + "".join(f"\n\ndef fn{i}(p{i}):\n    p{i}.attr{i} = p{i}.other{i}\n    return helper(p{i})\n"
                                  for i in range(extra_functions))
    (d / "target.py").write_text(tsrc)
    (d / "direct.py").write_text(DIRECT[0][0])
    (d / "trans.py").write_text(TRANS[0][0])
    r = cli(["-w", "all", "--cache-file", "cache.json", "-o", "silent", "target.py"], d)
    return d, r


def gate_in_process(d, blobs):
    """Run the real gate on every blob (in-process). Returns (facts, outcomes)."""
    from rattr._version import version
    from rattr.models.results import util as ru

    outs = []
    with impl.in_dir(str(d)):
        impl.reset_config(target=Path("target.py"), cache_file=Path("c.json"))
        facts = {"version": version, "args": ru.make_arguments_hash(), "plugins": ru.make_plugins_hash()}
        for b in blobs:
            if b is None:
                Path("c.json").unlink(missing_ok=True)
            else:
                Path("c.json").write_bytes(b)
            cfg = impl.Config()
            before = cfg.state.badness
            with impl.Tap() as tap:
                o = impl.outcome_of(ru.target_cache_file_is_up_to_date, Path("target.py"), Path("c.json"))
            if o[0] == "ok":
                outs.append({"verdict": "fresh" if o[1] is True else ("stale" if o[1] is False else f"other:{o[1]!r}")})
            elif o[0] == "fatal":
                outs.append({"verdict": "fatal"})
            else:
                outs.append({"verdict": "crash", "err": o[1]})
            # what the gate's own diagnostics cost: the points booked on `State.badness` (the quantity
            # `main` compares with the threshold) and the levels of the diagnostics emitted
            outs[-1]["_badness"] = impl.Config().state.badness - before
            outs[-1]["_levels"] = [e["level"] for e in tap.events]
        Path("c.json").unlink(missing_ok=True)
    return facts, outs


def corruption_stream(res, tier, rng, model):
    d, r0 = make_cache_project(extra_functions=0 if tier == "quick" else 3)
    try:
        if r0["exit"] != 0 or r0["tb"]:
            res.internal_errors.append({"what": "could not create the reference cache file", "run": r0})
            return
        good_bytes = (d / "cache.json").read_bytes()
        good = json.loads(good_bytes)
        cases = list(corruption_cases(good_bytes, tier, rng))
        cases.append({"label": "absent", "shape": "missing-file", "bytes": None, "expect": "stale"})
        facts, outs = gate_in_process(d, [good_bytes] + [c["bytes"] for c in cases])
        side = [{"badness": o_.pop("_badness", 0), "levels": o_.pop("_levels", [])} for o_ in outs]
        side = side[1:]
        if outs[0] != {"verdict": "fresh"}:
            res.internal_errors.append({"what": "in-process gate does not accept the cache the CLI wrote",
                                        "outcome": outs[0]})
            return
        outs = outs[1:]
        files = [["target.py", md5((d / "target.py").read_bytes())]]
        for i in good["imports"]:
            if os.path.isfile(i["filepath"]):
                files.append([i["filepath"], md5(Path(i["filepath"]).read_bytes())])
        xfiles, unreadable = path_facts(EXOTIC_PATHS)
        files += xfiles
        res.extra["unreadable_regular_files_probed"] = unreadable
        world = {"target": "target.py", "files": files, "unreadable": unreadable, "emptyHash": md5(b""), **facts}
        mouts = model.batch([("cache_gate", {"file": None if c["bytes"] is None else classify_bytes(c["bytes"]),
                                             "world": world}) for c in cases])
        for c, io, mo, sd in zip(cases, outs, mouts, side):
            res.evaluations += 1
            if c["bytes"] is None:
                case = {"stream": "corruption", "label": c["label"], "shape": c["shape"], "project_dir": str(d),
                        "bytes_hex": None, "truncate_at": None, "absent": True}
            else:
                case = {"stream": "corruption", "label": c["label"], "shape": c["shape"], "project_dir": str(d),
                        "bytes_hex": c["bytes"].hex() if len(c["bytes"]) < 4000 else None,
                        "truncate_at": len(c["bytes"]) if c["shape"] in ("truncated", "empty-file") else None}
            res.nontrivial.add(common.digest(c["bytes"].hex() if c["bytes"] is not None else "absent"))
            # the gate's diagnostic and its cost: model (`CacheRun.gateDiag`, levels of the code) vs real
            if "__error__" not in mo and io["verdict"] in ("stale", "fresh"):
                mlv = [] if mo.get("diag") is None else [mo["diag"]]
                if sd["badness"] != mo.get("gateBadness") or sd["levels"] != mlv:
                    res.count("gate-diagnostic-differs")
                    res.disagreements.append({"case": case, "impl": {"gate_badness": sd["badness"], "levels": sd["levels"]},
                                              "model": {"gate_badness": mo.get("gateBadness"), "levels": mlv}})
                res.count("gate-diag:" + ",".join(sd["levels"]) + ":badness=" + str(sd["badness"]))
            res.count("corruption:" + c["shape"].split(":")[0])
            res.count("gate:" + io["verdict"] + (":" + io["err"] if "err" in io else ""))
            if c["shape"].startswith("field:") and c["expect"] == "stale":
                res.sample({"case": case, "impl": io}, cap=3)
            # correspondence
            if "__error__" in mo:
                res.disagreements.append({"case": case, "impl": io, "model": mo})
            else:
                mm = {"verdict": mo["verdict"], **({"err": mo["err"]} if "err" in mo else {})}
                if mm != io:
                    res.disagreements.append({"case": case, "impl": io, "model": mm})
            # oracle (double mutations: every constituent single mutation is judged on its own above;
            # the combination is only compared with the model, which predicts the exact outcome)
            if c["expect"] == "correspondence-only":
                continue
            if io["verdict"] in ("crash", "fatal") or io["verdict"].startswith("other"):
                sig = f"cache-gate-crash:{io.get('err', io['verdict'])}:{c['shape']}"
                res.violations.append({"signature": sig, "case": case, "impl": io})
            elif io["verdict"] == "fresh" and c["expect"] == "stale":
                res.violations.append({"signature": f"corrupt-cache-trusted:{c['shape']}", "case": case, "impl": io})
            elif io["verdict"] == "fresh":
                res.count("value-level-mutation-trusted(undetectable)")
        # a sample through the real CLI (validates the in-process worker)
        idx = [i for i, c in enumerate(cases) if c["shape"] == "truncated"]
        pick = [idx[len(idx) // 7], idx[len(idx) // 2], idx[-1]] if idx else []
        want = ["imports/0/filepath<-\"/proc/self/mem\"", "top:null", "top:{\"imports\": [{\"filepath\": 1}]}", "imports<-{}", "raw:not-utf8", "truncate@0",
                "filepath<-null", "results<-[]"]
        for w in want:
            for i, c in enumerate(cases):
                if c["label"].startswith(w):
                    pick.append(i)
                    break

        def one(i):
            dd = make_project("c19s_")
            try:
                for fn in ("target.py", "direct.py", "trans.py"):
                    shutil.copy(d / fn, dd / fn)
                # same absolute import paths are required for the gate to compare the same files:
                # rewrite the project-dir prefix inside the blob
                blob = cases[i]["bytes"].replace(str(d).encode(), str(dd).encode())
                (dd / "cache.json").write_bytes(blob)
                st = stat_of(dd / "cache.json")
                r = cli(["-w", "all", "--cache-file", "cache.json", "-o", "silent", "target.py"], dd)
                return i, r, stat_of(dd / "cache.json") != st
            finally:
                shutil.rmtree(dd, ignore_errors=True)

        with cf.ThreadPoolExecutor(max_workers=8) as ex:
            for i, r, rewritten in ex.map(one, pick):
                res.evaluations += 1
                res.count("corruption-via-cli")
                io = outs[i]
                cli_v = ("crash:" + str(r["exc"])) if r["tb"] else ("fresh" if r["hit"] else "stale")
                inproc_v = ("crash:" + io["err"]) if io["verdict"] == "crash" else io["verdict"]
                if cli_v != inproc_v or (cli_v == "stale" and not (rewritten and r["exit"] == 0)):
                    res.internal_errors.append({"what": "in-process gate and CLI disagree on a corrupted cache",
                                                "label": cases[i]["label"], "cli": cli_v, "in_process": inproc_v,
                                                "rewritten": rewritten, "exit": r["exit"]})
    finally:
        shutil.rmtree(d, ignore_errors=True)


# ------------------------------------------------------------------ dependencies, in-process

_OPENED = {"on": False, "paths": []}
_HOOKED = []


def _audit(event, args):
    if _OPENED["on"] and event == "open" and args and isinstance(args[0], str):
        mode = args[1] if len(args) > 1 else None
        if mode is not None and "b" in str(mode):
            return
        # Python's own import system also opens sources (rattr's locator asks importlib for stdlib
        # names, which imports the parent module): those are not reads of the analysis
        try:
            if sys._getframe(1).f_code.co_filename.startswith("<frozen importlib"):
                return
        except Exception:
            pass
        _OPENED["paths"].append(args[0])


def deps_cases(tier, rng):
    """(state, option index): every follow level x exclusion sets that hit / miss each module class x
    project states in which modules of every class are imported directly and transitively."""
    shapes = [
        {"target": 6, "pipmod": 2, "stdmod": 2},
        {"target": 8, "pipmod": 4, "stdmod": 2},
        {"target": 9, "direct": 6},
        {"target": 9, "direct": 8, "stddeep": 1},
        {"target": 7, "pipmod": 3},
        {"target": 6, "pipmod": 0, "stdmod": 0, "direct": 2},
        {"target": 0, "direct": 6},
    ]
    # round 3: modules without definitions on the path; modules behind symbolic links
    shapes3 = [
        {"target": 10}, {"target": 10, "pkginit": 7}, {"target": 10, "pkginit": 5, "pkgimpl": 3, "pkgconsts": 2},
        {"target": 10, "pkginit": 1}, {"target": 10, "pkginit": 2}, {"target": 12, "pkginit": 3},
        {"target": 10, "pkginit": 6}, {"target": 10, "pkginit": 4}, {"target": 10, "pkginit": 8, "pkgimpl": 4},
        {"target": 11}, {"target": 11, "reexp": 2}, {"target": 11, "reexp": 3}, {"target": 11, "reexp": 4},
        {"target": 13, "reexp": 1, "pkginit": 5},
        {"target": 0, "direct": 9}, {"target": 0, "direct": 10}, {"target": 0, "direct": 11}, {"target": 0, "direct": 13},
        {"target": 6, "pipmod": 5, "stdmod": 3}, {"target": 17, "pkgimpl": 4},
        {"target": 14}, {"target": 14, "link:settings": "prod"}, {"target": 14, "sdev": 2},
        {"target": 15}, {"target": 15, "link:plugins": "v2"},
        {"target": 16, "link:plugins": "v2", "link:settings": "prod"}, {"target": 0, "direct": 12, "link:settings": "prod"},
    ]
    opts = [i for i, o in enumerate(OPTIONS) if o["via"] == "short" and not o["other"] and not o["x"]
            and (i in LEVEL_OPT.values() or (o["follow"] in (2, 3) and o["F"]))]
    # the case / origin / stdlib-name groups at level 1 too
    for key in (("F", "case"), ("F", "case-pip"), ("F", "origin"), ("F", "stdlib-name")):
        opts += [i for i in GROUPS[key] if i not in opts]
    cases = [(dict(STATE0, **sh), oi) for sh in shapes for oi in opts]
    # the new shapes: every follow level; exclusion by the origin of a package / of a link path
    opts3 = [i for i, o in enumerate(OPTIONS) if o["via"] == "short" and not o["other"] and not o["x"]
             and o["F"] in ([r".*/pkg/__init__\.py"], ["pkg"], [r"pkg\..*"], [r".*/settings\.py"], [r".*/impl/settings_dev\.py"],
                            [r".*/plugins/.*"], [r".*/plugins_v1/.*"])]
    cases3 = [(dict(STATE0, **sh), oi) for sh in shapes3 for oi in list(LEVEL_OPT.values()) + opts3]
    if tier == "quick":
        keep = [c for c in cases if c[1] in LEVEL_OPT.values()]
        rest = [c for c in cases if c[1] not in LEVEL_OPT.values()]
        rng.shuffle(rest)
        cases = keep + rest[:90]
        keep3 = [c for c in cases3 if c[1] == LEVEL_OPT[1]]
        rest3 = [c for c in cases3 if c[1] != LEVEL_OPT[1]]
        rng.shuffle(rest3)
        cases3 = keep3 + rest3[:30]
    return cases + cases3


def deps_in_process(d, cases):
    """The real import follower + make_cacheable_import_info on every case; which source files were
    opened for reading while the follower ran is observed from outside (audit hook)."""
    import importlib as _il

    from rattr.analyser import file as F
    from rattr.models.results import util as ru

    if not _HOOKED:
        sys.addaudithook(_audit)
        _HOOKED.append(True)
    outs = []
    saved_path = list(sys.path)
    on_disk = {}
    try:
        with impl.in_dir(str(d)):
            sys.path[1:1] = [str(d / SP_DIR), str(d / STD_DIR)]
            for state, oi in cases:
                for role in ROLES:
                    if on_disk.get(role) != state[role]:
                        write_role(d, role, state[role])
                        on_disk[role] = state[role]
                for name in LINKS:
                    if on_disk.get(lkey(name)) != state[lkey(name)]:
                        set_link(d, name, state[lkey(name)])
                        on_disk[lkey(name)] = state[lkey(name)]
                o = OPTIONS[oi]
                for m in list(ALL_MODS) + ["target", "impl", "plugins_v1", "plugins_v2"]:
                    sys.modules.pop(m, None)
                _il.invalidate_caches()
                impl.reset_config(_follow_imports_level=o["follow"], _excluded_imports=list(o["F"]),
                                  _excluded_names=list(o["x"]), target=Path("target.py"))
                _OPENED["paths"] = []
                with impl.Tap():
                    _OPENED["on"] = True
                    try:
                        r = impl.outcome_of(F.parse_and_analyse_file)
                    finally:
                        _OPENED["on"] = False
                    opened = sorted({norm_path(os.path.abspath(p_), str(d)) for p_ in _OPENED["paths"]
                                     if p_.endswith(".py") and os.path.abspath(p_).startswith(str(d) + "/")})
                    ob = {"outcome": r[0] if r[0] != "crash" else "crash:" + str(r[1]), "opened": opened}
                    if r[0] == "ok":
                        file_ir, import_irs, _ = r[1]
                        ob["irs"] = list(import_irs.keys())
                        ri = impl.outcome_of(ru.make_cacheable_import_info, file_ir, import_irs)
                        if ri[0] == "ok":
                            ob["recorded"] = sorted(norm_path(str(i.filepath), str(d)) for i in ri[1])
                        else:
                            ob["outcome"] = "import-info-" + ":".join(map(str, ri[:2]))
                outs.append(ob)
    finally:
        sys.path[:] = saved_path
        for m in list(ALL_MODS) + ["target", "impl", "plugins_v1", "plugins_v2"]:
            sys.modules.pop(m, None)
    return outs


def path_class(f_):
    """Class of a project-relative path as the follower opens it: local / pip / stdlib, `:via-link` for
    a path through a symbolic link."""
    for m, (org, _l, _c) in LINKMODS.items():
        if org == f_:
            return "local:via-link"
    role = next((r for r in ROLES if FILES[r][0] == f_), None)
    return CLASS.get(role, "?")


def deps_stream(res, tier, rng, model):
    """`Frame.covers`, observed directly: every source file the follower opens is the target or a
    recorded origin; and the Lean model predicts exactly the files opened, the keys of `import_irs`
    and the recorded origins."""
    cases = deps_cases(tier, rng)
    d = make_project("c19d_")
    try:
        outs = deps_in_process(d, cases)
        payloads = []
        for state, oi in cases:
            ops = [["edit", r, state[r]] for r in ROLES if state[r] != 0] + \
                  [["relink", n, state[lkey(n)]] for n in LINKS if state[lkey(n)] != LINK0[n]] + \
                  [["changeOption", oi], ["runWithCache"]]
            recs = [{"op": o_} for o_ in ops[:-1]] + [{"op": ops[-1], "state": dict(state, opt=oi), "dir": str(d),
                                                      "fresh": {"exit": 0, "out": "{}", "tb": False}}]
            payloads.append(history_payload(ops, recs, "?"))
        mouts = model.batch([("cache_x_history", p_) for p_ in payloads])
        for (state, oi), ob, mo in zip(cases, outs, mouts):
            o = OPTIONS[oi]
            res.evaluations += 1
            case = {"stream": "deps", "state": state, "opt": oi, "options": raw_opts(o)}
            res.nontrivial.add(common.digest(["deps", state, oi]))
            res.count(f"deps:follow={o['follow']}:{'excl' if o['F'] else 'no-excl'}")
            res.count("deps:" + ob["outcome"].split(":")[0])
            if "__error__" in mo:
                res.disagreements.append({"case": case, "model": mo})
                continue
            ms = mo["steps"][-1]
            if ob["outcome"] != "ok":
                res.count("deps:not-completed")
                if ms.get("bfs") == "done":
                    res.disagreements.append({"case": case, "impl": ob, "model": {"bfs": ms.get("bfs")}})
                continue
            # oracle: read => target or recorded
            for f_ in ob["opened"]:
                if f_ != "target.py" and f_ not in ob["recorded"]:
                    res.violations.append({"signature": f"module-read-but-not-recorded:{path_class(f_)};follow={o['follow']}",
                                           "case": {**case, "file": f_}, "impl": ob})
            for f_ in ob["opened"]:
                res.count("deps:read:" + path_class(f_).split(":")[0])
            mine = {"opened": sorted(ms["readSet"]), "recorded": sorted(ms["recorded"]), "irs": ms["analysed"]}
            theirs = {"opened": ob["opened"], "recorded": ob["recorded"], "irs": ob["irs"]}
            if ms.get("bfs") != "done" or mine != theirs:
                res.disagreements.append({"case": case, "impl": theirs, "model": {**mine, "bfs": ms.get("bfs")}})
    finally:
        shutil.rmtree(d, ignore_errors=True)


# ------------------------------------------------------------------ arguments hash, in-process

def argkey_family(tier, rng):
    """Option sets for make_arguments_hash: every follow level x pattern lists of the near-collision
    groups (as excluded imports, as excluded names, and combined), plus None for 'option not given'."""
    Fs, xs = [None, []], [None, []]
    for members in F_GROUPS.values():
        Fs += [m for m in members if m not in Fs]
    for members in X_GROUPS.values():
        xs += [m for m in members if m not in xs]
    # each pattern list also in the other field
    Fs += [m for m in xs if m not in Fs]
    xs += [m for m in Fs if m not in xs]
    fam = [(f, F, None) for f in (0, 1, 2, 3) for F in Fs] + [(f, None, x) for f in (0, 1, 2, 3) for x in xs]
    combos = [(f, F, x) for f in (1, 2) for F in Fs[1:] for x in xs[1:]]
    rng.shuffle(combos)
    fam += combos[:600 if tier == "quick" else 6000]
    fam += [(o["follow"], list(o["F"]), list(o["x"])) for o in OPTIONS]
    seen, out = set(), []
    for c in fam:
        k = json.dumps(c)
        if k not in seen:
            seen.add(k)
            out.append(c)
    return out


def real_argument_hashes(fam):
    from rattr.models.results import util as ru

    outs = []
    for f, F, x in fam:
        impl.reset_config(_follow_imports_level=f, _excluded_imports=F, _excluded_names=x)
        o = impl.outcome_of(ru.make_arguments_hash)
        outs.append(o[1] if o[0] == "ok" else "<" + ":".join(map(str, o[:2])) + ">")
    return outs


def canon_opts(c):
    f, F, x = c
    return json.dumps([f, sorted(set(F or [])), sorted(set(x or []))])


def option_difference(c1, c2):
    out = []
    if c1[0] != c2[0]:
        out.append("follow")
    for name, a_, b_ in (("F", c1[1] or [], c2[1] or []), ("x", c1[2] or [], c2[2] or [])):
        k = pattern_change_kind(sorted(set(a_)), sorted(set(b_)))
        if k:
            out.append(f"{name}:{k}")
    if not out:
        return "nothing"
    # the same text moved to the other field
    if sorted(set(c1[1] or [])) == sorted(set(c2[2] or [])) and sorted(set(c1[2] or [])) == sorted(set(c2[1] or [])):
        return "fields-swapped"
    return "+".join(out)


def argkey_stream(res, tier, rng, model):
    """make_arguments_hash in-process on a family of option sets vs the Lean `argsKey`: two option sets
    get the same hash iff they get the same key; oracle: the same hash only if follow level and both
    pattern SETS are the same."""
    fam = argkey_family(tier, rng)
    hashes = real_argument_hashes(fam)
    pre = live_facts()["litPrefix"]
    mouts = model.batch([("cache_argkey", {"prefix": pre, "opts": {"follow": f, "F": F or [], "x": x or []}})
                         for f, F, x in fam])
    by_hash, by_key = {}, {}
    for c, h, mo in zip(fam, hashes, mouts):
        res.evaluations += 1
        res.count("argkey:option-set")
        res.nontrivial.add(common.digest(["argkey", c]))
        case = {"stream": "argkey", "opts": c}
        if h.startswith("<"):
            res.violations.append({"signature": "other:make-arguments-hash-raises", "case": case, "impl": h})
            continue
        if "__error__" in mo:
            res.disagreements.append({"case": case, "model": mo})
            continue
        mk = model_optkey(mo)
        if mk != canon_opts(c) or mo.get("prefix") != pre:
            res.internal_errors.append({"what": "Lean argsKey differs from sorted(set(.)) computed in Python", "case": case,
                                        "lean": mo})
        by_hash.setdefault(h, []).append(c)
        by_key.setdefault(mk, []).append((c, h))
    for h, cs in by_hash.items():
        keys = sorted({canon_opts(c) for c in cs})
        if len(keys) > 1:
            c1 = cs[0]
            c2 = next(c for c in cs if canon_opts(c) != canon_opts(c1))
            diff = option_difference(c1, c2)
            res.count("argkey:collision:" + diff)
            case = {"stream": "argkey", "opts": c1, "opts2": c2, "colliding_option_sets": len(cs)}
            res.violations.append({"signature": "arguments-hash-collision:" + diff, "case": case, "impl": h})
            res.disagreements.append({"case": case, "impl": "same hash", "model": "different keys"})
    for k, chs in by_key.items():
        hs = sorted({h for _, h in chs})
        if len(hs) > 1:
            res.disagreements.append({"case": {"stream": "argkey", "opts": chs[0][0], "opts2": chs[-1][0]},
                                      "impl": "different hashes", "model": "same key " + k})


# ------------------------------------------------------------------ hash probe

def hash_probe_cases():
    yield from ((n, None) for n in (0, 1, BLOCK - 1, BLOCK, BLOCK + 1, 2 * BLOCK - 1, 2 * BLOCK, 2 * BLOCK + 1,
                                    3 * BLOCK + 17))
    yield from ((n, 8) for n in range(0, 42))


def hash_probe_one(d, n, blocksize):
    from rattr.models.util.hash import hash_file_content

    # the last byte differs from any byte before it, so every truncated digest is wrong
    content = (b"0123456789abcdef" * (n // 16 + 1))[:max(n - 1, 0)] + (b"Z" if n else b"")
    f = Path(d) / "blob.bin"
    f.write_bytes(content)
    got = impl.outcome_of(hash_file_content, f) if blocksize is None else \
        impl.outcome_of(hash_file_content, f, blocksize=blocksize)
    return got, md5(content)


def hash_probe(res):
    """`hash_file_content` must be md5 of the WHOLE file (the model's 'hash = content' assumption):
    sizes around k * blocksize +- 1 with the default block size, and every size 0..41 with blocksize 8."""
    d = tempfile.mkdtemp(prefix="c19p_", dir=TMPROOT)
    try:
        for n, bs in hash_probe_cases():
            res.evaluations += 1
            res.count("hash-probe")
            got, want = hash_probe_one(d, n, bs)
            if got != ("ok", want):
                k = "exact-multiple" if n % (bs or BLOCK) == 0 else "not-a-multiple"
                where = "first-block-only" if n > (bs or BLOCK) else "within-first-block"
                res.violations.append({"signature": f"file-hash-not-md5-of-whole-content:{where}",
                                       "case": {"stream": "hash-probe", "size": n, "blocksize": bs, "default_blocksize": BLOCK,
                                                "size_class": k},
                                       "impl": list(got)[:2], "expected": want})
    finally:
        shutil.rmtree(d, ignore_errors=True)


# ------------------------------------------------------------------ run

def broken_theorems(build):
    """Names of the C19 theorems a failed proof build points at (error line -> enclosing theorem)."""
    names = set()
    try:
        lines = (common.LEAN / "RattrProofs" / "Props" / "C19.lean").read_text().splitlines()
    except Exception:
        return names
    for b_ in getattr(build, "broken", []) or []:
        for m in re.finditer(r"C19\.lean:(\d+):", str(b_.get("detail", ""))):
            ln = min(int(m.group(1)), len(lines))
            for k in range(ln - 1, -1, -1):
                t = re.match(r"\s*theorem\s+([\w.']+)", lines[k])
                if t:
                    names.add(t.group(1))
                    break
    return names


def directed_histories(names, rng):
    """When a Tie-A obligation about the hashed options / the recorded imports broke, search where it
    points: every ordered pair inside every near-collision group, resp. every variant of every module
    class at every level."""
    out = []
    if any(k in n for n in names for k in ("hashed", "option", "argsKey")):
        base = [["edit", "target", 6], ["edit", "trans", 5], ["edit", "helpers", 2]]
        for key in sorted(GROUPS):
            idx = GROUPS[key]
            for i in idx:
                for j in idx:
                    if i != j:
                        out.append(base + [["changeOption", i], ["runWithCache"], ["changeOption", j], ["runWithCache"]])
    if any(k in n for n in names for k in ("import_info", "blacklist", "pip", "follower", "bfs")):
        for lvl in (0, 1, 2, 3):
            for role in ROLES[1:]:
                h = [["edit", "target", 6], ["edit", "pipmod", 2], ["edit", "stdmod", 2], ["edit", "direct", 6],
                     ["changeOption", LEVEL_OPT[lvl]], ["runWithCache"]]
                for v in range(len(FILES[role][1])):
                    if role in BIG and v in BIG[role]:
                        continue
                    h += [["edit", role, v], ["runWithCache"]]
                out.append(h)
        # every def-less variant of every intermediate module x every leaf edit, at the levels 1 and 2
        for lvl in (1, 2):
            for tgt, mid, leaf in ((10, "pkginit", "pkgimpl"), (11, "reexp", "trans"), (13, "pkginit", "pkgconsts")):
                for v in range(len(FILES[mid][1])):
                    out.append([["edit", "target", tgt], ["edit", mid, v], ["edit", "pkgimpl", 3],
                                ["changeOption", LEVEL_OPT[lvl]], ["runWithCache"], ["edit", leaf, 1], ["runWithCache"],
                                ["edit", leaf, 2], ["runWithCache"]])
        out += link_histories("thorough") + defless_histories("thorough")
    if any(k in n for n in names for k in ("gate_diagnostics", "gate_levels", "badness")):
        for kind in DAMAGE_KINDS:
            for lim in ("strict", 2, ("toml", "strict")):
                out.append([["edit", "target", 3 if lim == 2 else 18], ["changeOption", STRICT_OPT[lim]], ["runWithCache"],
                            ["damage", kind], ["runWithCache"], ["runWithCache"]])
    return out


def run(tier, seed, build):
    res = common.Result(PID)
    res.rule = ("histories: op sequences over {edit <any file: target, local / site-packages / stdlib-named module, "
                "package __init__ / sub-module, file behind a symbolic link>, editlink <through a link>, relink <file "
                "or directory link>, damage <the cache file>, changeOption <follow level, excluded imports / names, "
                "un-hashed options incl. every strictness setting; short / long flags or "
                "pyproject.toml>, runWithCache, forceRefresh} executed through the real CLI, closed by a "
                "run; non-trivial = distinct history with >= 1 run with a cache file, or distinct corrupted cache "
                "content, or distinct pair of option sets given to make_arguments_hash; evaluations = CLI runs with a "
                "cache file + corrupted contents given to the gate + option sets hashed in-process")
    rng = random.Random(seed)
    from rattr._version import version

    hists = [close(h) for h in CORPUS]
    hists += [close(h) for h in class_level_histories()] + [close(h) for h in option_pair_histories()]
    hists += [close(h) for h in defless_histories(tier)] + [close(h) for h in link_histories(tier)]
    hists += [close(h) for h in strict_damage_histories(rng, tier)]
    names = broken_theorems(build)
    if names:
        res.extra["search_directed_by_broken_obligations"] = sorted(names)
        hists += [close(h) for h in directed_histories(names, rng)]
    if tier == "quick":
        hists += [random_history(rng, 6) for _ in range(16)] + [random_history(rng, 9) for _ in range(5)]
        hists += [random_history2(rng, 8) for _ in range(28)]
        hists += exhaustive_histories(2)
        res.extra["exhaustive_history_length"] = 2
    else:
        ex = exhaustive_histories(4)
        hists += ex
        hists += [random_history(rng, 8) for _ in range(300)]
        hists += [random_history2(rng, 10) for _ in range(250)]
        hists += [close(h) for h in directed_histories({"hashed", "import_info"}, rng)]
        res.extra["exhaustive_history_length"] = 4
        res.extra["exhaustive"] = True
    # dedupe
    uniq, seen = [], set()
    for h in hists:
        k = json.dumps(h)
        if k not in seen:
            seen.add(k)
            uniq.append(h)
    hists = uniq
    res.extra["histories"] = len(hists)

    # isort builds its pattern tables lazily and not thread-safely: ask every verdict the worker
    # threads will need here, in the main thread, before they start (a half-built table answers
    # "not stdlib" and the answer is cached)
    for n_ in list(ALL_MODS) + list(EXTERNAL) + ["nosuch", "pkg.nosuch"]:
        for m_ in names_right(n_):
            is_stdlib_name(m_)
    permanent_patterns()
    for role_ in ROLES:
        for i_ in range(len(FILES[role_][1])):
            imports_of(role_, i_)

    with cf.ThreadPoolExecutor(max_workers=16) as ex:
        all_recs = list(ex.map(run_history, hists))

    # arguments-hash <-> hashed-option-tuple mapping observed on the real documents
    key_to_hash, hash_to_key = {}, {}
    for recs in all_recs:
        for rec in recs:
            if "run" not in rec:
                continue
            k = optkey(OPTIONS[rec["state"]["opt"]])
            for text in (strip_nl(rec["fresh"]["out"]) if rec["fresh"]["exit"] == 0 and not rec["fresh"]["tb"] else None,):
                if text:
                    try:
                        h = json.loads(text)["arguments_hash"]
                    except Exception:
                        continue
                    key_to_hash.setdefault(k, set()).add(h)
                    hash_to_key.setdefault(h, set()).add(k)
    bad_map = {k: sorted(v) for k, v in key_to_hash.items() if len(v) > 1}
    bad_map.update({h: sorted(v) for h, v in hash_to_key.items() if len(v) > 1})
    if bad_map:
        res.violations.append({"signature": "other:arguments-hash-not-a-function-of-the-hashed-options",
                               "case": bad_map})
    argmap = {h: next(iter(ks)) for h, ks in hash_to_key.items()}

    model = common.Model()
    payloads = [history_payload(h, recs, version) for h, recs in zip(hists, all_recs)]
    mouts = model.batch([("cache_x_history", p) for p in payloads])
    plugins_seen = set()

    for h, recs, pay, mo in zip(hists, all_recs, payloads, mouts):
        case = {"stream": "history", "ops": h}
        runs = [r for r in recs if "run" in r]
        if runs:
            res.nontrivial.add(common.digest(h))
        skip = False
        for row in pay["analysis"]:
            if "__inconsistent__" in row:
                res.violations.append({"signature": "other:from-scratch-run-not-deterministic", "case": case,
                                       "detail": row})
        # oracle
        for i, rec in enumerate(recs):
            if "run" not in rec:
                continue
            res.evaluations += 1
            io = impl_out(rec)
            res.count("run:" + io.split(":")[0])
            o_ = OPTIONS[rec["state"]["opt"]]
            res.count(f"run-at:follow={o_['follow']}")
            res.count("run-with:" + ("+".join(k for k in ("F", "x", "other") if o_[k]) or "no-exclusions") + ":" + o_["via"])
            for ch in rec.get("since_write") or ["nothing-changed"]:
                res.count("since-write:" + re.sub(r":\d->\d$", "", ch))
            for sig, detail in judge_run(rec):
                if sig == "__skip__":
                    skip = True
                    res.skipped_outside_fragment += 1
                    continue
                # the prefix of the history up to the offending run is the replay
                res.violations.append({"signature": sig, "case": {**case, "ops": h[:i + 1], "step": i, "state": rec["state"]},
                                       "detail": detail,
                                       "impl": {"out": io, "exit": rec["run"]["exit"], "stderr_tail": rec["run"]["err_tail"],
                                                "fresh_exit": rec["fresh"]["exit"]}})
        for op in h:
            op = normalise(op)
            res.count("op:" + op[0] + (":" + CLASS[op[1]] if op[0] == "edit" else "")
                      + (":" + DAMAGE[op[1]][1] if op[0] == "damage" else ""))
        for rec in runs:
            # the badness a target variant has by construction vs the one observed from outside
            tv = rec["state"]["target"]
            if rec.get("badness") is not None and tv in PLANNED_BADNESS and OPTIONS[rec["state"]["opt"]]["follow"] >= 1 \
                    and rec["state"]["direct"] == 0 and rec["badness"] != PLANNED_BADNESS[tv]:
                res.internal_errors.append({"what": "a target's badness is not the one its thresholds were planned around",
                                            "target": tv, "observed": rec["badness"], "planned": PLANNED_BADNESS[tv]})
                break
        res.sample({"case": case, "impl": [impl_out(r) if "run" in r else "-" for r in recs]}, cap=6)
        if skip:
            continue
        # correspondence with the Lean state machine
        if "__error__" in mo:
            res.disagreements.append({"case": case, "model": mo})
            continue
        for i, (rec, ms) in enumerate(zip(recs, mo["steps"])):
            if "run" not in rec:
                continue
            io = impl_out(rec)
            d = rec["dir"]
            dmg = next((c_ for c_ in rec.get("since_write") or [] if c_.startswith("damaged:")), None)
            if dmg and not rec["rewritten"] and rec["after"] == rec["before"]:
                # the damaged file is still there: name it as the model does
                cls_ = DAMAGE[dmg.split(":", 1)[1]][1]
                real = {"removed": "absent", "notJson": "malformed"}.get(cls_, cls_.replace("raises:", "crashing:"))
            else:
                real = real_disk_projection(rec["after"], d, version, argmap, plugins_seen)
            mdisk = ms["disk"]
            if isinstance(mdisk, dict):
                mdisk = {**mdisk, "imports": sorted(mdisk["imports"]), "args": model_optkey(mdisk["args"])}
            # my own reading of the import follower / recorded origins vs the Lean model's
            exp = expected_analysis(rec["state"], d)
            mine = None if exp is None else {"analysed": exp[0], "recorded": exp[1]}
            theirs = None if ms.get("bfs") != "done" else {"analysed": ms["analysed"], "recorded": sorted(ms["recorded"])}
            if mine != theirs or not ms.get("builtinsUnreadable", True):
                res.internal_errors.append({"what": "Lean import follower / recorded origins differ from the independent "
                                                    "Python reading", "case": {**case, "step": i}, "python": mine,
                                            "lean": theirs, "bfs": ms.get("bfs")})
                break
            if rec.get("badness") is not None and ms.get("plainOk") != (rec["fresh"]["exit"] == 0):
                # the model's reading of is_within_badness_threshold (badness, limit) vs the from-scratch run
                res.disagreements.append({"case": {**case, "step": i}, "impl": {"fresh_exit": rec["fresh"]["exit"],
                                                                                  "badness": rec["badness"]},
                                          "model": {"plainOk": ms.get("plainOk"), "limit": limit_json(OPTIONS[rec["state"]["opt"]])}})
                break
            if ms.get("missingRow") or io != ms["out"] or real != mdisk:
                res.disagreements.append({"case": {**case, "step": i}, "impl": {"out": io, "disk": real},
                                          "model": {"out": ms["out"], "disk": mdisk,
                                                    "missingRow": ms.get("missingRow")}})
                break
    plugins_seen.discard(None)
    if len(plugins_seen) > 1:
        res.violations.append({"signature": "other:plugins-hash-not-constant", "case": sorted(plugins_seen)})

    argkey_stream(res, tier, rng, model)
    deps_stream(res, tier, rng, model)
    corruption_stream(res, tier, rng, model)
    hash_probe(res)
    res.extra["hash_block_size"] = BLOCK
    res.extra["cli_invocations"] = CLI_CALLS[0]
    res.extra["from_scratch_runs_shared_between_histories"] = len(_FRESH)

    res.assumptions = [
        "frame hypothesis, reduced (Lean: FreshFrame): the results depend only on target path, hashed options, version, plugins and the content of the files the import follower reads — tested end-to-end by the from-scratch oracle, not proved; that every file read is the target or a recorded origin, and that the recorded origins depend only on the files read, are now theorems about the model of the import follower + make_cacheable_import_info (deps_covers, deps_recorded_frame), and that model is compared with every real cache document",
        "re.fullmatch, isort's place_module and the module locator are trusted classifiers (parameters of the model); hash_string(str(HashableArguments)) is treated as injective, like md5",
        "[interp] the excluded-import / excluded-name patterns are a SET of the strings as given: order and repetition are not a change, letter case and white space are",
        "md5 treated as injective; directory structure fixed (content edits and re-pointed symbolic links only; every link leads to a regular file at all times)",
        "[interp] 'treated as stale' for a missing / damaged cache file = the run is the run without a cache file: same exit status, same output, cache rewritten, under every strictness option (Lean: C19_damaged_as_absent); a target's own badness is observed from outside with a --strict from-scratch run",
        "[interp] 'a fresh run would give the cached results' includes 'a fresh run would succeed': a hit under --threshold/--strict where the from-scratch run is fatal is a violation",
        "[interp] 'corrupted or of the wrong shape' = not UTF-8 / not JSON / a JSON value whose fields do not have the declared JSON types; same-type value changes (undetectable without a checksum) are only required not to crash",
        "PYTHONHASHSEED=0 for every CLI run (hash-seed dependence is C05/C18's subject)",
    ]
    return res


def replay(path):
    j = json.load(open(path))
    print(json.dumps(j, indent=1)[:6000])
    case = j.get("case") or {}
    if case.get("stream") == "history":
        recs = run_history(case["ops"])
        for r in recs:
            if "run" in r:
                print("op", r["op"], "->", impl_out(r), "exit", r["run"]["exit"], "| from-scratch exit", r["fresh"]["exit"],
                      "| oracle:", judge_run(r))
            elif r["op"][0] == "changeOption":
                o = OPTIONS[r["op"][1]]
                print("op", r["op"], "= rattr", " ".join(map(repr, o["args"])),
                      ("| pyproject.toml: " + o["toml"].replace("\n", " ; ")) if o["toml"] else "")
            elif r["op"][0] in ("edit", *EDIT_OPS):
                op = normalise(r["op"])
                print("op", r["op"], "=", FILES[op[1]][0], "<-", repr(src_of(op[1], op[2])[-120:]))
            elif r["op"][0] == "editlink":
                print("op", r["op"], "= write through the link path", origin_rel(r["op"][1]), "(", FILES[r["role"]][0], ") <-",
                      repr(src_of(r["role"], r["op"][2])[-120:]))
            elif r["op"][0] == "relink":
                path, kind, choices = LINKS[r["op"][1]]
                print("op", r["op"], "= ln -sfn", choices[r["op"][2]], path, f"({kind} link)")
            elif r["op"][0] == "damage":
                print("op", r["op"], "= the cache file is damaged:", r["op"][1], "(model class:", DAMAGE[r["op"][1]][1] + ")")
            else:
                print("op", r["op"])
        mo = common.Model().batch([("cache_x_history", history_payload(case["ops"], recs, "?"))])[0]
        print("model:", [s["out"] for s in mo.get("steps", [])] if isinstance(mo, dict) and "steps" in mo else mo)
    elif case.get("stream") == "deps":
        d = make_project("c19d_")
        try:
            ob = deps_in_process(d, [(case["state"], case["opt"])])[0]
            print("options:", raw_opts(OPTIONS[case["opt"]]))
            print("files opened by the import follower:", ob.get("opened"))
            print("origins recorded by make_cacheable_import_info:", ob.get("recorded"))
            print("read but not recorded:", [f for f in ob.get("opened", []) if f != "target.py" and f not in ob.get("recorded", [])])
        finally:
            shutil.rmtree(d, ignore_errors=True)
    elif case.get("stream") == "argkey":
        fam = [tuple(case["opts"])] + ([tuple(case["opts2"])] if case.get("opts2") else [])
        hs = real_argument_hashes(fam)
        pre = live_facts()["litPrefix"]
        ks = common.Model().batch([("cache_argkey", {"prefix": pre, "opts": {"follow": f, "F": F or [], "x": x or []}})
                                   for f, F, x in fam])
        for c, h, k in zip(fam, hs, ks):
            print("options (follow, excluded imports, excluded names):", c, "-> arguments hash", h, "| model key", k)
        if len(fam) == 2:
            print("same hash:", hs[0] == hs[1], "| same option sets:", canon_opts(fam[0]) == canon_opts(fam[1]),
                  "| difference:", option_difference(fam[0], fam[1]))
    elif case.get("stream") == "hash-probe":
        d = tempfile.mkdtemp(prefix="c19p_", dir=TMPROOT)
        try:
            got, want = hash_probe_one(d, case["size"], case["blocksize"])
            print("hash_file_content:", got, "| md5 of the whole content:", want)
        finally:
            shutil.rmtree(d, ignore_errors=True)
    elif case.get("stream") == "corruption":
        d, _ = make_cache_project()
        try:
            good = (d / "cache.json").read_bytes()
            if case.get("absent"):
                b = None
            elif case.get("truncate_at") is not None:
                b = good[:case["truncate_at"]]
            elif case.get("bytes_hex") is not None:
                b = bytes.fromhex(case["bytes_hex"]).replace(case.get("project_dir", "\0").encode(), str(d).encode())
            else:
                print("blob not stored; label:", case.get("label"))
                return 0
            print("impl:", gate_in_process(d, [b])[1][0], "| file content:", "absent" if b is None else classify_bytes(b)["k"])
        finally:
            shutil.rmtree(d, ignore_errors=True)
    return 0
